"""Controlled schedules over REAL processes (DESIGN 2.4 'sched' mode, 5 C12).

A warmed parent (signac already imported) FORKS one child per actor.  Inside each child a shim is
installed that blocks before every file-system step on a *contended* path (os.stat / lstat / mkdir /
replace / rename / remove / unlink / rmdir / listdir / scandir, open, and every read / write of a file
opened on such a path) until the controller grants the turn over a pipe.  Before blocking the child
announces the PENDING step, so the controller always knows what the actor is about to do; after the
step the child reports its OUTCOME (errno name, bytes read, names listed) together with the next
pending step.  Exactly one actor runs at any time, so a schedule (a sequence of actor names) fixes the
interleaving of the gated steps completely.

Real processes are necessary: actors as threads would share the dependency's class-level lock table.

    run = Run(root, {"p1": fn1, "p2": fn2}, contended=lambda rel: rel.startswith("workspace"))
    run.pending("p1")  -> ("stat", "workspace") | None when finished
    run.grant("p1")    -> outcome of the granted step (dict)
    run.done("p1")     -> None | {"ok": True, "result": ...} | {"ok": False, "exc": "FileExistsError", ...}
    run.close()        -> reaps (and if necessary kills) every child

Nothing here knows about signac or about a specification; labels are (op, relative path[, relative path]).
"""
import base64
import builtins
import errno
import io
import json
import os
import select
import signal
import sys
import time
import traceback


class SchedError(RuntimeError):
    """machinery failure of the scheduler (child died without a message, timeout, protocol error)"""


# ------------------------------------------------------------------------------------------------
# child side
# ------------------------------------------------------------------------------------------------
_PATH_OPS = ("stat", "lstat", "mkdir", "rmdir", "remove", "unlink", "listdir", "scandir")
_TWO_PATH_OPS = ("replace", "rename")


class _Gate:
    def __init__(self, root, rfd, wfd, contended):
        self.root = os.path.realpath(root)
        self.rfd, self.wfd = rfd, wfd
        self.contended_rel = contended
        self.last_outcome = None
        self.nsteps = 0
        self.enabled = True

    def rel(self, p):
        try:
            p = os.fspath(p)
        except TypeError:
            return None
        if isinstance(p, bytes):
            p = os.fsdecode(p)
        ap = os.path.normpath(os.path.join(_CWD, p)) if not os.path.isabs(p) else os.path.normpath(p)
        if ap == self.root:
            return "."
        if not ap.startswith(self.root + os.sep):
            return None
        return ap[len(self.root) + 1:]

    def contended(self, p):
        if not self.enabled:
            return None
        r = self.rel(p)
        if r is None or not self.contended_rel(r):
            return None
        return r

    def send(self, msg):
        data = (json.dumps(msg) + "\n").encode()
        while data:
            n = os.write(self.wfd, data)
            data = data[n:]

    def wait(self, label):
        """announce the pending step (with the previous step's outcome), block until granted"""
        self.send({"t": "step", "label": label, "prev": self.last_outcome})
        self.last_outcome = None
        b = os.read(self.rfd, 1)
        if not b:           # controller went away
            os._exit(3)
        self.nsteps += 1

    def outcome(self, **kw):
        self.last_outcome = kw


def _errname(e):
    return errno.errorcode.get(getattr(e, "errno", None), type(e).__name__)


_CWD = os.getcwd()
_ACTIVE = [None]


def checkpoint(*label):
    """A scheduling point that is not a file-system call (e.g. 'the caller begins operation X'): blocks like any gated
    step when called inside an actor, does nothing elsewhere."""
    g = _ACTIVE[0]
    if g is not None and g.enabled:
        g.wait(["mark"] + [str(x) for x in label])
        g.outcome(err=None)


def install_gate(root, rfd, wfd, contended):
    """Patch os / builtins in THIS process (call only in a forked child)."""
    g = _Gate(root, rfd, wfd, contended)

    def wrap1(name, orig):
        def w(path, *a, **kw):
            r = None
            if kw.get("dir_fd") is None and isinstance(path, (str, bytes, os.PathLike)):
                r = g.contended(path)
            if r is None:
                return orig(path, *a, **kw)
            g.wait([name, r])
            try:
                res = orig(path, *a, **kw)
            except OSError as e:
                g.outcome(err=_errname(e))
                raise
            if name == "listdir":
                res = sorted(res)       # listing order is controlled: a contended directory is always presented sorted
                g.outcome(err=None, names=[os.fsdecode(x) for x in res])
            elif name in ("stat", "lstat"):
                import stat as _st
                g.outcome(err=None, kind="dir" if _st.S_ISDIR(res.st_mode) else "file")
            elif name == "scandir":
                res = list(res)
                g.outcome(err=None, names=sorted(e.name for e in res))
                res = _ScandirResult(res)
            else:
                g.outcome(err=None)
            return res
        w.__name__ = name
        return w

    def wrap2(name, orig):
        def w(src, dst, *a, **kw):
            rs = rd = None
            if kw.get("src_dir_fd") is None and kw.get("dst_dir_fd") is None:
                if isinstance(src, (str, bytes, os.PathLike)):
                    rs = g.contended(src)
                if isinstance(dst, (str, bytes, os.PathLike)):
                    rd = g.contended(dst)
            if rs is None and rd is None:
                return orig(src, dst, *a, **kw)
            g.wait([name, rs if rs is not None else os.fspath(src), rd if rd is not None else os.fspath(dst)])
            try:
                res = orig(src, dst, *a, **kw)
            except OSError as e:
                g.outcome(err=_errname(e))
                raise
            g.outcome(err=None)
            return res
        w.__name__ = name
        return w

    for name in _PATH_OPS:
        if hasattr(os, name):
            setattr(os, name, wrap1(name, getattr(os, name)))
    for name in _TWO_PATH_OPS:
        setattr(os, name, wrap2(name, getattr(os, name)))

    class GatedFileIO(io.FileIO):
        """unbuffered file whose every read / write is one gated step"""

        def __init__(self, file, mode, rel):
            self._rel = rel
            super().__init__(file, mode)

        def _r(self, data):
            if data is None:
                g.outcome(err=None, data=None)
            else:
                g.outcome(err=None, data=base64.b64encode(bytes(data)[:1 << 20]).decode(), n=len(data))

        def read(self, size=-1):
            g.wait(["read", self._rel])
            d = super().read(size)
            self._r(d)
            return d

        def readall(self):
            g.wait(["read", self._rel])
            d = super().readall()
            self._r(d)
            return d

        def readinto(self, b):
            g.wait(["read", self._rel])
            n = super().readinto(b)
            self._r(bytes(memoryview(b)[: n or 0]))
            return n

        def write(self, b):
            g.wait(["write", self._rel])
            n = super().write(b)
            g.outcome(err=None, n=n)
            return n

        def truncate(self, size=None):
            g.wait(["truncate", self._rel])
            r = super().truncate(size)
            g.outcome(err=None)
            return r

    orig_open = builtins.open

    def gopen(file, mode="r", buffering=-1, encoding=None, errors=None, newline=None, closefd=True, opener=None):
        r = None
        if isinstance(file, (str, bytes, os.PathLike)) and opener is None:
            r = g.contended(file)
        if r is None:
            return orig_open(file, mode, buffering, encoding, errors, newline, closefd, opener)
        binary = "b" in mode
        rawmode = mode.replace("b", "").replace("t", "")
        g.wait(["open:" + ("".join(sorted(rawmode, key="rwxa+".index)) + ("b" if binary else "")), r])
        try:
            raw = GatedFileIO(file, rawmode, r)
        except OSError as e:
            g.outcome(err=_errname(e))
            raise
        g.outcome(err=None)
        if binary:
            return raw      # unbuffered: each read()/write() of the caller is exactly one step
        if "+" in rawmode:
            buf = io.BufferedRandom(raw)
        elif "r" in rawmode:
            buf = io.BufferedReader(raw)
        else:
            buf = io.BufferedWriter(raw)
        return io.TextIOWrapper(buf, encoding=encoding, errors=errors, newline=newline)

    builtins.open = gopen
    io.open = gopen
    _ACTIVE[0] = g
    return g


class _ScandirResult:
    def __init__(self, entries):
        self._e = entries

    def __iter__(self):
        return iter(self._e)

    def __enter__(self):
        return self

    def __exit__(self, *a):
        return False

    def close(self):
        pass


def _safe(f):
    try:
        return f()
    except Exception as e2:  # noqa: exceptions whose __str__ itself fails
        return "<unprintable: %s>" % type(e2).__name__


def _jsonable(v):
    try:
        json.dumps(v)
        return v
    except (TypeError, ValueError):
        return repr(v)


# ------------------------------------------------------------------------------------------------
# controller side
# ------------------------------------------------------------------------------------------------
class _Actor:
    __slots__ = ("name", "pid", "rf", "wfd", "pending", "done", "steps", "buf", "reaped")


class Run:
    """One controlled execution: forks the actors, then the caller grants steps one at a time."""

    def __init__(self, root, actors, contended, prelude=None, timeout=180.0, before_start=None):
        """actors: name -> callable(root) run in the child; prelude(name, root): runs in the child BEFORE the
        gate is installed (ungated set-up such as pre-opened handles, monkeypatches); its return value is passed
        to the actor callable as second argument if not None.  before_start(): runs in the controller after all
        preludes finished and before any actor executes its script (final arrangement of the initial tree)."""
        self.root = root
        self.timeout = timeout
        self.actors = {}
        self.trace = []
        self._closed = False
        sys.stdout.flush()
        sys.stderr.flush()
        try:
            for name, fn in actors.items():
                self.actors[name] = self._spawn(name, fn, contended, prelude)
            # wait until every child finished its prelude
            for a in self.actors.values():
                msg = self._recv(a)
                if msg.get("t") != "ready":
                    raise SchedError("actor %s failed in prelude: %r" % (a.name, msg))
            if before_start is not None:
                before_start()
            for a in self.actors.values():
                os.write(a.wfd, b"s")
            for a in self.actors.values():
                self._pump(a)
        except BaseException:
            self.close()
            raise

    # -- process management ----------------------------------------------------------------------
    def _spawn(self, name, fn, contended, prelude):
        c2p_r, c2p_w = os.pipe()
        p2c_r, p2c_w = os.pipe()
        pid = os.fork()
        if pid == 0:
            code = 0
            try:
                # a child must never return into the caller's stack (pool workers, atexit handlers ...)
                signal.signal(signal.SIGTERM, signal.SIG_DFL)
                os.close(c2p_r)
                os.close(p2c_w)
                for other in self.actors.values():      # descriptors of siblings forked earlier
                    for fd in (other.rf.fileno(), other.wfd):
                        try:
                            os.close(fd)
                        except OSError:
                            pass
                state = None

                def send(msg):
                    data = (json.dumps(msg) + "\n").encode()
                    while data:
                        n = os.write(c2p_w, data)
                        data = data[n:]
                try:
                    if prelude is not None:
                        state = prelude(name, self.root)
                    send({"t": "ready"})
                    if not os.read(p2c_r, 1):
                        os._exit(3)
                    g = install_gate(self.root, p2c_r, c2p_w, contended)
                    try:
                        res = fn(self.root) if state is None else fn(self.root, state)
                        g.enabled = False
                        send({"t": "done", "ok": True, "result": _jsonable(res), "prev": g.last_outcome})
                    except BaseException as e:  # noqa: the actor's exception IS the observation
                        g.enabled = False
                        send({"t": "done", "ok": False, "exc": type(e).__name__, "mro": [c.__name__ for c in type(e).__mro__],
                              "msg": _safe(lambda: str(e))[:300], "tb": _safe(traceback.format_exc)[-1500:], "prev": g.last_outcome})
                except BaseException as e:  # noqa: prelude / protocol failure
                    try:
                        send({"t": "fail", "exc": type(e).__name__, "msg": _safe(lambda: str(e))[:300], "tb": _safe(traceback.format_exc)[-1500:]})
                    except OSError:
                        pass
                    code = 2
            finally:
                os._exit(code)
        os.close(c2p_w)
        os.close(p2c_r)
        a = _Actor()
        a.name, a.pid, a.rf, a.wfd = name, pid, os.fdopen(c2p_r, "rb", 0), p2c_w
        a.pending, a.done, a.steps, a.buf, a.reaped = None, None, 0, b"", False
        return a

    def _recv(self, a):
        deadline = time.time() + self.timeout
        while b"\n" not in a.buf:
            left = deadline - time.time()
            if left <= 0:
                raise SchedError("actor %s: no message within %.0fs (pending=%r, steps=%d)" % (a.name, self.timeout, a.pending, a.steps))
            r, _, _ = select.select([a.rf], [], [], left)
            if not r:
                continue
            chunk = os.read(a.rf.fileno(), 65536)
            if not chunk:
                raise SchedError("actor %s died without a message (steps=%d, last pending=%r)" % (a.name, a.steps, a.pending))
            a.buf += chunk
        line, _, a.buf = a.buf.partition(b"\n")
        return json.loads(line)

    def _pump(self, a):
        msg = self._recv(a)
        t = msg.get("t")
        if t == "step":
            a.pending = tuple(msg["label"])
        elif t == "done":
            a.pending = None
            a.done = msg
        else:
            raise SchedError("actor %s: unexpected message %r" % (a.name, msg))
        return msg.get("prev")

    # -- the controller's interface --------------------------------------------------------------
    def names(self):
        return list(self.actors)

    def pending(self, name):
        return self.actors[name].pending

    def done(self, name):
        return self.actors[name].done

    def live(self):
        return [n for n, a in self.actors.items() if a.done is None]

    def grant(self, name):
        """let `name` execute its pending step; returns that step's outcome once the actor is blocked again"""
        a = self.actors[name]
        if a.done is not None or a.pending is None:
            raise SchedError("grant to finished actor %s" % name)
        label = a.pending
        os.write(a.wfd, b"g")
        a.steps += 1
        out = self._pump(a)
        self.trace.append((name, label, out))
        return out

    def run_round_robin(self, max_steps=100000):
        n = 0
        while self.live():
            for name in self.live():
                self.grant(name)
                n += 1
                if n > max_steps:
                    raise SchedError("round robin exceeded %d steps" % max_steps)
        return n

    def close(self):
        if self._closed:
            return
        self._closed = True
        for a in self.actors.values():
            try:
                os.close(a.wfd)     # a blocked child reads EOF and exits
            except OSError:
                pass
        deadline = time.time() + 2.0
        for a in self.actors.values():
            while not a.reaped:
                try:
                    pid, _ = os.waitpid(a.pid, os.WNOHANG)
                except ChildProcessError:
                    a.reaped = True
                    break
                if pid:
                    a.reaped = True
                    break
                if time.time() > deadline:
                    try:
                        os.kill(a.pid, signal.SIGKILL)
                    except ProcessLookupError:
                        pass
                    try:
                        os.waitpid(a.pid, 0)
                    except ChildProcessError:
                        pass
                    a.reaped = True
                    break
                time.sleep(0.002)
            try:
                a.rf.close()
            except OSError:
                pass

    def __enter__(self):
        return self

    def __exit__(self, *exc):
        self.close()
        return False


def decode_data(outcome):
    """bytes returned by a gated read step (None when the step was not a read)"""
    if not outcome or outcome.get("data") is None:
        return None
    return base64.b64decode(outcome["data"])

"""Python JSON values <-> the wire format of spec/common/JsonValue.tla."""
import math

_BASE = {"b": False, "n": 0, "a": [], "l": [], "m": []}


def cps(s):
    return [ord(c) for c in s]


def uncps(a):
    return "".join(chr(c) for c in a)


def to_wire(v):
    w = dict(_BASE)
    if v is None:
        w["t"] = "null"
    elif isinstance(v, bool):
        w["t"] = "bool"; w["b"] = v
    elif isinstance(v, int):
        if abs(v) < 2**31:
            w["t"] = "int"; w["n"] = v
        else:
            w["t"] = "big"; w["a"] = cps(str(v))
    elif isinstance(v, float):
        assert math.isfinite(v)
        w["t"] = "flt"; w["a"] = cps(repr(v))
    elif isinstance(v, str):
        w["t"] = "str"; w["a"] = cps(v)
    elif isinstance(v, (list, tuple)):
        w["t"] = "list"; w["l"] = [to_wire(x) for x in v]
    elif isinstance(v, dict):
        w["t"] = "map"; w["m"] = [[cps(k), to_wire(x)] for k, x in v.items()]
    else:
        raise TypeError(type(v))
    return w


def from_wire(w, list_as=list):
    t = w["t"]
    if t == "null":
        return None
    if t == "bool":
        return bool(w["b"])
    if t == "int":
        return int(w["n"])
    if t == "big":
        return int(uncps(w["a"]))
    if t == "flt":
        return float(uncps(w["a"]))
    if t == "str":
        return uncps(w["a"])
    if t == "list":
        return list_as(from_wire(x, list_as) for x in w["l"])
    if t == "map":
        return {uncps(k): from_wire(x, list_as) for k, x in w["m"]}
    raise ValueError(t)


def type_exact_eq(a, b):
    """JSON-value equality: 1 != 1.0 != True, list == tuple, dict key order ignored."""
    if isinstance(a, (list, tuple)) and isinstance(b, (list, tuple)):
        return len(a) == len(b) and all(type_exact_eq(x, y) for x, y in zip(a, b))
    if isinstance(a, dict) and isinstance(b, dict):
        return a.keys() == b.keys() and all(type_exact_eq(a[k], b[k]) for k in a)
    return type(a) is type(b) and a == b


def shape(v):
    """coarse type signature used for distinct-case counting and violation signatures"""
    if isinstance(v, dict):
        return "{" + ",".join(sorted(set(shape(x) for x in v.values()))) + "}"
    if isinstance(v, (list, tuple)):
        return "[" + ",".join(sorted(set(shape(x) for x in v))) + "]"
    return type(v).__name__

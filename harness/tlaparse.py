"""Recursive-descent parser for values as TLC prints them, and readers for
TLC's `-dump dot,actionlabels` state graphs and `-simulate file=` behaviours."""
import re

TOK = re.compile(
    r'\s*(<<|>>|\|->|:>|@@|\.\.|[\[\]{}(),]|"(?:[^"\\]|\\.)*"|-?\d+|[A-Za-z_][A-Za-z0-9_]*)'
)


class FrozenDict(dict):
    def __hash__(self):
        return hash(frozenset(self.items()))


class _P:
    def __init__(self, text):
        self.t = TOK.findall(text)
        self.i = 0

    def peek(self):
        return self.t[self.i] if self.i < len(self.t) else None

    def eat(self, x=None):
        v = self.t[self.i]
        if x is not None and v != x:
            raise ValueError(f"expected {x!r} got {v!r} near {self.t[max(0, self.i - 5):self.i + 5]}")
        self.i += 1
        return v

    def val(self):
        t = self.peek()
        if t == "<<":
            self.eat()
            out = []
            while self.peek() != ">>":
                out.append(self.val())
                if self.peek() == ",":
                    self.eat()
            self.eat(">>")
            return tuple(out)
        if t == "{":
            self.eat()
            out = []
            while self.peek() != "}":
                out.append(self.val())
                if self.peek() == ",":
                    self.eat()
            self.eat("}")
            return frozenset(out)
        if t == "[":
            self.eat()
            d = {}
            while self.peek() != "]":
                k = self.eat()
                self.eat("|->")
                d[k] = self.val()
                if self.peek() == ",":
                    self.eat()
            self.eat("]")
            return FrozenDict(d)
        if t == "(":
            self.eat()
            d = {}
            while True:
                k = self.val()
                self.eat(":>")
                d[k] = self.val()
                if self.peek() == "@@":
                    self.eat()
                    continue
                break
            self.eat(")")
            return FrozenDict(d)
        self.eat()
        if t.startswith('"'):
            return _unescape(t[1:-1])
        if t == "TRUE":
            return True
        if t == "FALSE":
            return False
        if re.fullmatch(r"-?\d+", t):
            return int(t)
        return t


def _unescape(s):
    if "\\" not in s:
        return s
    out = []
    i = 0
    while i < len(s):
        c = s[i]
        if c == "\\" and i + 1 < len(s):
            n = s[i + 1]
            out.append({"n": "\n", "t": "\t", "r": "\r", "f": "\f", '"': '"', "\\": "\\"}.get(n, n))
            i += 2
        else:
            out.append(c)
            i += 1
    return "".join(out)


def parse_value(text):
    return _P(text).val()


def parse_state(label):
    """'/\\ h = ...\\n/\\ last = ...'  ->  {var: value}"""
    out = {}
    for part in re.split(r"(?:^|\n)/\\ ", label):
        if not part.strip():
            continue
        name, _, rest = part.partition(" = ")
        out[name.strip()] = _P(rest).val()
    return out


def parse_dot(path, want_vars=None):
    """Returns (nodes: id -> state dict, edges: [(src, dst, action_label)], init_ids)."""
    nodes, edges, inits = {}, [], []
    edge_re = re.compile(r'^(-?\d+) -> (-?\d+) \[label="([^"]*)"')
    node_re = re.compile(r'^(-?\d+) \[label="((?:[^"\\]|\\.)*)"(.*)$')
    with open(path) as f:
        for line in f:
            m = edge_re.match(line)
            if m:
                edges.append((m.group(1), m.group(2), m.group(3)))
                continue
            m = node_re.match(line)
            if m:
                label = m.group(2).replace("\\n", "\n").replace('\\"', '"').replace("\\\\", "\\")
                st = parse_state(label)
                if want_vars:
                    st = {k: v for k, v in st.items() if k in want_vars}
                nodes[m.group(1)] = st
                if "filled" in m.group(3):
                    inits.append(m.group(1))
    return nodes, edges, inits


def parse_trace_text(text):
    """Parse TLC error-trace / simulate output: list of (action_header, state dict)."""
    out = []
    cur_head, cur = None, []
    for line in text.splitlines():
        m = re.match(r"^State (\d+): (.*)$", line)
        if m:
            if cur_head is not None:
                out.append((cur_head, parse_state("\n".join(cur))))
            cur_head, cur = m.group(2), []
            continue
        if cur_head is not None:
            if line.startswith("/\\ ") or (cur and line.startswith(" ")) or (cur and line and not re.match(r"^(Error|\d+ states|Finished|The |Back to state|State )", line)):
                if line.strip() == "":
                    continue
                cur.append(line)
            elif line.strip() == "":
                continue
            else:
                out.append((cur_head, parse_state("\n".join(cur))))
                cur_head, cur = None, []
    if cur_head is not None:
        out.append((cur_head, parse_state("\n".join(cur))))
    return out


def parse_sim_file(path):
    """A behaviour file written by `-simulate file=...`: STATE_n == /\\ v = ... blocks."""
    text = open(path).read()
    states = []
    for m in re.finditer(r"(?:\\\* (<.*?>)\s*\n)?STATE_(\d+) ==\s*\n?(.*?)(?=\n\n|\n\\\*|\nSTATE_|\n====|\Z)", text, re.S):
        body = m.group(3)
        states.append((m.group(1) or "", parse_state(body)))
    return states

"""C05 - job and project documents are faithful persistent dicts; buffering is transparent.

Specification: spec/workspace/Documents.tla (actions written like the code, requirements stated against the
ghost plain dict `ideal`), spec/workspace/DocumentsTrace.tla (batch validation of recorded executions).

TLC decides on the specification: Faithful, ReadOwnWrites, OtherHandleSees, BufferTransparent (+ mechanism facts)
  - on the model of a repaired dependency (FixedD1 = FixedD2 = TRUE): must hold (proof on the bounded model);
  - with the deviations the real code shows (probed at start): TLC's shortest counterexamples are replayed on
    the real code and reported (KNOWN-FINDING when listed).
spec -> code: the labelled state graph of each bounded slice is exported (-dump dot), an edge cover is computed
  and every path is replayed into real signac on a fresh project with the TLC-chosen Enter/Exit placement;
  after each step result / exception class and the raw JSON files are compared with the TLC state, and the
  property's post-conditions are evaluated on the real observations against TLC's `ideal`.
code -> spec: the same operation sequences without blocks / fully inside blocks, seeded random sequences of
  ~40 operations over deep values (1-3 jobs, 1-3 handles, random sub-blocks and capacities) and the operation
  scripts of the repository's own document tests are executed on real signac, recorded as Hoare triples and
  validated by TLC in batch.
"""
import concurrent.futures
import json
import os
import random
import zlib

from .. import core, docutil, tlc
from ..docutil import ABSENT, DEFAULT_CAP, Sandbox, eq_exact, exc_matches, last_to_ev, spec_to_py, wire_to_py

SPEC = "workspace/Documents.tla"
TRACE_SPEC = "workspace/DocumentsTrace.tla"
SIG = {
    "D1": "buffered:two-handles:last-registered-handle-stale:write-lost",
    "D2": "merge:python-equal-value-kept:type-change-lost",
    "D3": "merge:none-does-not-replace-nested-collection",
    "D4": "load:missing-file-keeps-stale-copy:cancelled-buffered-write-resurrects",
}
MECH = ["TypeOK", "OutsideNothingBuffered", "EntriesFresh", "EntriesRegistered"]
REQS = ["Faithful", "ReadOwnWrites", "OtherHandleSees"]
BUFOPS = ("enter", "exit")
LIFE = ("remove", "rekey")


def _consts(flags, **kw):
    c = dict(Files='{"j1"}', JobFiles='{"j1"}', NHJob=2, NHProj=1, Ops="<- OpsDict", Vals="<- VTypes", NVals="<- NVTypes",
             MapArgs="<- MapsSmall", Caps="<- CapsTwo", MaxNest=2, DefaultCap=DEFAULT_CAP, MaxLevel=3,
             FixedD1=tlc.lit(flags["FixedD1"]), FixedD2=tlc.lit(flags["FixedD2"]), FixedD3=tlc.lit(flags["FixedD3"]), FixedD4=tlc.lit(flags["FixedD4"]), PopAbsentNone=tlc.lit(flags["PopAbsentNone"]))
    c.update(kw)
    return c


def _viol(ctx, sig, what, rep):
    """ctx.violation, keeping at most 3 instances per signature (all are counted)"""
    n = ctx.cov.setdefault("violation_instances", {})
    n[sig] = n.get(sig, 0) + 1
    if n[sig] <= 3:
        ctx.violation(sig, what, rep)


# ---- probing the real behaviour (minimal repros of the deviations) --------------------------------
def probe(ctx):
    root = ctx.mkdtemp("probe")
    sb = Sandbox(os.path.join(root, "a"))
    try:
        a, b = ("j1", 1), ("j1", 2)
        for ev in ({"op": "enter", "form": "", "ix": 0}, {"op": "read", "h": a}, {"op": "read", "h": b},
                   {"op": "set", "h": a, "k": "k", "v": 5}, {"op": "exit"}):
            sb.apply(ev)
        d1 = sb.disk(["j1"])["j1"]
    finally:
        sb.close()
    sb = Sandbox(os.path.join(root, "b"))
    try:
        sb.apply({"op": "set", "h": ("j1", 1), "k": "a", "v": 1})
        sb.apply({"op": "reset", "h": ("j1", 1), "v": {"a": True}})
        d2 = sb.disk(["j1"])["j1"]
        exc, ret = sb.apply({"op": "pop", "h": ("j1", 1), "k": "zz", "form": "nodefault", "v": None})
        sb.apply({"op": "set", "h": ("j1", 1), "k": "n", "v": {"c": 1}})
        sb.apply({"op": "reset", "h": ("j1", 1), "v": {"n": None}})
        d3 = sb.disk(["j1"])["j1"]
    finally:
        sb.close()
    sb = Sandbox(os.path.join(root, "c"))
    try:
        for ev in ({"op": "enter", "form": "", "ix": 0}, {"op": "set", "h": ("p", 1), "k": "e", "v": 1}, {"op": "clear", "h": ("p", 2)}, {"op": "exit"}):
            sb.apply(ev)
        _, d4 = sb.apply({"op": "read", "h": ("p", 1)})
    finally:
        sb.close()
    flags = {"FixedD1": eq_exact(d1, {"k": 5}), "FixedD2": eq_exact(d2, {"a": True}), "FixedD3": eq_exact(d3, {"n": None}), "FixedD4": eq_exact(d4, {}),
             "PopAbsentNone": exc is None and ret is None}
    if not flags["PopAbsentNone"] and not exc_matches(exc, "KeyError"):
        raise core.MachineryError("pop of an absent key neither returns None nor raises KeyError: %r" % (exc,))
    return flags


# ---- replay of one TLC behaviour (graph path, counterexample, simulated behaviour) -------------
_G = {}


def _spell(seed, idx, step):
    return zlib.crc32(("%d/%s/%d" % (seed, idx, step)).encode()) % 12


def _exp_disk(st):
    return {f: (spec_to_py(r["v"]) if r["ex"] else ABSENT) for f, r in st["disk"].items()}


def _json_or_empty(x):
    return {} if isinstance(x, str) and x == ABSENT else x


def replay_states(root, states, seed, idx, files, mode="mixed"):
    """states: TLC states after each step (dicts with disk, ideal, depth, dev, writers?, last).
    Returns dict(steps, viol=[(signature, what)], drift=str|None, evs=[...], known=[deviation names])."""
    sb = Sandbox(root)
    out = {"steps": 0, "viol": [], "drift": None, "evs": [], "dev": [], "final": None}
    in_block = drifted = False
    try:
        for n, st in enumerate(states):
            ev = last_to_ev(st["last"])
            ev["sp"] = _spell(seed, idx, n)
            out["evs"].append(ev)
            exc, ret = sb.apply(ev)
            real = sb.disk(files)
            out["steps"] += 1
            in_block = in_block or ev["op"] == "enter"
            want = st["last"]["res"]
            want_v = spec_to_py(want["v"])
            res_ok = exc_matches(exc, want["exc"]) and (exc is not None or eq_exact(ret, want_v, order=True))
            res_json = exc_matches(exc, want["exc"]) and (exc is not None or eq_exact(ret, want_v))
            exp = _exp_disk(st)
            disk_ok = all(eq_exact(real[f], exp[f], order=True) for f in files)
            disk_json = all(eq_exact(real[f], exp[f]) for f in files)
            ideal = {f: spec_to_py(st["ideal"][f]) for f in files}
            depth, dev = st["depth"], sorted(st["dev"])
            # -- the property's post-conditions, on the REAL observations, against TLC's plain dict
            bad = []
            if exc is not None and (drifted or not want["exc"]) and not any(c in docutil.KNOWN_EXC for c in exc):
                bad.append("raises:" + exc[0])
            if depth == 0:
                for f in files:
                    if not eq_exact(_json_or_empty(real[f]), ideal[f]):
                        bad.append("file!=dict")
                        break
                if ev["op"] == "read" and exc is None and not eq_exact(ret, ideal[ev["h"][0]]):
                    bad.append("read!=dict")
            elif ev["op"] == "read" and exc is None and "writers" in st and not drifted:
                w = st["writers"][ev["h"][0]]
                if w == frozenset([tuple(st["last"]["h"])]) and not eq_exact(ret, ideal[ev["h"][0]]):
                    bad.append("read-own-writes")
            if bad:
                where = "in-block" if depth > 0 else ("after-block" if in_block else "unbuffered")
                what = ("%s after %s(%s): real result %r / files %r, plain dict %r (spec predicted files %r, result %r); operations: %s"
                        % (bad, ev["op"], ev["h"], exc[0] if exc else ret, real, ideal, exp, want["exc"] or want_v, _short(out["evs"])))
                if res_json and disk_json and dev and not drifted:
                    # the real execution is exactly the specified (deviating) behaviour: known deviation, go on
                    out["dev"] = dev
                    if len(out["viol"]) < 4:
                        for d in dev:
                            out["viol"].append((SIG[d], what))
                else:
                    out["dev"] = []
                    out["viol"] = [("%s:%s:%s" % (bad[0], ev["op"], where), what)]
                    break
            if not (res_ok and disk_ok) and not drifted:
                # after a step the specification cannot explain its predictions are void, but the plain dict and the nesting
                # depth depend on the operations only: go on, judging the stated post-conditions alone
                drifted = True
                out["drift"] = ("%s(%s) %s: real result %r files %r; spec result %r files %r; operations: %s"
                                % (ev["op"], ev["h"], "key order only" if (res_json and disk_json) else "",
                                   exc[0] if exc else ret, real, want["exc"] or want_v, exp, _short(out["evs"])))
        out["final"] = sb.disk(files)
    finally:
        sb.close()
    return out


def _short(evs):
    s = []
    for e in evs:
        a = [str(e.get("h", ""))] + [repr(e[x]) for x in ("k", "k2", "v") if e.get(x) not in (None, "")]
        if e["op"] in ("enter", "lset"):
            a.append("%s%s" % (e.get("form", ""), e.get("ix", "")))
        elif e.get("form"):
            a.append(e["form"])
        s.append("%s(%s)" % (e["op"], ", ".join(x for x in a if x)))
    return "; ".join(s)


def _replay_path_job(job):
    idx, path = job
    nodes = _G["nodes"]
    root = os.path.join(_G["root"], "p%d" % idx)
    r = replay_states(root, [nodes[x] for x in path[1:]], _G["seed"], "%s%d" % (_G["slice"], idx), _G["files"])
    r["idx"] = idx
    r["final"] = None
    if not r["viol"] and not r["drift"]:
        r["evs"] = None
    return r


# ---- recorded executions -> TLC -------------------------------------------------------------------
def _record_job(job):
    tid, evs = job
    recs, raw, litter = docutil.run_recorded(os.path.join(_G["root"], "t%d" % tid), evs)
    return tid, recs, raw, litter


def validate_traces(ctx, name, traces, flags, procs=8):
    """traces: list of (meta, evs). Executes them on real signac, has TLC validate the recorded triples.
    Returns list of (meta, evs, verdict record, final files)."""
    if not traces:
        return []
    _G["root"] = ctx.mkdtemp("rec")
    done = core.pmap(_record_job, [(i, evs) for i, (_, evs) in enumerate(traces)], procs=procs)
    nchunk = min(8, procs, max(1, len(done) // 150))
    files = []
    for c in range(nchunk):
        fn = os.path.join(ctx.work, "%s_%d.ndjson" % (name, c))
        with open(fn, "w") as f:
            for tid, recs, _, _ in done[c::nchunk]:
                f.write(json.dumps({"id": tid, "ev": recs}) + "\n")
        files.append(fn)
    cfgt = tlc.cfg(_consts(flags, Files='{"j1", "j2", "j3", "p"}', JobFiles='{"j1", "j2", "j3"}', NHJob=3, NHProj=3, Ops="{}", Vals="{}", NVals="{}",
                           MapArgs="{}", Caps="{}", MaxNest=4, MaxLevel=100000),
                   init="TrInit", next="TrNext", constraints=["Track"], postcondition="Post")

    def one(fn):
        return tlc.run(TRACE_SPEC, cfg_text=cfgt, workdir=os.path.join(ctx.work, "tv_" + os.path.basename(fn)), workers=1, coverage=False,
                       env={"TRACE_FILE": fn, "TRACE_OUT": fn + ".out"}, allow_violation=False, heap="2g")
    with concurrent.futures.ThreadPoolExecutor(nchunk) as ex:
        rs = list(ex.map(one, files))
    verdict = {}
    for n, (fn, r) in enumerate(zip(files, rs)):
        ctx.add_tlc("%s: recorded triples, batch %d" % (name, n), r)
        for line in open(fn + ".out"):
            v = json.loads(line)
            verdict[v["id"]] = v
    if len(verdict) != len(traces):
        raise core.MachineryError("TLC returned %d verdicts for %d traces" % (len(verdict), len(traces)))
    return [(traces[tid][0], traces[tid][1], verdict[tid], raw, litter) for tid, _, raw, litter in done]


def judge_traces(ctx, results, source):
    """turn TLC's verdict records into counts / violations / drift"""
    stats = {"traces": 0, "triples": 0, "accepted": 0, "known": 0, "drift": 0, "viol": 0}
    for meta, evs, v, raw, litter in results:
        stats["traces"] += 1
        mis, req = v["mis"], v["req"]
        upto = mis["l"] - 1 if mis["l"] else v["done"]
        stats["triples"] += upto
        ctx.count(n=upto, traces=1)
        if v["done"] != v["len"] and not mis["l"] and evs[v["done"]]["op"] == "reinit":
            stats["truncated_at_guard"] = stats.get("truncated_at_guard", 0) + 1     # remove + init inside a block whose file is already on disk: not generated
        elif v["done"] != v["len"] and not mis["l"]:
            raise core.MachineryError("trace %r: TLC stopped after %d of %d events without a mismatch (disabled action?): %s"
                                      % (meta, v["done"], v["len"], _short(evs[:v["done"] + 1])))
        bad = v["bad"]
        if bad["l"]:
            # TLC: a post-condition of the property is false on the RECORDED observations of this step
            n = bad["l"]
            ev = evs[n - 1]
            fs = {x["f"]: x for x in bad["files"]}
            ideal = {f: wire_to_py(x["ideal"]) for f, x in fs.items() if x["ex"] or x["ideal"]["m"]}
            what = ("%s: %s after step %d %s(%s): real result %r, real files %r; plain dict %r; the step %s; operations: %s"
                    % (source, bad["which"], n, ev["op"], ev.get("h"), (raw[n - 1][0] or [None])[0] or raw[n - 1][1],
                       {f: x for f, x in raw[n - 1][2].items() if x != ABSENT}, ideal,
                       "conforms to the specification (deviations fired: %s)" % bad["dev"] if bad["conform"] else "is NOT what the specification yields",
                       _short(evs[:n])))
            if bad["conform"] and bad["dev"]:
                stats["known"] += 1
                for d in bad["dev"]:
                    _viol(ctx, SIG[d], what, {"ops": evs[:n], "source": source})
            else:
                stats["viol"] += 1
                where = "in-block" if bad["depth"] > 0 else ("after-block" if any(e["op"] == "enter" for e in evs[:n]) else "unbuffered")
                kind = bad["which"][0] + (":" + bad["exc"] if bad["which"][0] == "raises" else "")
                _viol(ctx, "%s:%s:%s" % (kind, ev["op"], where), what, {"ops": evs[:n], "source": source})
            if mis["l"] and mis["l"] < n:
                stats["drift"] += 1
                ctx.spec_drift("%s: step %d %s(%s) is not what the specification yields (no stated post-condition false at that step); operations: %s"
                               % (source, mis["l"], evs[mis["l"] - 1]["op"], evs[mis["l"] - 1].get("h"), _short(evs[:mis["l"]])))
            continue
        if req["l"] and (not mis["l"] or req["l"] < mis["l"]):
            # the real execution IS the spec behaviour up to here, and that behaviour breaks a requirement (on a hypothetical read)
            fs = {x["f"]: x for x in req["files"]}
            what = ("%s: requirement %s false after step %d of the real execution (it conforms to the specification, deviations fired: %s); "
                    "files %s, plain dict %s; operations: %s"
                    % (source, req["which"], req["l"], req["dev"],
                       {f: wire_to_py(x["v"]) if x["ex"] else ABSENT for f, x in fs.items() if x["ex"] or x["ideal"]["m"]},
                       {f: wire_to_py(x["ideal"]) for f, x in fs.items() if x["ex"] or x["ideal"]["m"]}, _short(evs[:req["l"]])))
            if req["dev"]:
                stats["known"] += 1
                for d in req["dev"]:
                    _viol(ctx, SIG[d], what, {"ops": evs[:req["l"]], "source": source})
            else:
                stats["viol"] += 1
                _viol(ctx, "requirement:%s:%s" % ("+".join(req["which"]), evs[req["l"] - 1]["op"]), what, {"ops": evs[:req["l"]], "source": source})
            continue
        if not mis["l"]:
            stats["accepted"] += 1
            continue
        # a step the specification cannot explain, but no stated post-condition is false anywhere in the run: drift
        n = mis["l"]
        ev = evs[n - 1]
        fs = {x["f"]: x for x in mis["files"]}
        spec_disk = {f: wire_to_py(x["v"]) if x["ex"] else ABSENT for f, x in fs.items() if x["ex"]}
        stats["drift"] += 1
        ctx.spec_drift(("key order only: " if mis["resjson"] and mis["postjson"] else "") +
                       "%s: step %d %s(%s): real result %r files %r; spec result %r files %r; operations: %s"
                       % (source, n, ev["op"], ev.get("h"), (raw[n - 1][0] or [None])[0] or raw[n - 1][1], {f: x for f, x in raw[n - 1][2].items() if x != ABSENT},
                          mis["res"]["exc"] or wire_to_py(mis["res"]["v"]), spec_disk, _short(evs[:n])))
    return stats


# ---- variants of a TLC behaviour: the same operations without blocks / fully inside blocks -------
def variants(evs):
    core_ops = [dict(e) for e in evs if e["op"] not in BUFOPS]
    un = [dict(e, op="remove") if e["op"] == "reinit" else e for e in core_ops]    # outside blocks: remove; the next access re-initialises
    full, open_ = [], False
    for e in core_ops:
        if e["op"] in LIFE:
            if open_:
                full.append({"op": "exit"})
                open_ = False
            full.append(e)
        else:
            if not open_:
                full.append({"op": "enter", "form": "", "ix": 0})
                open_ = True
            full.append(e)
    if open_:
        full.append({"op": "exit"})
    depth = sum(1 if e["op"] == "enter" else -1 if e["op"] == "exit" else 0 for e in evs)
    closed = [dict(e) for e in evs] + [{"op": "exit"}] * depth
    return un, full, closed


# ---- slices of the bounded model ----------------------------------------------------------------
def slices(quick):
    J1 = dict(Files='{"j1"}', JobFiles='{"j1"}')
    J1P = dict(Files='{"j1", "p"}', JobFiles='{"j1"}')
    ALL = dict(Files='{"j1", "j2", "p"}', JobFiles='{"j1", "j2"}')
    s = [
        ("dict", dict(J1, NHJob=2, Ops="<- OpsDict", Vals="<- VTypes", NVals="<- NVTypes", MapArgs="<- MapsSmall", MaxLevel=3 if quick else 4), 0.06 if quick else 0.03),
        ("struct", dict(J1, NHJob=1, Ops='{"set", "nset", "append", "lset", "get", "read"}', Vals="<- VStruct", NVals="<- NVTypes",
                        MapArgs="<- MapsSmall", MaxLevel=4 if quick else 5), 0.03),
        ("buffer", dict(J1P, NHJob=2, NHProj=1, Ops="<- OpsBuf", Vals="<- VOne", NVals="<- VOne", MapArgs="<- MapsSmall", Caps="<- CapsAll",
                        MaxLevel=4 if quick else 5), 0.08 if quick else 0.04),
        ("twoh", dict(J1, NHJob=2, Ops='{"set", "read", "buffer"}', Vals="<- VOne" if quick else "<- VTwo", NVals="<- VOne", MapArgs="<- MapsSmall",
                      Caps="<- CapsNoneOnly" if quick else "<- CapsTwo", MaxLevel=6), 0.3 if quick else 0.05),
        ("none", dict(J1, NHJob=2, Ops='{"set", "reset", "update", "read", "clear", "buffer"}', Vals="<- VNone", NVals="<- VOne", MapArgs="<- MapsNone",
                      Caps="<- CapsNoneOnly", MaxLevel=4 if quick else 5), 0.08 if quick else 0.04),
        ("life", dict(J1, NHJob=2, Ops="<- OpsLife", Vals="<- VOne", NVals="<- VOne", MapArgs="<- MapsSmall", Caps="<- CapsZero",
                      MaxLevel=5 if quick else 6), 0.08 if quick else 0.04),
    ]
    s.append(("fp", dict(J1P, NHJob=1, NHProj=1, Ops='{"set", "read", "buffer"}', Vals="<- VHard2" if quick else "<- VHard4", NVals="<- VOne",
                         MapArgs="<- MapsSmall", Caps="<- CapsNoneOnly", MaxNest=1, MaxLevel=5), 0.05))
    if not quick:
        s.append(("full", dict(ALL, NHJob=2, NHProj=2, Ops="<- OpsAll", Vals="<- VStruct", NVals="<- NVTypes", MapArgs="<- MapsSmall",
                               Caps="<- CapsTwo", MaxLevel=3), 0.03))
    return s


def graph_slice(ctx, name, consts, flags, frac, rnd, procs):
    """dump the state graph of one slice, cover every edge, replay; returns traces for the variant runs"""
    dump = os.path.join(ctx.work, "g_%s" % name)
    cfgt = tlc.cfg(_consts(flags, **consts), invariants=MECH, constraints=["LevelBound"], view="GraphView")
    r = tlc.run(SPEC, cfg_text=cfgt, workdir=os.path.join(ctx.work, "mc_" + name), workers=1, coverage=False, dump=dump, allow_violation=False, extra=["-fp", "0"])
    docutil.WANT = ("disk", "ideal", "depth", "dev", "last", "writers")
    nodes, edges, init = docutil.load_graph(dump + ".dot", procs=procs)
    os.remove(dump + ".dot")
    ops, excs = {}, {}
    for u, v in edges:
        o = nodes.op(v)
        ops[o] = ops.get(o, 0) + 1
        x = nodes.exc(v)
        if x:
            excs[x] = excs.get(x, 0) + 1
    r.actions = {o: (n, n) for o, n in ops.items()}      # action coverage read off TLC's exported graph
    ctx.add_tlc("slice %s: state graph (level <= %s)" % (name, consts["MaxLevel"]), r)
    paths, nedges = docutil.edge_cover(nodes, edges, init)
    files = sorted(nodes[init]["disk"])
    _G.update(nodes=nodes, root=ctx.mkdtemp("rp_" + name), seed=ctx.seed, slice=name, files=files)
    reps = core.pmap(_replay_path_job, list(enumerate(paths)), procs=procs)
    st = {"slice": name, "states": len(nodes), "edges": nedges, "paths": len(paths), "steps": 0, "known": 0, "viol": 0, "drift": 0, "ops": ops, "failing_edges": excs}
    for rep in reps:
        st["steps"] += rep["steps"]
        path = paths[rep["idx"]]
        for a, b in zip(path, path[1:][:rep["steps"]]):
            ctx.count(key="%s/%s/%s" % (name, a, b), n=1)
        ctx.count(n=0, traces=1)
        if rep["viol"]:
            if rep["dev"]:
                st["known"] += 1
            else:
                st["viol"] += 1
            for sig, what in rep["viol"][:2]:
                _viol(ctx, sig, what, {"ops": rep["evs"], "source": "edge replay, slice " + name})
        if rep["drift"]:
            st["drift"] += 1
            ctx.spec_drift("slice %s: %s" % (name, rep["drift"]))
    # variants (deduplicated by operation sequence; a seeded sample of them)
    seen, out = set(), []
    for i, path in enumerate(paths):
        evs = [last_to_ev(nodes[x]["last"]) for x in path[1:]]
        for n, e in enumerate(evs):
            e["sp"] = _spell(ctx.seed, "v%s%d" % (name, i), n)
        un, full, closed = variants(evs)
        for kind, v in (("unbuffered", un), ("buffered", full), ("closed", closed)):
            if kind == "closed" and len(closed) == len(evs):
                continue
            key = json.dumps([[e["op"], e.get("h"), e.get("k"), e.get("k2"), e.get("ix"), e.get("form"), e.get("v")] for e in v], sort_keys=True, default=str)
            if key in seen or not v:
                continue
            seen.add(key)
            if rnd.random() < frac:
                out.append(({"slice": name, "kind": kind, "path": i}, v))
    if len(paths) > 2:
        p = paths[len(paths) // 2]
        ctx.sample({"slice": name, "operations": _short([last_to_ev(nodes[x]["last"]) for x in p[1:]]),
                    "expected_files_from_TLC": {f: (spec_to_py(x["v"]) if x["ex"] else ABSENT) for f, x in nodes[p[-1]]["disk"].items()},
                    "expected_result_from_TLC": nodes[p[-1]]["last"]["res"]["exc"] or spec_to_py(nodes[p[-1]]["last"]["res"]["v"])})
    _G.pop("nodes", None)
    return st, out


# ---- repository's own document tests, as operation scripts ---------------------------------------
def repo_scripts():
    """the operation sequences of tests/test_job.py::TestJobDocument and tests/test_buffered_mode.py (document part),
    transcribed as specification operations (their assertions are replaced by TLC's validation)"""
    A, B, P = ("j1", 1), ("j1", 2), ("p", 1)
    E, EC, X = {"op": "enter", "form": "", "ix": 0}, {"op": "enter", "form": "cap", "ix": 12}, {"op": "exit"}
    def S(h, k, v): return {"op": "set", "h": h, "k": k, "v": v}
    def R(h): return {"op": "read", "h": h}
    def G(h, k, f="item"): return {"op": "get", "h": h, "k": k, "form": f}
    return {
        "get_set": [G(A, "a", "in"), S(A, "a", "x1"), G(A, "a"), G(B, "a"), R(A), R(B)],
        "del": [S(A, "a", "v0"), S(A, "b", "v1"), {"op": "del", "h": A, "k": "a"}, G(A, "a", "in"), G(B, "b"), R(B)],
        "get_set_doc_attr": [S(A, "a", 0), {"op": "set", "h": A, "k": "b", "v": {"c": 1}, "sp": 2}, G(A, "b", "attr"),
                             {"op": "nset", "h": A, "k": "b", "k2": "c", "form": "attr", "v": 2}, R(B)],
        "get_set_nested": [S(A, "a", {"b": 5}), G(A, "a"), {"op": "nset", "h": A, "k": "a", "k2": "b", "form": "item", "v": 6}, R(A), R(B),
                           {"op": "nset", "h": A, "k": "a", "k2": "c", "form": "attr", "v": [1, 2]}, R(B)],
        "update_clear": [{"op": "update", "h": A, "v": {"a": "x", "b": {"c": 1}}}, R(B), {"op": "clear", "h": A}, R(A), R(B), G(A, "a", "in")],
        "reassign": [S(A, "a", 1), {"op": "reset", "h": A, "v": {"b": 2}}, R(A), R(B), {"op": "reset", "h": A, "v": {}, "sp": 1}, R(B)],
        "clear_document": [S(A, "a", 1), {"op": "clear", "h": A}, R(A), {"op": "clear", "h": A}, R(B)],
        "reset_list": [S(A, "a", [1, 2]), {"op": "append", "h": A, "k": "a", "v": 3}, {"op": "lset", "h": A, "k": "a", "ix": 0, "v": {"x": None}}, R(B)],
        "remove_reinit": [S(A, "a", 1), {"op": "remove", "h": A}, R(A), S(A, "b", 2), R(B)],
        "remove_reinit_inside_block": [E, S(("j2", 1), "n", 0), S(A, "x", 1), {"op": "reinit", "h": A}, R(A), S(A, "y", 2), R(A), X, R(B), R(("j2", 2))],
        "remove_reinit_inside_block_reset": [S(("j2", 1), "n", 0), E, {"op": "reset", "h": A, "v": {"x": [1]}}, {"op": "reinit", "h": A}, R(A), X, R(A),
                                             E, S(A, "y", 2), {"op": "reinit", "h": A}, X, R(B)],
        "job_clear_other_handle": [S(B, "energy", -1.5), {"op": "setdefault", "h": B, "k": "steps", "v": []}, {"op": "append", "h": B, "k": "steps", "v": 100},
                                   R(A), {"op": "jclear", "h": A}, R(A), R(B), S(B, "restarted", True), R(A), R(B),
                                   S(B, "note", "x"), {"op": "jreset", "h": A}, {"op": "update", "h": B, "v": {"k": 1}}, R(A), R(B)],
        "job_clear_inside_block": [E, S(A, "first", 1), {"op": "jclear", "h": A}, R(A), S(A, "second", 2), X, R(A), R(B)],
        "rekey_doc_follows": [S(A, "a", 1), {"op": "rekey", "h": A}, R(A), S(A, "b", 2), R(B)],
        "project_doc": [S(P, "a", 42), R(("p", 2)), {"op": "reset", "h": P, "v": {"b": [1]}}, R(("p", 2)), S(A, "a", 1), R(P)],
        "buffered_basic_and_nested": [S(A, "a", 0), E, S(A, "a", 1), G(A, "a"), X, G(A, "a"), E, S(A, "a", 2), E, S(A, "a", 3), G(A, "a"), X,
                                      G(A, "a"), X, G(A, "a"), R(B)],
        "buffered_capacity": [EC, S(A, "a", "0123456789"), R(A), X, EC, S(A, "a", 1), E, S(A, "b", 2), X, R(A), X, R(B)],
        "buffered_integration": [S(A, "a", True), E, G(A, "a"), S(A, "a", False), G(A, "a"), G(B, "a"), X, G(A, "a"), G(B, "a"),
                                 S(A, "a", True), E, G(A, "a"), S(A, "a", False), S(B, "a", True), G(A, "a"), G(B, "a"), X, G(A, "a"), G(B, "a"),
                                 E, S(A, "a", False), S(B, "a", True), G(A, "a"), S(A, "a", False), G(B, "a"), X, R(A), R(B)],
        "buffered_two_jobs_and_project": [E, S(A, "a", 1), S(("j2", 1), "a", 2), S(P, "x", [1]), R(A), R(("j2", 1)), R(P), X, R(B), R(("j2", 2)), R(("p", 2))],
    }


# ---- main ------------------------------------------------------------------------------------------
def run(ctx):
    procs = 16
    rnd = random.Random(ctx.seed)
    ctx.assumptions += [
        "TLC, the TLA+ value parser and the Json community module",
        "Python's == between ints, floats and bools enters the spec as the textual rule NumKey (a float printed as '<int>.0' equals that integer); "
        "value generators never produce an exponent-form float equal to a generated integer",
        "float repr / big-integer text are atoms; the byte length of json.dumps(ensure_ascii) is specified (JsonLen)",
        "no out-of-band writers: the metadata check of a flush cannot fire (TLC: EntriesFresh); removing / re-keying a job inside a buffered "
        "block is documented as unsupported and not generated; handles made stale by another handle's remove / re-key are re-opened (C03/C04)",
        "child objects (doc['n']) are not held across operations",
    ]
    flags = probe(ctx)
    import signac
    ctx.cov["signac_under_test"] = os.path.dirname(signac.__file__)
    ctx.cov["deviation_flags"] = dict(flags)
    ctx.cov["calibrated_rules"] = {"R1 pop(k) of an absent key returns None instead of raising KeyError (state unaffected)": flags["PopAbsentNone"],
                                   "a document file that was never written equals the empty document": True}
    fixed = dict(flags, FixedD1=True, FixedD2=True, FixedD3=True, FixedD4=True)
    summary = {}

    # 1. the requirements hold on the model of a repaired dependency (bounded proof)
    proofs = [("ops, 1 file, 2 handles", dict(Ops="<- OpsDict", Vals="<- VTypes", NVals="<- NVTypes", MapArgs="<- MapsSmall",
                                              MaxLevel=4 if ctx.quick else 5)),
              ("buffering, 2 jobs + project, 2 handles each", dict(Files='{"j1", "j2", "p"}', JobFiles='{"j1", "j2"}', NHJob=2, NHProj=2, Ops="<- OpsBuf",
                                                                   Vals="<- VOne", MapArgs="<- MapsSmall",
                                                                   Caps="<- CapsTwo", MaxLevel=4 if ctx.quick else 5)),
              ("buffering + life cycle, 1 job, 2 handles", dict(Ops="<- OpsLife", Vals="<- VOne" if ctx.quick else "<- VTwo", Caps="<- CapsAll",
                                                                MaxLevel=5 if ctx.quick else 6))]
    if not ctx.quick:
        proofs.append(("ops over the full value alphabet (1 / 1.0 / true / list / mapping), 1 file, 2 handles, <= 3 actions",
                       dict(Ops="<- OpsDict", Vals="<- VAll", NVals="<- NVTypes", MapArgs="<- MapsTypes", MaxLevel=4)))
        proofs.append(("buffering with capacities {none, 0, 1, 10}, 2 jobs + project, 2 handles each, <= 3 actions",
                       dict(Files='{"j1", "j2", "p"}', JobFiles='{"j1", "j2"}', NHJob=2, NHProj=2, Ops="<- OpsBuf", Vals="<- VTwo", MapArgs="<- MapsSmall",
                            Caps="<- CapsAll", MaxLevel=4)))
        proofs.append(("every operation, 2 jobs + project, 2 handles each, <= 3 actions",
                       dict(Files='{"j1", "j2", "p"}', JobFiles='{"j1", "j2"}', NHJob=2, NHProj=2, Ops="<- OpsAll", Vals="<- VOne", NVals="<- VOne",
                            MapArgs="<- MapsSmall", Caps="<- CapsTwo", MaxLevel=4)))
    for name, c in proofs:
        cfgt = tlc.cfg(_consts(fixed, **c), invariants=MECH + REQS + ["NoDeviation"], properties=["BufferTransparent"], constraints=["LevelBound"], view="ProofView")
        r = tlc.run(SPEC, cfg_text=cfgt, workdir=os.path.join(ctx.work, "proof"), workers=procs, coverage=False, allow_violation=False)
        ctx.add_tlc("requirements on the repaired model: " + name, r)

    # 2. with each deviation the real code shows: TLC's counterexample, replayed on the real code
    cex = {"D1": dict(Ops='{"set", "read", "buffer"}', Vals="<- VOne", Caps="<- CapsTwo", MaxLevel=7),
           "D2": dict(Ops="<- OpsDict", Vals="<- VTypes", MaxLevel=4),
           "D4": dict(Files='{"p"}', JobFiles="{}", NHProj=2, Ops='{"set", "clear", "read", "buffer"}', Vals="<- VOne", Caps="<- CapsTwo", MaxLevel=6),
           "D3": dict(Ops='{"set", "reset", "update", "read"}', Vals="<- VNone", MapArgs="<- MapsNone", MaxLevel=4)}
    for d, c in cex.items():
        if flags["Fixed" + d]:
            continue
        fl = dict(fixed)
        fl["Fixed" + d] = False
        for inv in ("Faithful", "ReadOwnWritesObs" if d == "D1" else "OtherHandleSeesObs"):
            cfgt = tlc.cfg(_consts(fl, **c), invariants=[inv], constraints=["LevelBound"])
            r = tlc.run(SPEC, cfg_text=cfgt, workdir=os.path.join(ctx.work, "cex"), workers=1, coverage=False, allow_violation=True)
            ctx.add_tlc("deviation %s as the code: %s" % (d, inv), r)
            if r.violation is None:
                continue
            states = [s for _, s in r.violation["trace"]][1:]
            rep = replay_states(os.path.join(ctx.mkdtemp("cex"), "x"), states, ctx.seed, "cex" + d + inv, sorted(states[0]["disk"]))
            ctx.count(key="cex/%s/%s" % (d, inv), n=rep["steps"], traces=1)
            sigs = [s for s, _ in rep["viol"]]
            summary.setdefault("counterexamples", []).append({"deviation": d, "requirement": inv, "steps": len(states), "reproduced": SIG[d] in sigs,
                                                               "operations": _short(rep["evs"])})
            if SIG[d] not in sigs and not rep["viol"]:
                if rep["drift"]:
                    ctx.spec_drift("counterexample to %s under %s: %s" % (inv, d, rep["drift"]))
                    continue
                raise core.MachineryError("TLC's counterexample to %s under deviation %s is not reproduced by the real code: the specification "
                                          "is wrong (%s)" % (inv, d, _short(rep["evs"])))
            for sig, what in rep["viol"]:
                _viol(ctx, sig, "replay of TLC's counterexample to %s on the real code: %s" % (inv, what), {"ops": rep["evs"], "source": "counterexample"})
            ctx.sample({"tlc_counterexample_to": inv, "deviation": d, "operations": _short(rep["evs"]), "reproduced_on_real_code": SIG[d] in sigs})

    # 3. spec -> code: edge cover of every slice
    vts = []
    summary["slices"] = []
    for name, consts, frac in slices(ctx.quick):
        st, vt = graph_slice(ctx, name, consts, flags, frac, rnd, procs)
        summary["slices"].append(st)
        vts += vt
    need = {"set", "del", "update", "setdefault", "pop", "clear", "reset", "nset", "append", "lset", "read", "get", "enter", "exit", "remove", "rekey", "reinit", "jclear", "jreset", "setbad"}
    seen_ops = set()
    for st in summary["slices"]:
        seen_ops |= {o for o, n in st["ops"].items() if n}
    if need - seen_ops:
        raise core.MachineryError("vacuous: operations never taken in any slice: %s" % sorted(need - seen_ops))
    seen_exc = set()
    for st in summary["slices"]:
        seen_exc |= set(st["failing_edges"])
    if set(docutil.KNOWN_EXC) - seen_exc:
        raise core.MachineryError("vacuous: failing branches never taken in any slice: %s" % sorted(set(docutil.KNOWN_EXC) - seen_exc))

    # 4. code -> spec: variants of the TLC behaviours, the repository's test scripts, random long executions
    res = validate_traces(ctx, "variants", vts, flags, procs)
    summary["variants"] = judge_traces(ctx, res, "variant of a TLC behaviour")
    _three_way(ctx, res, summary)
    scripts = repo_scripts()
    tr = []
    for nm, evs in scripts.items():
        for kind, v in zip(("as written", "unbuffered", "buffered"), (evs,) + variants(evs)[:2]):
            tr.append(({"script": nm, "kind": kind}, [dict(e, form=e.get("form", "")) for e in v]))
    summary["repo_scripts"] = judge_traces(ctx, validate_traces(ctx, "scripts", tr, flags, procs), "repository test script")
    # edits inside a block whose serialised text is hard for weak fingerprints (the flush decides by a fingerprint whether to write)
    tr = []
    for n, (label, before, after) in enumerate(docutil.hard_pairs(rnd, 36 if ctx.quick else 120)):
        for f in ("j1", "p"):
            tr.append(({"hard_pair": label, "file": f, "before": before, "after": after}, docutil.hard_pair_ops(f, before, after, n % 2)))
    summary["fingerprint_hard_edits"] = judge_traces(ctx, validate_traces(ctx, "hardpairs", tr, flags, procs), "fingerprint-hard buffered edit")
    ntr = 300 if ctx.quick else 4000
    tr = []
    for i in range(ntr):
        nj, nh = rnd.randrange(1, 4), rnd.randrange(1, 4)
        evs = docutil.rand_ops(rnd, 40, nj, nh)
        tr.append(({"random": i, "jobs": nj, "handles": nh}, evs))
        if i % 4 == 0:
            un, full, _ = variants(evs)
            tr.append(({"random": i, "kind": "unbuffered"}, un))
            tr.append(({"random": i, "kind": "buffered"}, full))
    res = validate_traces(ctx, "random", tr, flags, procs)
    summary["random"] = judge_traces(ctx, res, "random execution")
    ctx.sample({"random_execution": _short(tr[0][1][:12]) + " ...", "verdict_from_TLC": {k: res[0][2][k] for k in ("len", "done")}})

    # 5. thorough: long simulated behaviours of the larger model, replayed step by step
    if not ctx.quick:
        summary["simulate"] = simulate(ctx, flags, procs, num=12)   # behaviours per TLC worker

    # 6. binding self-test: a corrupted expectation and a dropped step must be noticed
    ctx.cov["binding_selftest"] = selftest(ctx, flags)
    ctx.cov["summary"] = summary
    ctx.cov["rule"] = ("case = one edge (abstract pre-state, operation with arguments, handle) of TLC's exported state graph of a slice, executed on real "
                       "signac from the initial state; distinct = distinct (slice, source state, destination state); every edge of every slice is executed "
                       "at least once; plus recorded triples (variants without / fully inside blocks, repository scripts, seeded random 40-step executions "
                       "over deep values) validated by TLC")
    ctx.cov["exhaustive"] = "per slice, up to the stated level"


def _three_way(ctx, res, summary):
    """direct real-vs-real comparison: the files left by the unbuffered and by the fully buffered run of the same operations"""
    by = {}
    for meta, evs, v, raw, litter in res:
        by.setdefault((meta["slice"], meta["path"]), {})[meta["kind"]] = (raw[-1][2], evs, v)
    n = bad = 0
    for key, d in by.items():
        if "unbuffered" in d and "buffered" in d:
            n += 1
            fu, fb = d["unbuffered"][0], d["buffered"][0]
            if any(not eq_exact(_json_or_empty(fu[f]), _json_or_empty(fb[f])) for f in fu):
                bad += 1
                devs = set(d["buffered"][2]["req"].get("dev", [])) | set(d["unbuffered"][2]["req"].get("dev", []))
                what = "unbuffered run leaves %r, fully buffered run leaves %r; operations: %s" % (fu, fb, _short(d["unbuffered"][1]))
                if devs:
                    for x in devs:
                        _viol(ctx, SIG[x], what, {"ops": d["buffered"][1], "source": "three-way"})
                else:
                    _viol(ctx, "buffered-vs-unbuffered:files-differ:%s" % d["unbuffered"][1][-1]["op"], what, {"ops": d["buffered"][1], "source": "three-way"})
    summary["three_way_pairs"] = {"compared": n, "different": bad}


def _sim_job(job):
    idx, fn = job
    from .. import tlaparse
    states = [s for _, s in tlaparse.parse_sim_file(fn)][1:]
    if not states:
        return {"idx": idx, "steps": 0, "viol": [], "drift": None, "evs": [], "dev": []}
    r = replay_states(os.path.join(_G["root"], "s%d" % idx), states, _G["seed"], "sim%d" % idx, sorted(states[0]["disk"]))
    r["idx"] = idx
    return r


def simulate(ctx, flags, procs, num):
    d = ctx.mkdtemp("sim")
    cfgt = tlc.cfg(_consts(flags, Files='{"j1", "j2", "j3", "p"}', JobFiles='{"j1", "j2", "j3"}', NHJob=3, NHProj=2, Ops="<- OpsAll", Vals="<- VAll", NVals="<- VAll",
                           MapArgs="<- MapsTypes", Caps="<- CapsAll", MaxNest=3, MaxLevel=1000))
    r = tlc.run(SPEC, cfg_text=cfgt, workdir=os.path.join(ctx.work, "simrun"), workers=procs, coverage=False, simulate="file=%s/b,num=%d" % (d, num), depth=40,
                seed=ctx.seed % 10 ** 6, allow_violation=False)
    ctx.add_tlc("simulate: 3 jobs + project, 3 handles, depth 40", r)
    files = sorted(os.path.join(d, f) for f in os.listdir(d))
    _G.update(root=ctx.mkdtemp("simrp"), seed=ctx.seed)
    st = {"behaviours": len(files), "steps": 0, "known": 0, "viol": 0, "drift": 0}
    for rep in core.pmap(_sim_job, list(enumerate(files)), procs=procs):
        st["steps"] += rep["steps"]
        ctx.count(key="sim/%d" % rep["idx"], n=rep["steps"], traces=1)
        if rep["viol"]:
            st["known" if rep["dev"] else "viol"] += 1
            for sig, what in rep["viol"][:2]:
                _viol(ctx, sig, what, {"ops": rep["evs"], "source": "simulated behaviour"})
        elif rep["drift"]:
            st["drift"] += 1
            ctx.spec_drift("simulate: " + rep["drift"])
    return st


def selftest(ctx, flags):
    """(a) corrupt one recorded file value, (b) drop one recorded step: TLC must reject both; (c) the untouched trace is accepted"""
    A = ("j1", 1)
    evs = [{"op": "set", "h": A, "k": "a", "v": [1, {"x": 1.5}], "form": ""}, {"op": "enter", "form": "", "ix": 0}, {"op": "set", "h": A, "k": "b", "v": "é", "form": ""},
           {"op": "read", "h": A, "form": ""}, {"op": "exit"}, {"op": "read", "h": ("j1", 2), "form": ""}]
    recs, _, _ = docutil.run_recorded(os.path.join(ctx.mkdtemp("self"), "x"), evs)
    good = json.loads(json.dumps(recs))
    corrupt = json.loads(json.dumps(recs))
    try:
        corrupt[4]["post"][0]["v"]["m"][0][1]["l"][0]["n"] = 2      # the file after exit: [2, ...] instead of [1, ...]
    except (IndexError, KeyError):
        pass                                                      # the tree under test did not write the file as specified
    dropped = json.loads(json.dumps(recs))
    del dropped[2]                                                # the buffered set is missing from the record
    fn = os.path.join(ctx.work, "selftest.ndjson")
    with open(fn, "w") as f:
        for i, t in enumerate((good, corrupt, dropped)):
            f.write(json.dumps({"id": i, "ev": t}) + "\n")
    cfgt = tlc.cfg(_consts(flags, Files='{"j1", "j2", "j3", "p"}', JobFiles='{"j1", "j2", "j3"}', NHJob=3, NHProj=3, Ops="{}", Vals="{}", NVals="{}",
                           MapArgs="{}", Caps="{}", MaxNest=4, MaxLevel=100000),
                   init="TrInit", next="TrNext", constraints=["Track"], postcondition="Post")
    r = tlc.run(TRACE_SPEC, cfg_text=cfgt, workdir=os.path.join(ctx.work, "tv_self"), workers=1, coverage=False,
                env={"TRACE_FILE": fn, "TRACE_OUT": fn + ".out"}, allow_violation=False)
    ctx.add_tlc("binding self-test", r)
    v = {json.loads(l)["id"]: json.loads(l) for l in open(fn + ".out")}
    out = {"untouched_trace_accepted": v[0]["mis"]["l"] == 0 and v[0]["done"] == len(evs),
           "corrupted_file_value_rejected_at_step": v[1]["mis"]["l"], "dropped_step_rejected_at_step": v[2]["mis"]["l"]}
    if not out["untouched_trace_accepted"]:
        # the tree under test does not even run the self-test script as specified (reported elsewhere as violation / drift)
        out["note"] = "self-test script itself not accepted on this tree; binding shown only by the rejections reported for this run"
    elif not (v[1]["mis"]["l"] == 5 and v[2]["mis"]["l"] >= 3):
        raise core.MachineryError("binding self-test failed: %r" % out)
    return out


def replay(ctx, data):
    """re-run one violation's operations on the real code, print every step, and let TLC judge the recorded run again"""
    evs = []
    for ev in data["ops"]:
        ev = dict(ev)
        if ev.get("h"):
            ev["h"] = tuple(ev["h"])
        ev.setdefault("form", "")
        evs.append(ev)
    sb = Sandbox(os.path.join(ctx.mkdtemp("replay"), "x"))
    try:
        for ev in evs:
            exc, ret = sb.apply(ev)
            print("%-70s -> %r   files: %r" % (_short([ev]), exc[0] if exc else ret,
                                              {f: x for f, x in sb.disk(docutil.TRACE_FILES).items() if x != ABSENT}))
    finally:
        sb.close()
    print("source:", data.get("source"))
    flags = probe(ctx)
    print("deviation flags probed on this tree:", flags)
    st = judge_traces(ctx, validate_traces(ctx, "replay", [({"replay": True}, evs)], flags, 1), "replay")
    for v in ctx.violations:
        print("VIOLATION", v.signature)
        print("  " + v.what)
    for d in ctx.drift:
        print("SPEC-DRIFT", d)
    print(st)
    return 1 if ctx.violations else 0

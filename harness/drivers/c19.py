"""C19 - discovery resolves to the nearest enclosing project; init_project is idempotent.

spec -> code : TLC enumerates directory trees (spec/discovery/Discovery.tla: full-branching trees of small depth,
               every spine to depth 5 with a side branch and a symlink with every target, random wide trees),
               checks Nearest / Determinism / ExactOnly / JobInnermost / MissingRaises / InitIdempotent on the
               specification and exports, per tree, every query with the expected answers.  Each tree is
               materialised (real directories, .signac/config by hand or by init_project, symlinks), the real
               get_project / get_project(search=False) / Project / get_job are called with absolute paths, with
               another spelling, and relative to several working directories, and compared; init_project is
               called on existing projects (byte snapshot around it) and on non-projects (then twice).
code -> spec : a binding self-test corrupts expected values / drops a config file and requires detection.
"""
import json
import os
import random
import re

from .. import core, tlc
from .. import discoveryutil as du

INVARIANTS = ["TypeOK", "Nearest", "Determinism", "ExactOnly", "JobInnermost", "MissingRaises", "InitFindsIt", "RemoveUndoesInit", "CliNearest", "CliInitHere"]
PROPS = ["InitIdempotent", "SecondInitNoop"]
_G = {}  # set before forking


def _qclass(tree_paths, case):
    if not case["exists"]:
        return "missing-path"
    if case["phys"] != case["q"]:
        return "via-symlink"
    return "plain"


def _shape(kinds, case):
    q = case["q"]
    chain = [kinds.get(tuple(q[:i]), "?") for i in range(len(q) + 1)]
    return "/".join(chain) + ("" if case["exists"] else "!")


def _strip(base, x):
    """make answers independent of the sandbox location"""
    if isinstance(x, str):
        return "$ROOT" + x[len(base):] if x == base or x.startswith(base + os.sep) else x
    if isinstance(x, (list, tuple)):
        return [_strip(base, y) for y in x]
    return x


_FNS = (("get_project", lambda p: __import__("signac").get_project(p), "gp"),
        ("get_project(search=False)", lambda p: __import__("signac").get_project(p, search=False), "gpx"),
        ("Project", lambda p: __import__("signac").Project(p), "open"),
        ("get_job", lambda p: __import__("signac").get_job(p), "job"))


def _undo_added(base, added):
    for rp in sorted(added, reverse=True):
        fp = os.path.join(base, rp)
        try:
            os.rmdir(fp) if rp.endswith("/") else os.remove(fp)
        except OSError:
            pass


def _stash_project(base, path, stash):
    """remove a project by hand: move .signac/ and the (empty) workspace/ out of the sandbox; returns the undo list"""
    moved = []
    os.makedirs(stash, exist_ok=True)
    for name in (".signac", "workspace"):
        src = os.path.join(du.ap(base, path), name)
        if os.path.lexists(src):
            dst = os.path.join(stash, "%d-%s" % (len(os.listdir(stash)), name))
            os.rename(src, dst)
            moved.append((dst, src))
    return moved


def _unstash(moved):
    for dst, src in reversed(moved):
        os.rename(dst, src)


def _check_tree(rec, base, seed, out, expected_override=None, skip_config_of=None, limit_queries=None):
    """materialise one tree, run all its cases; append findings to out (list of dicts). Returns counters."""
    import signac
    nodes = rec["nodes"]
    kinds = {tuple(n["p"]): n["k"] for n in nodes}
    use_api = True
    try:
        info = du.materialise(nodes, base, seed, skip_config_of=skip_config_of, use_api=use_api)
        seen = du.disk_nodes(base)
    except Exception as e:  # noqa - init_project itself failed while building the tree
        seen = {"error": repr(e)}
    if skip_config_of is None and seen != kinds:
        # init_project (used for a third of the projects) did not produce the tree: build everything by hand instead
        out.append({"kind": "drift-create", "fn": "init_project", "spelling": "materialise", "q": [], "qclass": "", "got": sorted(map(str, seen.items())),
                    "exp": sorted(map(str, kinds.items())), "nodes": nodes, "seed": seed, "extra": None, "shape": ""})
        du.rmtree(base)
        use_api = False
        info = du.materialise(nodes, base, seed, use_api=False)
        seen = du.disk_nodes(base)
        if seen != kinds:
            raise core.MachineryError("materialised tree differs from the spec tree: %r vs %r" % (sorted(seen.items()), sorted(kinds.items())))
    rnd = random.Random(seed)
    phys_dirs = [n["p"] for n in nodes if n["k"] != "link"]
    by_q = {tuple(c["q"]): c for c in rec["cases"]}
    n_eval = 0
    shapes = {}
    snap0 = du.snapshot(base)

    def report(kind, fn, spelling, case, got, exp, extra=None):
        out.append({"kind": kind, "fn": fn, "spelling": spelling, "q": case["q"], "qclass": _qclass(kinds, case),
                    "got": _strip(base, got), "exp": _strip(base, exp), "nodes": nodes, "seed": seed, "extra": extra,
                    "shape": _shape(kinds, case), "use_api": use_api})

    cases = rec["cases"] if limit_queries is None else rec["cases"][:limit_queries]
    for case in cases:
        if expected_override:
            case = expected_override(case)
        q = case["q"]
        absq = du.ap(base, q)
        shapes[_shape(kinds, case)] = shapes.get(_shape(kinds, case), 0) + 1
        fns = [("get_project", lambda p: signac.get_project(p), du.want(base, case["gp"])),
               ("get_project(search=False)", lambda p: signac.get_project(p, search=False), du.want(base, case["gpx"])),
               ("Project", lambda p: signac.Project(p), du.want(base, case["open"])),
               ("get_job", lambda p: signac.get_job(p), du.want(base, case["job"], True))]
        # --- absolute path, and a second absolute spelling (redundant separators / dot components)
        alt = os.path.join(os.path.dirname(absq), ".", os.path.basename(absq)) + os.sep if q else absq + os.sep + "."
        bad_abs = set()
        for name, f, exp in fns:
            for spelling, p in (("abs", absq), ("abs-alt", alt)):
                got = du.call(f, p)
                n_eval += 1
                if not du.same(got, exp):
                    # CAL_Lexical: is the answer the one the physical reading of q would give?
                    kind = "violation"
                    if case["exists"] and case["phys"] != q and tuple(case["phys"]) in by_q:
                        pc = by_q[tuple(case["phys"])]
                        key = {"get_project": "gp", "get_project(search=False)": "gpx", "Project": "open", "get_job": "job"}[name]
                        if du.same(got, du.want(base, pc[key], name == "get_job")) and not (name == "get_job" and case.get("det")):
                            kind = "drift-CAL_Lexical"   # the text does not fix lexical vs physical here
                    report(kind, name, spelling, case, got, exp)
                    bad_abs.add(name)
                    break
        # --- relative to varying working directories (CAL_Cwd: cwd is a physical directory)
        cwds = [[]]
        if q and tuple(q[:-1]) in kinds and kinds[tuple(q[:-1])] != "link" and all(kinds.get(tuple(q[:i])) != "link" for i in range(len(q))):
            cwds.append(q[:-1])
        cwds.append(rnd.choice(phys_dirs))
        for c in cwds:
            rel = os.path.relpath(absq, du.ap(base, c))
            with du.cwd(du.ap(base, c)):
                for name, f, exp in fns:
                    if name in bad_abs:
                        continue
                    got = du.call(f, rel)
                    n_eval += 1
                    if not du.same(got, exp):
                        report("violation", name, "rel", case, got, exp, {"cwd": c, "rel": rel})
                        bad_abs.add(name)
        # --- from inside: cwd = q, path omitted / "." ; getcwd() is physical, so the expectation is Phys(q)'s
        if case["exists"] and tuple(case["phys"]) in by_q and kinds.get(tuple(case["phys"])) != "link":
            pc = by_q[tuple(case["phys"])]
            with du.cwd(absq):
                for name, f, exp in (("get_project", lambda: signac.get_project(), du.want(base, pc["gp"])),
                                     ("get_project(search=False)", lambda: signac.get_project(search=False), du.want(base, pc["gpx"])),
                                     ("Project", lambda: signac.Project(), du.want(base, pc["open"])),
                                     ("get_job", lambda: signac.get_job(), du.want(base, pc["job"], True)),
                                     ("get_job", lambda: signac.get_job("."), du.want(base, pc["job"], True))):
                    if name in bad_abs:
                        continue
                    got = du.call(f)
                    n_eval += 1
                    if not du.same(got, exp):
                        report("violation" if case["phys"] == q else "drift-CAL_Cwd", name, "cwd", case, got, exp, {"cwd": q})
                        bad_abs.add(name)
    # queries must not have written anything (frame of the read-only operations; a drift, not a stated post-condition)
    snap1 = du.snapshot(base)
    if snap1 != snap0:
        a, r, c = du.snapdiff(snap0, snap1)
        out.append({"kind": "drift-queries-wrote", "fn": "queries", "spelling": "", "q": [], "qclass": "", "got": [a, r, c], "exp": [],
                    "nodes": nodes, "seed": seed, "extra": None, "shape": ""})
        du.rmtree(base)
        du.materialise(nodes, base, seed, skip_config_of=skip_config_of, use_api=use_api)
        snap0 = du.snapshot(base)
    # --- histories in ONE process: after the tree changed, every query must give the answer of the CURRENT tree
    def requery(changed, spelling, hcase):
        nonlocal n_eval
        ch = {tuple(c["q"]): c for c in changed}
        nbad = 0
        for c2 in cases:
            src = ch.get(tuple(c2["q"]), c2)
            p = du.ap(base, c2["q"])
            for name, f, key in (_FNS if tuple(c2["q"]) in ch else (_FNS[0], _FNS[3])):
                got = du.call(f, p)
                n_eval += 1
                exp = du.want(base, src[key], name == "get_job")
                if not du.same(got, exp):
                    determined = _qclass(kinds, c2) != "via-symlink" or (name == "get_job" and c2.get("det"))
                    report("violation" if determined else "drift-CAL_Lexical", name, spelling, c2, got, exp, {"history": spelling, "at": hcase["q"]})
                    nbad += 1
                    break
            if nbad >= 3:
                return

    stash = os.path.join(os.path.dirname(base), "stash-" + os.path.basename(base))
    n_hist = 0
    for case in cases:
        rm = case.get("remove")
        if not rm or not rm["enabled"] or not (len(rm["changed"]) > 1 or du._h(seed, case["q"], "rm") % 4 == 0):
            continue
        moved = _stash_project(base, case["q"], stash)
        try:
            requery(rm["changed"], "abs-after-project-removed", case)
        finally:
            _unstash(moved)
        if du.snapshot(base) != snap0:
            raise core.MachineryError("cannot restore sandbox after removing a project by hand")
        requery([], "abs-after-project-restored", case)
        n_hist += 1
    du.rmtree(stash)
    # --- init_project
    n_init_rich = 0
    for case in cases:
        ini = case["init"]
        if not ini["enabled"]:
            continue
        q = case["q"]
        absq = du.ap(base, q)
        if ini["existing"]:
            phys = case["phys"]
            rich = phys in info["rich"] and any(kinds.get(tuple(phys + ["workspace", i])) in ("job", "jobproj") for i in du.SP_OF)
            n_init_rich += rich
            for spelling in ("abs", "cwd"):
                meta0 = du.file_meta(base)
                if spelling == "abs":
                    got = du.call(signac.init_project, absq)
                    exp = du.want(base, ini["res"])
                else:
                    if phys != q:
                        continue
                    with du.cwd(absq):
                        got = du.call(signac.init_project)
                    exp = du.want(base, ini["res"])
                n_eval += 1
                snap1 = du.snapshot(base)
                if not du.same(got, exp):
                    report("violation", "init_project", spelling, case, got, exp, {"existing": True})
                if snap1 != snap0:
                    a, r, c = du.snapdiff(snap0, snap1)
                    report("violation", "init_project", spelling, case, ["modified", a, r, c], ["unchanged"],
                           {"existing": True, "changed": du.classify_paths(a + r + c), "rich": rich})
                    du.rmtree(base)
                    du.materialise(nodes, base, seed, skip_config_of=skip_config_of, use_api=use_api)
                    if du.snapshot(base) != snap0:
                        raise core.MachineryError("cannot restore sandbox")
                else:
                    meta1 = du.file_meta(base)
                    touched = sorted(k for k in meta0 if k in meta1 and meta0[k] != meta1[k])
                    if touched:
                        report("violation", "init_project", spelling, case, ["modified", [], [], touched], ["unchanged"],
                               {"existing": True, "changed": "rewritten-" + du.classify_paths(touched), "rich": rich})
        else:
            got = du.call(signac.init_project, absq)
            n_eval += 1
            snap1 = du.snapshot(base)
            a, r, c = du.snapdiff(snap0, snap1)
            exp_added = set()
            for n in ini["added"]:
                rp = os.path.relpath(du.ap(base, n["p"]), base)
                rp = "" if rp == "." else rp + "/"
                if n["k"] == "ws":
                    exp_added.add(rp)
                else:
                    if tuple(n["p"]) not in kinds:
                        exp_added.add(rp)
                    exp_added.add(rp + ".signac/")
                    exp_added.add(rp + ".signac/config")
            exp_added.discard("")
            if not du.same(got, du.want(base, ini["res"])) or set(a) != exp_added or r or c:
                report("drift-create", "init_project", "abs", case, [got, a, r, c], [du.want(base, ini["res"]), sorted(exp_added)], {"existing": False})
            else:
                got2 = du.call(signac.get_project, absq)
                if not du.same(got2, du.want(base, ini["after"])):
                    report("violation", "get_project", "abs-after-init", case, got2, du.want(base, ini["after"]), {"history": "abs-after-init", "at": q})
                do_hist = ini.get("hist") and (len(ini["changed"]) > 1 or du._h(seed, q, "hist") % 8 == 0)
                if do_hist:
                    requery(ini["changed"], "abs-after-init", case)
                    n_hist += 1
                # idempotence: the second call on what is now an existing project changes nothing
                got3 = du.call(signac.init_project, absq)
                n_eval += 2
                snap2 = du.snapshot(base)
                if not du.same(got3, du.want(base, ini["res"])):
                    report("violation", "init_project", "second-call", case, got3, du.want(base, ini["res"]), {"existing": True})
                if snap2 != snap1:
                    a2, r2, c2 = du.snapdiff(snap1, snap2)
                    report("violation", "init_project", "second-call", case, ["modified", a2, r2, c2], ["unchanged"],
                           {"existing": True, "changed": du.classify_paths(a2 + r2 + c2), "rich": False})
            # restore: undo exactly what was added, verify, rebuild only if that does not give the original back
            _undo_added(base, a)
            if r or c or du.snapshot(base) != snap0:
                du.rmtree(base)
                du.materialise(nodes, base, seed, skip_config_of=skip_config_of, use_api=use_api)
                if du.snapshot(base) != snap0:
                    raise core.MachineryError("cannot restore sandbox")
            elif ini.get("hist") and (len(ini["changed"]) > 1 or du._h(seed, q, "hist") % 8 == 0):
                requery([], "abs-after-remove", case)      # the project is gone again: the original answers
    du.rmtree(base)
    return {"eval": n_eval, "cases": len(cases), "shapes": shapes, "init_rich": n_init_rich, "hist": n_hist}


def _device_variants(rec, idx, out):
    """CAL_DeviceBlind: re-materialise the tree with one of the spec's MountSets moved behind symbolic links - once onto
    the same device (control) and once onto the OTHER device - and ask every query again. Returns number of calls."""
    nodes, seed = rec["nodes"], _G["seed"] + idx
    kinds = {tuple(n["p"]): n["k"] for n in nodes}
    n_eval = 0
    for mode in ("ws", "job", "dir"):
        mounts = rec["mounts"][mode]
        if not mounts:
            continue
        bad = {}
        for dev in ("same", "other"):
            wdir = os.path.join(_G["root"], "w%d" % os.getpid())
            base = os.path.join(wdir, "t%d-%s-%s" % (idx, mode, dev))
            mroot = os.path.join(wdir if dev == "same" else os.path.join(_G["other"], "w%d" % os.getpid()), "mnt%d-%s-%s" % (idx, mode, dev))
            os.makedirs(mroot)
            try:
                du.materialise(nodes, base, seed, use_api=False, mounts=mounts, mount_root=mroot)
                for case in rec["cases"]:
                    p = du.ap(base, case["q"])
                    for name, f, key in _FNS:
                        got = du.call(f, p)
                        n_eval += 1
                        exp = du.want(base, case[key], name == "get_job")
                        if not du.same(got, exp):
                            bad.setdefault(dev, {})[(name, tuple(case["q"]))] = (case, _strip(base, got), _strip(base, exp))
            finally:
                du.rmtree(base)
                du.rmtree(mroot)
        for k, (case, got, exp) in bad.get("other", {}).items():
            same_too = k in bad.get("same", {})
            out.append({"kind": "drift-CAL_Lexical" if same_too else "violation", "fn": k[0], "spelling": "cross-device", "q": case["q"],
                        "qclass": "cross-device", "got": got, "exp": exp, "nodes": nodes, "seed": seed, "shape": _shape(kinds, case), "use_api": False,
                        "extra": {"mounts": mounts, "what": "the %s director%s %s moved onto another file system behind symbolic links; "
                                  "with the links on the same file system the answer is %s" % (mode, "ies" if len(mounts) > 1 else "y",
                                  ["/".join(m) for m in mounts], "also wrong" if same_too else "right")}})
        for k, (case, got, exp) in bad.get("same", {}).items():
            if k not in bad.get("other", {}):
                out.append({"kind": "drift-CAL_Lexical", "fn": k[0], "spelling": "cross-device", "q": case["q"], "qclass": "same-device-links", "got": got, "exp": exp,
                            "nodes": nodes, "seed": seed, "shape": "", "use_api": False, "extra": {"mounts": mounts, "what": "links on the same device only"}})
    return n_eval


# ---- the command line front end: every command is a fresh process started in a directory of the tree ----------------
_EMPTY_ID = core.my_id({})


def _cli_phase(rec, idx, out):
    """TLC's command-level cases (cli field of every case) executed through the real entry point signac.__main__.main()"""
    from ..clifront import run_cli
    nodes, seed = rec["nodes"], _G["seed"] + idx
    kinds = {tuple(n["p"]): n["k"] for n in nodes}
    wdir = os.path.join(_G["root"], "w%d" % os.getpid())
    base = os.path.join(wdir, "c%d" % idx)
    scratch = os.path.join(wdir, "cli-scratch")
    os.makedirs(scratch, exist_ok=True)
    du.materialise(nodes, base, seed, use_api=False)
    snap0 = du.snapshot(base)
    n_cmd = 0

    def rep(kind, sig, case, cmds, got, exp):
        out.append({"kind": kind, "fn": "cli", "sig": sig, "spelling": "cli", "q": case["q"], "qclass": _qclass(kinds, case), "got": _strip(base, got),
                    "exp": _strip(base, exp), "nodes": nodes, "seed": seed, "shape": _shape(kinds, case), "use_api": False,
                    "extra": {"cmds": cmds}})

    def jobp(cwd):
        st, o, e = run_cli(scratch, cwd, ["job", "-p", "{}"])
        line = o.strip()
        suffix = os.sep + os.path.join("workspace", _EMPTY_ID)
        if st == 0 and line.endswith(suffix):
            return ("project", line[:-len(suffix)])
        return ("exit-%d" % st, (o + e).strip()[:160])

    try:
        for case in rec["cases"]:
            c = case["cli"]
            if not c["cwd"]:
                continue
            q = case["q"]
            cwd = du.ap(base, q)
            want = ("project", du.ap(base, c["which"]["path"])) if c["which"]["ok"] else ("exit-1",)
            got = jobp(cwd)
            n_cmd += 1
            if got[:len(want)] != want:
                rel = du.relation(("project", got[1]) if got[0] == "project" else ("LookupError",) if got[0] == "exit-1" else ("error", got[0], ""),
                                  ("project", want[1]) if want[0] == "project" else ("LookupError",))
                rep("violation", "cli:job:%s:%s" % (_qclass(kinds, case), rel), case, [[q, ["job", "-p", "{}"]]], got, want)
                continue
            st, o, e = run_cli(scratch, cwd, ["find"])
            ids = sorted(x for x in o.split() if x)
            n_cmd += 1
            if st != c["find"]["st"] or (st == 0 and ids != sorted(c["find"]["ids"])):
                kind = "violation" if (not c["which"]["ok"] and st == 0) else "drift-CAL_CliFind"
                rep(kind, "cli:find:%s" % ("answers-without-project" if kind == "violation" else "listing"), case, [[q, ["find"]]], [st, ids], [c["find"]["st"], sorted(c["find"]["ids"])])
            st, o, e = run_cli(scratch, cwd, ["statepoint"])
            n_cmd += 1
            if st != c["spst"]:
                kind = "violation" if (not c["which"]["ok"] and st == 0) else "drift-CAL_CliStatepoint"
                rep(kind, "cli:statepoint:%s" % ("answers-without-project" if kind == "violation" else "status"), case, [[q, ["statepoint"]]], [st, (o + e)[:120]], [c["spst"]])
            ini = c["init"]
            if not ini["enabled"]:
                continue
            meta0 = du.file_meta(base)
            st, o, e = run_cli(scratch, cwd, ["init"])
            n_cmd += 1
            snap1 = du.snapshot(base)
            a, r, ch = du.snapdiff(snap0, snap1)
            cmds = [[q, ["init"]]]
            if st != 0:
                rep("violation" if ini["existing"] else "drift-create", "cli:init:%s:exit-%d" % ("existing-project" if ini["existing"] else "create", st), case, cmds, [st, e[:160]], [0])
            elif ini["existing"]:
                touched = sorted(k for k in meta0 if meta0[k] != du.file_meta(base).get(k))
                if a or r or ch or touched:
                    rep("violation", "cli:init:existing-project:modifies-%s" % du.classify_paths(a + r + ch + touched), case, cmds, ["modified", a, r, ch, touched], ["unchanged"])
            else:
                exp_added = set()
                for n in ini["added"]:
                    rp = os.path.relpath(du.ap(base, n["p"]), base)
                    rp = "" if rp == "." else rp + "/"
                    if n["k"] == "ws":
                        exp_added.add(rp)
                    else:
                        exp_added.update([rp + ".signac/", rp + ".signac/config"])
                exp_added.discard("")
                if set(a) != exp_added or r or ch:
                    rep("drift-create", "cli:init:create:layout", case, cmds, [a, r, ch], [sorted(exp_added)])
                got2 = jobp(cwd)
                n_cmd += 1
                want2 = ("project", du.ap(base, ini["after"]["path"]))
                if got2[:2] != want2:
                    rep("violation", "cli:init:project-not-created-at-cwd", case, cmds + [[q, ["job", "-p", "{}"]]], got2, want2)
                st3, _, e3 = run_cli(scratch, cwd, ["init"])
                n_cmd += 1
                if st3 != 0 or du.snapshot(base) != snap1:
                    rep("violation", "cli:init:second-init-not-a-no-op", case, cmds + [[q, ["init"]]], [st3, du.snapdiff(snap1, du.snapshot(base))], [0, "unchanged"])
            if du.snapshot(base) != snap0:
                _undo_added(base, du.snapdiff(snap0, du.snapshot(base))[0])
                if du.snapshot(base) != snap0:
                    du.rmtree(base)
                    du.materialise(nodes, base, seed, use_api=False)
    finally:
        du.rmtree(base)
    return n_cmd


def _work(item):
    idx, line = item
    rec = json.loads(line)
    base = os.path.join(_G["root"], "w%d" % os.getpid(), "t%d" % idx)
    os.makedirs(os.path.dirname(base), exist_ok=True)
    out = []
    cnt = _check_tree(rec, base, _G["seed"] + idx, out)
    cnt["device"] = 0
    if _G.get("other") and "mounts" in rec and du._h(_G["seed"], idx, "device") % _G["device_every"] == 0:
        cnt["eval"] += _device_variants(rec, idx, out)
        cnt["device"] = 1
    cnt["cli"] = 0
    if "cli" in rec["cases"][0] and du._h(_G["seed"], idx, "cli") % _G["cli_every"] == 0:
        cnt["cli"] = _cli_phase(rec, idx, out)
        cnt["cli_trees"] = 1
    return cnt, out[:20]



# ---- code -> spec: the harness's own random trees, observed answers judged by TLC -----------------------------
_PLAIN = ["a", "b", "c d", "data.v1", "0123456789abcdef0123456789abcde", "42B7B4F2921788EA14DAC5566E6F06D0", "Workspace", "workspace2", "src"]
_I1, _I2, _I3 = list(du.SP_OF)


def _rand_tree(rnd):
    while True:
        nodes = []

        def add(p, k):
            nodes.append({"p": p, "k": k, "tgt": list(du.NONE)})

        def grow(p, k, d):
            if k in du.PROJ_KINDS:
                add(p + ["workspace"], "ws")
                if d > 1:
                    for i in (_I1, _I2):
                        r = rnd.random()
                        if r < 0.4:
                            continue
                        kk = "job" if r < 0.7 else "jobproj" if r < 0.9 else "link"
                        add(p + ["workspace", i], kk)
                        if kk != "link":
                            grow(p + ["workspace", i], kk, d - 2)
            if d <= 0:
                return
            for nm in rnd.sample(_PLAIN, rnd.choice([0, 0, 1, 1, 2, 3])):
                r = rnd.random()
                kk = "dir" if r < 0.45 else "proj" if r < 0.85 else "link"
                add(p + [nm], kk)
                if kk != "link":
                    grow(p + [nm], kk, d - 1)
        rk = rnd.choice(["dir", "proj"])
        add([], rk)
        grow([], rk, 5)
        if not 3 <= len(nodes) <= 40:
            continue
        targets = [n["p"] for n in nodes if n["k"] not in ("link", "ws")]
        jobdirs = [n["p"] for n in nodes if n["k"] in ("job", "jobproj")]
        for n in nodes:
            if n["k"] == "link":
                other = [t for t in jobdirs if t[:-2] != n["p"][:-2]]   # job directories of other workspaces
                if n["p"][-1] in du.SP_OF and other and rnd.random() < 0.6:
                    n["tgt"] = list(rnd.choice(other))
                else:
                    n["tgt"] = list(du.NONE) if rnd.random() < 0.15 else list(rnd.choice(targets))
        return nodes


def _rand_queries(nodes):
    qs = [n["p"] for n in nodes]
    for n in nodes:
        if n["k"] in ("dir", "proj", "job", "jobproj"):
            qs.append(n["p"] + ["nx"])
        if n["k"] == "ws":
            qs.append(n["p"] + [_I3])
        if n["k"] == "link" and n["tgt"] != du.NONE:
            t = n["tgt"]
            below = [m["p"] for m in nodes if m["p"][:len(t)] == t and len(m["p"]) > len(t)]
            qs += [n["p"] + m[len(t):] for m in below[:12] if len(n["p"]) + len(m) - len(t) <= 8]
    seen, out = set(), []
    for q in qs:
        if tuple(q) not in seen:
            seen.add(tuple(q))
            out.append(q)
    return out


def _encode(base, got):
    def comps(p):
        if p == base:
            return []
        if p.startswith(base + os.sep):
            return p[len(base) + 1:].split(os.sep)
        return ["<outside>", p]
    if got[0] == "project":
        return {"ok": True, "path": comps(got[1]), "id": "", "dir": []}
    if got[0] == "job":
        return {"ok": True, "path": comps(got[1]), "id": got[2], "dir": comps(got[3])}
    if got[0] == "LookupError":
        return {"ok": False, "path": [], "id": "", "dir": []}
    return {"ok": False, "path": ["<raises %s>" % got[1]], "id": "", "dir": []}


def _observe(item):
    import signac
    idx, nodes = item
    base = os.path.join(_G["root"], "o%d" % os.getpid(), "t%d" % idx)
    os.makedirs(os.path.dirname(base), exist_ok=True)
    try:
        du.materialise(nodes, base, _G["seed"] + idx, use_api=False)
        obs = []
        for q in _rand_queries(nodes):
            p = du.ap(base, q)
            obs.append({"q": q, "gp": _encode(base, du.call(signac.get_project, p)),
                        "gpx": _encode(base, du.call(lambda x: signac.get_project(x, search=False), p)),
                        "open": _encode(base, du.call(signac.Project, p)), "job": _encode(base, du.call(signac.get_job, p))})
        return {"nodes": nodes, "obs": obs}
    finally:
        du.rmtree(base)


def _code_to_spec(ctx, workers, n):
    rnd = random.Random(ctx.seed + 19)
    trees = [_rand_tree(rnd) for _ in range(n)]
    recs = core.pmap(_observe, list(enumerate(trees)), procs=workers)
    fin, fout = os.path.join(ctx.work, "observed.ndjson"), os.path.join(ctx.work, "judged.ndjson")
    with open(fin, "w") as f:
        for r in recs:
            f.write(json.dumps(r) + "\n")
    consts = {"DEPTH": 0, "SIDES": 0, "FULLDEPTH": 0, "MAXLINKS": 0, "FULLLINKS": 0, "NSAMPLE": 0, "SEED0": 0, "MODE": '"file"'}
    cfgt = tlc.cfg(consts, invariants=INVARIANTS, properties=PROPS, postcondition="Export")
    r = tlc.run("discovery/Discovery.tla", cfg_text=cfgt, workdir=ctx.work, env={"TREES_FILE": fin, "CASES_OUT": fout}, coverage=False,
                allow_violation=False, workers=workers, heap="8g")
    ctx.add_tlc("Discovery: %d harness-generated random trees with observed answers (TLC judges)" % n, r)
    verdicts = [json.loads(ln) for ln in open(fout)]
    if len(verdicts) != len(recs):
        raise core.MachineryError("TLC judged %d of %d recorded trees" % (len(verdicts), len(recs)))
    findings, nobs = [], 0
    for rec, v in zip(recs, verdicts):
        if not v["wf"]:
            raise core.MachineryError("harness generated a tree outside the grammar: %r" % rec["nodes"])
        nobs += len(rec["obs"])
        for j in v["bad"]:
            o, e = rec["obs"][j - 1], v["exp"][j - 1]
            for key, fn in (("gp", "get_project"), ("gpx", "get_project(search=False)"), ("open", "Project"), ("job", "get_job")):
                if o[key] != e[key]:
                    qclass = "missing-path" if not e["exists"] else "via-symlink" if e["phys"] != o["q"] else "plain"
                    conv = lambda a: ("LookupError",) if not a["ok"] and not a["path"] else ("error", a["path"][0][8:-1], "") if not a["ok"] else \
                        ("job", os.path.join("$ROOT", *a["path"]), a["id"], os.path.join("$ROOT", *a["dir"])) if a["id"] else ("project", os.path.join("$ROOT", *a["path"]))
                    findings.append({"kind": "violation" if qclass != "via-symlink" or (key == "job" and e["det"]) else "drift-CAL_Lexical?", "fn": fn, "spelling": "abs", "q": o["q"], "qclass": qclass,
                                     "got": list(conv(o[key])), "exp": list(conv(e[key])), "nodes": rec["nodes"], "seed": 0, "extra": None, "shape": "", "use_api": False})
    ctx.cov["code_to_spec"] = {"random_trees": len(recs), "observations_judged_by_tlc": nobs * 4, "rejected": len(findings)}
    ctx.count(n=nobs * 4, traces=nobs)
    if recs:
        ctx.sample({"harness_tree": ["%s:%s" % ("/".join(n["p"]) or ".", n["k"]) for n in recs[0]["nodes"]], "observed": recs[0]["obs"][len(recs[0]["obs"]) // 2]})
    return findings


def _signature(f):
    if f["fn"] == "cli":
        return f["sig"]
    if f["fn"] == "init_project":
        if f["got"] and f["got"][0] == "modified":
            return "init_project:%s:modifies-%s" % ("second-call" if f["spelling"] == "second-call" else "existing-project", f["extra"]["changed"])
        return "init_project:%s:%s" % ("existing-project" if f["extra"].get("existing") else "create", du.relation(f["got"], f["exp"]))
    sp = {"abs": "", "abs-alt": ":alt-spelling", "rel": ":relative", "cwd": ":cwd", "abs-after-init": ":stale-after-init_project",
          "abs-after-remove": ":stale-after-project-removed", "abs-after-project-removed": ":stale-after-project-removed",
          "abs-after-project-restored": ":stale-after-init_project", "cross-device": ""}[f["spelling"]]
    return "%s:%s:%s%s" % (f["fn"], f["qclass"], du.relation(f["got"], f["exp"]), sp)


def _what(f):
    if f["fn"] == "cli":
        tree = ", ".join("%s:%s%s" % ("/".join(n["p"]) or ".", n["k"], ("->" + "/".join(n["tgt"])) if n["k"] == "link" else "") for n in sorted(f["nodes"], key=lambda n: n["p"]))
        return "command line: %s gave %r, the specification requires %r; tree {%s}" % (
            "; ".join("(cd %s && signac %s)" % ("/".join(c[0]) or ".", " ".join(c[1])) for c in f["extra"]["cmds"]), f["got"], f["exp"], tree)
    q = "/".join(f["q"]) or "."
    tree = ", ".join("%s:%s%s" % ("/".join(n["p"]) or ".", n["k"], ("->" + "/".join(n["tgt"])) if n["k"] == "link" else "") for n in sorted(f["nodes"], key=lambda n: n["p"]))
    return "%s(%s)%s returned %r, the specification requires %r; tree {%s}" % (f["fn"], q, " [" + f["spelling"] + " " + json.dumps(f["extra"]) + "]" if f["extra"] else "", f["got"], f["exp"], tree)


def _run_tlc(ctx, name, consts, coverage, out, workers):
    cfgt = tlc.cfg(consts, invariants=INVARIANTS, properties=PROPS, postcondition="Export")
    r = tlc.run("discovery/Discovery.tla", cfg_text=cfgt, workdir=ctx.work, seed=ctx.seed % 10**6, env={"CASES_OUT": out},
                coverage=coverage, allow_violation=False, workers=workers, heap="8g")
    ctx.add_tlc(name, r)
    return r


def run(ctx):
    workers = int(os.environ.get("VERIF_WORKERS", "16"))
    root = os.path.realpath(ctx.mkdtemp("trees"))
    du.assert_clean_ancestry(root)
    for i, sp in du.SP_OF.items():
        if core.my_id(sp) != i:
            raise core.MachineryError("id table of the spec is wrong")
    ctx.assumptions += ["the regular expression engine (id-likeness enters the spec as membership in Ids)",
                        "POSIX path resolution of the kernel (Resolve in the spec follows links as the kernel does)",
                        "nothing above the sandbox directory is a signac project (checked at start)", "TLC"]
    ctx.cov["rule"] = ("case = (tree, query path); trees: every full-branching tree of depth <= FULLDEPTH, every spine of depth <= DEPTH "
                       "with <= 1 side branch, <= 1 symlink with every possible target (incl. ancestors, dangling), plus random wide trees; "
                       "queries: every node, paths through links, non-existent children; each replayed with 2 absolute spellings, 2-3 "
                       "working directories, from inside, and through init_project (+ byte snapshots); distinct = distinct "
                       "ancestor-kind chain of the query")
    runs = []
    C = lambda d, s, f, ml, fl, ns: {"DEPTH": d, "SIDES": s, "FULLDEPTH": f, "MAXLINKS": ml, "FULLLINKS": fl, "NSAMPLE": ns, "SEED0": ctx.seed % 60000, "MODE": '"gen"'}
    if ctx.quick:
        runs.append(("exhaustive: spines depth<=1, full branching depth<=1 (action coverage)", C(1, 1, 1, 1, 1, 0), True))
        runs.append(("exhaustive: spines depth<=3 with a side branch, full branching depth<=2, <=1 link", C(3, 1, 2, 1, 1, 0), False))
        runs.append(("exhaustive: bare spines depth<=5 with <=1 link; 120 pseudo-random wide trees of depth 5", C(5, 0, 0, 1, 0, 120), False))
    else:
        runs.append(("exhaustive: spines depth<=2, full branching depth<=2 (action coverage)", C(2, 1, 2, 1, 1, 0), True))
        runs.append(("exhaustive: spines depth<=5 with a side branch and <=1 link, full branching depth<=2; 1200 pseudo-random wide trees",
                     C(5, 1, 2, 1, 1, 1200), False))
        runs.append(("exhaustive: full branching depth<=3 without links", C(1, 0, 3, 0, 0, 0), False))
    # CAL_DeviceBlind needs a second file system: a scratch directory on a device other than the sandbox's
    other = None
    import tempfile
    for cand in ("/tmp", "/dev/shm", "/var/tmp", os.path.expanduser("~")):
        try:
            if os.path.isdir(cand) and os.access(cand, os.W_OK) and os.stat(cand).st_dev != os.stat(root).st_dev:
                other = os.path.realpath(tempfile.mkdtemp(prefix="verif-C19-otherdev-", dir=cand))
                du.assert_clean_ancestry(other)
                break
        except OSError:
            continue
    if other is None:
        ctx.notes.append("only one writable file system found: the cross-device family (CAL_DeviceBlind) was skipped")
    _G.update(root=root, seed=ctx.seed, other=other, device_every=8 if ctx.quick else 10, cli_every=10 if ctx.quick else 16)
    try:
        _run_body(ctx, workers, root, runs)
    finally:
        if other:
            du.rmtree(other)


def _run_body(ctx, workers, root, runs):
    total = {"eval": 0, "cases": 0, "trees": 0, "init_rich": 0, "hist": 0, "device": 0, "cli": 0, "cli_trees": 0}
    findings = []
    shapes = {}
    first_lines = []
    for k, (name, consts, cov) in enumerate(runs):
        out = os.path.join(ctx.work, "cases%d.ndjson" % k)
        r = _run_tlc(ctx, name, consts, cov, out, workers)
        if cov:
            ctx.require_actions(r, ["PickQuery", "InitExisting", "InitCreate", "RemoveProject"])
        with open(out) as f:
            lines = f.readlines()
        m = re.search(r"Finished computing initial states: (\d+) distinct", r.stdout)
        if not m or len(lines) != int(m.group(1)):
            raise core.MachineryError("exported %d trees, TLC had %s initial states" % (len(lines), m and m.group(1)))
        if not first_lines:
            first_lines = lines[:50]
        ctx.cov.setdefault("trees_per_run", []).append(len(lines))
        res = core.pmap(_work, list(enumerate(lines, start=k * 10**6)), procs=workers)
        for cnt, fs in res:
            total["eval"] += cnt["eval"]
            total["cases"] += cnt["cases"]
            total["trees"] += 1
            total["init_rich"] += cnt["init_rich"]
            total["hist"] += cnt["hist"]
            total["device"] += cnt.get("device", 0)
            total["cli"] += cnt.get("cli", 0)
            total["cli_trees"] += cnt.get("cli_trees", 0)
            for s, n in cnt["shapes"].items():
                shapes[s] = shapes.get(s, 0) + n
            findings += fs
        del lines
    findings += _code_to_spec(ctx, workers, 200 if ctx.quick else 2000)
    for s in shapes:
        ctx.count(("shape", s), n=0)
    ctx.count(n=total["eval"], traces=total["cases"])
    ctx.cov["trees_replayed"] = total["trees"]
    ctx.cov["cases_replayed"] = total["cases"]
    ctx.cov["init_project_on_rich_existing_projects"] = total["init_rich"]
    ctx.cov["cross_device_trees"] = {"trees": total["device"], "other_device_dir": os.path.dirname(_G["other"]) if _G.get("other") else None}
    ctx.cov["command_line"] = {"trees": total["cli_trees"], "commands_run": total["cli"],
                               "commands": "signac job -p '{}' / find / statepoint with cwd = every existing path of the tree; signac init (+ second init)"}
    ctx.count(n=total["cli"], traces=total["cli"])
    if total["cli"] == 0:
        raise core.MachineryError("the command line phase did not run")
    ctx.cov["same_process_histories"] = total["hist"]   # query all -> init_project / remove project -> query all -> undo -> query all
    if total["init_rich"] == 0:
        raise core.MachineryError("no init_project call on a project with configuration entries, documents, cache and jobs")
    # samples
    for ln in first_lines[3:40:12]:
        rec = json.loads(ln)
        c = rec["cases"][len(rec["cases"]) // 2]
        ctx.sample({"tree": ["%s:%s" % ("/".join(n["p"]) or ".", n["k"]) for n in rec["nodes"]], "query": "/".join(c["q"]),
                    "get_project": c["gp"], "get_job": c["job"], "init_existing": c["init"]["existing"]})
    # verdicts
    for f in findings:
        if f["kind"] == "violation":
            ctx.violation(_signature(f), _what(f), {k: f.get(k) for k in ("fn", "spelling", "q", "nodes", "seed", "extra", "got", "exp", "use_api")})
        else:
            ctx.spec_drift("%s: %s" % (f["kind"], _what(f))[:600])
    # ---- binding self-test -------------------------------------------------------------------
    rec = next(json.loads(ln) for ln in first_lines if any(c["gp"]["ok"] and len(c["gp"]["path"]) >= 1 for c in json.loads(ln)["cases"]))
    st = {}

    def corrupt(case):
        if case["gp"]["ok"] and len(case["gp"]["path"]) >= 1:
            case = dict(case, gp=dict(case["gp"], path=case["gp"]["path"] + ["zz"]))
        return case
    out = []
    _check_tree(rec, os.path.join(root, "selftest1"), ctx.seed, out, expected_override=corrupt)
    st["corrupted_expected_project_detected"] = any(f["fn"] == "get_project" for f in out)
    victim = next(n["p"] for n in rec["nodes"] if n["k"] in du.PROJ_KINDS)
    out = []
    _check_tree(rec, os.path.join(root, "selftest2"), ctx.seed, out, skip_config_of=victim)
    st["dropped_config_file_detected"] = bool(out)
    out = []
    _check_tree(rec, os.path.join(root, "selftest3"), ctx.seed, out)
    st["unmodified_case_passes"] = not [f for f in out if f["kind"] == "violation"] or any(f["kind"] == "violation" for f in findings)
    crec = json.loads(json.dumps(rec))
    for c in crec["cases"]:
        if c["cli"]["cwd"] and c["cli"]["which"]["ok"]:
            c["cli"]["which"]["path"] = c["cli"]["which"]["path"] + ["zz"]
            break
    out = []
    _cli_phase(crec, 999999, out)
    st["corrupted_cli_expectation_detected"] = any(f["fn"] == "cli" and f["sig"].startswith("cli:job") for f in out)
    if not st["corrupted_cli_expectation_detected"]:
        raise core.MachineryError("binding self-test of the command line phase failed")
    ctx.cov["binding_selftest"] = st
    if not (st["corrupted_expected_project_detected"] and st["dropped_config_file_detected"]):
        raise core.MachineryError("binding self-test failed: %r" % st)
    ctx.cov["exhaustive"] = "within the stated tree families"


def replay(ctx, data):
    import signac
    base = os.path.join(os.path.realpath(ctx.mkdtemp("replay")), "t")
    if data["spelling"] == "cli":
        from ..clifront import run_cli
        du.materialise(data["nodes"], base, data["seed"], use_api=False)
        print("tree:", sorted(du.disk_nodes(base).items()))
        snap = du.snapshot(base)
        last = None
        for q, argv in data["extra"]["cmds"]:
            st, o, e = run_cli(ctx.work, du.ap(base, q), argv)
            print("(cd $ROOT/%s && signac %s) -> exit %d  stdout %r stderr %r" % ("/".join(q), " ".join(argv), st, _strip(base, o.strip())[:200], e.strip()[:200]))
            last = (st, o, e)
        a, r, c = du.snapdiff(snap, du.snapshot(base))
        print("changes on disk: added", a, "removed", r, "changed", c)
        print("specification:", data["exp"], " observed when recorded:", data["got"])
        exp = data["exp"]
        st, o, e = last
        if exp and exp[0] == "project":
            return 0 if st == 0 and _strip(base, o.strip()).startswith(exp[1] + "/workspace/") and _strip(base, o.strip())[:-len("/workspace/" + _EMPTY_ID)] == exp[1] else 1
        if exp and exp[0] == "exit-1":
            return 0 if st == 1 else 1
        if exp and exp[0] == "unchanged":
            return 1 if (a or r or c) else 0
        if exp and exp[0] == 0 and len(exp) > 1 and exp[1] == "unchanged":
            return 0 if st == 0 else 1
        return 0 if st == exp[0] else 1
    if data["spelling"] == "cross-device":
        import tempfile
        other = next((c for c in ("/tmp", "/dev/shm", "/var/tmp") if os.path.isdir(c) and os.access(c, os.W_OK)
                      and os.stat(c).st_dev != os.stat(ctx.work).st_dev), None)
        if other is None:
            print("no second file system available")
            return 2
        mroot = os.path.realpath(tempfile.mkdtemp(prefix="verif-C19-otherdev-", dir=other))
        try:
            du.materialise(data["nodes"], base, data["seed"], use_api=False, mounts=data["extra"]["mounts"], mount_root=mroot)
            f = dict((n, g) for n, g, _k in _FNS)[data["fn"]]
            got = _strip(base, du.call(f, du.ap(base, data["q"])))
            print("moved onto", other, ":", ["/".join(m) for m in data["extra"]["mounts"]])
            print("%s(%s) ->" % (data["fn"], "/".join(data["q"])), got)
            print("specification (CAL_DeviceBlind):", data["exp"])
            return 0 if du.same(got, tuple(data["exp"])) else 1
        finally:
            du.rmtree(mroot)
    du.materialise(data["nodes"], base, data["seed"], use_api=data.get("use_api", True))
    q = du.ap(base, data["q"])
    fn = data["fn"]
    print("tree:", sorted(du.disk_nodes(base).items()))
    f = {"get_project": lambda p: signac.get_project(p), "get_project(search=False)": lambda p: signac.get_project(p, search=False),
         "Project": lambda p: signac.Project(p), "get_job": lambda p: signac.get_job(p), "init_project": lambda p: signac.init_project(p)}[fn]
    before = du.snapshot(base)
    meta0 = du.file_meta(base)
    extra = data.get("extra") or {}
    if data["spelling"].startswith("abs-after"):
        # a history in one process: ask about every node, change the tree, ask again
        for n in data["nodes"]:
            for _, g, _k in _FNS:
                du.call(g, du.ap(base, n["p"]))
        at = extra.get("at", data["q"])
        print("history: all nodes queried; then", data["spelling"], "at", "/".join(at) or ".")
        if data["spelling"] in ("abs-after-init", "abs-after-remove"):
            du.call(signac.init_project, du.ap(base, at))
            if data["spelling"] == "abs-after-remove":
                for n in data["nodes"]:
                    for _, g, _k in _FNS:
                        du.call(g, du.ap(base, n["p"]))
                _undo_added(base, du.snapdiff(before, du.snapshot(base))[0])
        else:
            moved = _stash_project(base, at, base + "-stash")
            if data["spelling"] == "abs-after-project-restored":
                for n in data["nodes"]:
                    for _, g, _k in _FNS:
                        du.call(g, du.ap(base, n["p"]))
                _unstash(moved)
        got = du.call(f, q)
    elif data["spelling"] == "rel":
        with du.cwd(du.ap(base, extra["cwd"])):
            got = du.call(f, extra["rel"])
    elif data["spelling"] == "cwd":
        with du.cwd(q):
            got = du.call({"get_project": signac.get_project, "get_project(search=False)": lambda: signac.get_project(search=False),
                           "Project": signac.Project, "get_job": signac.get_job, "init_project": signac.init_project}[fn])
    else:
        if data["spelling"] == "second-call":
            du.call(f, q)
            before = du.snapshot(base)
            meta0 = du.file_meta(base)
        got = du.call(f, q)
    after = du.snapshot(base)
    exp = data["exp"]
    print("%s(%s) [%s] ->" % (fn, q, data["spelling"]), _strip(base, got))
    print("specification:", exp)
    if exp and exp[0] == "unchanged":
        a, r, c = du.snapdiff(before, after)
        meta1 = du.file_meta(base)
        touched = sorted(k for k in meta0 if k in meta1 and meta0[k] != meta1[k])
        print("sandbox changes: added", a, "removed", r, "changed", c, "rewritten", touched)
        return 1 if (a or r or c or touched) else 0
    return 0 if du.same(_strip(base, got), tuple(exp)) else 1

"""C08 - the state point cache is transparent, and update_cache makes it exact (Workspace.tla)."""
from .. import wsfamily as F

PID = "C08"
OPS = ["open_sp", "open_id", "init", "remove", "setkey", "update_cache", "restart", "delete_cache", "readsp"]


def configs(ctx):
    q = ctx.quick
    props = ("UpdateCacheExact", "SecondCallNoop")
    return [
        F.Config("cache-histories", OPS, 5 if q else 6, "int", limit=4000 if q else 200000, invariants=("CacheSound", "HashInvX"), properties=props),
        F.Config("cache-populated", OPS + ["open_iter"], 4 if q else 5, "typed", init_jobs=2, init_cache=(False, True), limit=3000 if q else 150000,
                 invariants=("CacheSound", "HashInvX"), properties=props),
        F.Config("long-random", OPS + ["open_iter", "assign", "copy", "docset"], 0, "mixed", handles=("h1", "h2", "h3"),
                 sim_num=40 if q else 2000, sim_depth=40, invariants=("CacheSound", "HashInvX"), properties=props),
    ]


def run(ctx):
    ctx.assumptions += ["TLC; raw projection of project directories and of the gzip+JSON cache file", "the property speaks about uncorrupted workspaces: states with a damaged job are not judged"]
    ctx.cov["rule"] = ("one evaluation = one spec transition of a history over {init, remove, re-key, update_cache, restart, delete cache, open} executed on the real library; after EVERY step "
                       "the API view (iteration, len, find_jobs, open-by-id state points) is taken twice in fresh sessions - cache file in place and hidden - and both must equal the raw "
                       "workspace; after update_cache the decoded file must list exactly the workspace ids with their true state points and a second call must be a no-op; "
                       "distinct = (config, op, outcome) classes")
    F.run_configs(ctx, PID, configs(ctx))
    F.run_recorded(ctx, PID, "random-wide", 40 if ctx.quick else 2000, 40 if ctx.quick else 60, OPS + ["open_iter", "assign", "copy", "docset", "reset"], projects=("P",))
    F.large_workspace(ctx, PID)
    F.cli_front(ctx, PID)
    ctx.cov["binding_selftest"] = F.selftest(ctx, PID)


def replay(ctx, data):
    return F.replay_script(ctx, PID, data)

"""C10 - documents and the state point cache file are replaced atomically.

spec      spec/lifecycle/PosixFs.tla + Lifecycle.tla (write protocols, Crash enabled in every state, torn prefix
          classes, a concurrent reader) ; LifecycleTrace.tla (validation of recorded real fs-step traces).
TLC       checks OldOrNew / NeverTornOrEmpty / LitterOnlyTmp in EVERY reachable state of every write scenario and is
          REQUIRED to find the OldOrNew violation on the named in-place alternative protocol.
binding   (1) code -> spec: every real execution (fault-free record run, every crash@k / torn@k,p re-execution) is
              recorded by harness/fsshim.py and its step trace + final raw disk is validated by TLC.
          (2) spec -> code: every terminal state of TLC's state graph (crash point / torn class / reader position)
              is re-executed on the real library; plus the generic enumeration "fault at each of the N recorded
              mutating steps", so the verdict never depends on the code matching the model.
observers three kinds, all judged the same way: a raw reader (open / read of the target at any two positions of the writer), a
          signac SESSION in another process that reads the target through the API (Project.open_job(id=...), len, iteration,
          find_jobs / job.document() / project.document()) between any two writer steps, and - after every crash / torn write -
          a later read-only session followed (cache) by a session that calls update_cache(). A session must not raise, must
          leave every target old-or-new and at most the temp file as litter; its own fs steps are part of the validated trace:
          the specification's reader only opens and reads the target, so a reader that touches the temp name is rejected, and
          the named broken reader protocol "recover" is required to violate OldOrNew in TLC.
verdict   always from raw observation (json.load / gzip+json of the target, directory listing) judged by the
          property's stated post-conditions; a different-but-atomic protocol is SPEC-DRIFT.

This module also holds the machinery shared with c11.py (sandbox, role mapping, forked execution under the shim).
Environment-guarded mutations of the dependency's protocol (testing the engine itself): VERIF_MUTATION=<name>.
"""
import gzip
import hashlib
import json
import os
import random
import re
import shutil
import signal
import sys
import traceback

from .. import core, tlc, tlaparse
from ..fsshim import Shim, Crash, CRASH_EXIT, PREFIX_CLASSES, prefix_len, UUID_TMP

# ---------------------------------------------------------------------------------------------------
# the real world behind the specification's tokens
SP = {"A": {"a": 1}, "B": {"a": 2}, "O": {"a": 5}, "O2": {"a": 6}, "C": {"a": 7}, "X": {"a": 8}, "Y": {"a": 9}}
ID = {k: core.my_id(v) for k, v in SP.items()}
ROLE_OF_ID = {v: k for k, v in ID.items()}
FN_SP, FN_DOC, FN_PDOC = "signac_statepoint.json", "signac_job_document.json", "signac_project_document.json"
FN_CACHE = ".signac/statepoint_cache.json.gz"
FILE_ROLE = {FN_SP: "sp", FN_SP + "~": "sp~", "._<U>_" + FN_SP: "tsp", FN_DOC: "doc", "._<U>_" + FN_DOC: "tdoc",
             "data.txt": "data", "nested": "nested", "f.bin": "f"}
PAYLOAD = {"data.txt": b"payload: " + bytes(range(48, 112)), "nested/f.bin": bytes(range(256)) * 3}
DOCS = {"docA": {"x": 1}, "docO": {"y": 2}, "docO2": {"y": 3}, "docB": {"b": 1}, "docQ": {"q": 1}, "docEmpty": {},
        "pdocOld": {"p": 0}}
ERRNOS = ["EIO", "ENOSPC", "EACCES", "EXDEV", "EROFS"]  # the property's quantifier
ERRNOS2 = ["EBUSY", "EPERM", "EMFILE", "ENOTEMPTY", "EINTR", "ENAMETOOLONG", "EDQUOT"]  # "or a file-system call fails": further errnos the
#                                                  handlers must treat as plain failures (or, ENOTEMPTY, as "destination exists")
ALL_W = ["w_doc_new", "w_doc", "w_pdoc", "w_flush", "w_cache_new", "w_cache"]
LEVEL = "model_checking"


def canon(v):
    return json.dumps(v, sort_keys=True)


def to_role(rel):
    """sandbox-relative path -> specification path (tuple) | None (static, not modelled) | ('?', ...) unknown"""
    rel = UUID_TMP.sub("._<U>_", rel)
    parts = rel.split("/")
    if parts[0] in ("P", "Q") and len(parts) >= 2 and parts[1] == "workspace":
        out = [parts[0]]
        if len(parts) >= 3:
            r = ROLE_OF_ID.get(parts[2])
            if r in ("C", "X", "Y"):
                return None  # auxiliary jobs of the cache scenarios: not part of the model
            out.append(r if r else parts[2])
            for x in parts[3:]:
                out.append(FILE_ROLE.get(x, x))
        return tuple(out)
    if parts[0] == "P":
        if len(parts) == 1:
            return ("root",)
        if parts[1] == ".signac":
            if len(parts) == 2:
                return ("sig",)
            if parts[2] == "config":
                return None
            if parts[2] == "statepoint_cache.json.gz":
                return ("sig", "cache")
            if parts[2] == "statepoint_cache.json.gz~":
                return ("sig", "cache~")
            return ("sig",) + tuple(parts[2:])
        if parts[1] == FN_PDOC:
            return ("root", "pdoc")
        if parts[1] == "._<U>_" + FN_PDOC:
            return ("root", "tpdoc")
        return ("root",) + tuple(parts[1:])
    if parts[0] == "Q":
        if len(parts) == 1 or parts[1] == ".signac":
            return None
        return ("?",) + tuple(parts)
    if parts[0] == "tmp" and len(parts) == 1:
        return None
    return ("?",) + tuple(parts)


OPMAP = {"replace": "rename", "rename": "rename", "remove": "unlink", "unlink": "unlink", "mkdir": "mkdir", "rmdir": "rmdir",
         "open:wb": "opent", "open:w": "opent", "write": "write", "close": "close", "utime": "utime", "chmod": "chmod"}


def eff_class(ln, n):
    """effective prefix class of ln bytes of an n-byte chunk (degenerate classes collapse to p0)"""
    if ln <= 0:
        return "p0"
    for p in ("p1", "half", "allbut1"):
        if prefix_len(p, n) == ln:
            return p
    return "other"


def spec_events(events):
    """shim events -> LifecycleTrace events (mutating steps only)"""
    out = []
    for e in events:
        if not e["mut"]:
            continue
        ps = [to_role(p) for p in e["paths"]]
        a = list(ps[0]) if ps and ps[0] else (["?none"] if ps else [])
        b = list(ps[1]) if len(ps) > 1 and ps[1] else []
        op = OPMAP.get(e["op"], e["op"])
        res = e["res"]
        ev = {"kind": "step", "k": e["k"], "op": op, "a": a, "b": b, "out": res, "e": "", "p": "none", "n": e["n"] or 0}
        if res == "crash":
            ev.update(kind="crash", op="crash", a=[], b=[], out="crash")
        elif res.startswith("torn:"):
            cls = eff_class(int(res[5:]), e["n"] or 0)
            ev.update(kind="crash", op="crash", b=[], out="torn:" + cls, p=cls)
        elif res.startswith("fail:"):
            bits = res.split(":")
            p = "none"
            if len(bits) > 2 and int(bits[2]) > 0:
                p = "half" if int(bits[2]) == (e["n"] or 0) // 2 else "other"
            ev.update(kind="fail", out="fail:" + bits[1], e=bits[1], p=p)
        out.append(ev)
    return out


# ---------------------------------------------------------------------------------------------------
# forked execution
def forked(fn, *args, timeout=120):
    """run fn(*args) in a forked child; returns (exit status, JSON result | None)"""
    r, w = os.pipe()
    sys.stdout.flush()
    sys.stderr.flush()
    pid = os.fork()
    if pid == 0:
        code = 0
        try:
            os.close(r)
            out = fn(*args)
            data = json.dumps(out, default=str).encode()
            view = memoryview(data)
            while view:
                n = os.write(w, view[:65536])
                view = view[n:]
        except BaseException:
            traceback.print_exc()
            code = 3
        finally:
            os._exit(code)
    os.close(w)
    chunks = []
    while True:
        c = os.read(r, 1 << 16)
        if not c:
            break
        chunks.append(c)
    os.close(r)
    _, status = os.waitpid(pid, 0)
    code = os.waitstatus_to_exitcode(status)
    data = b"".join(chunks)
    return code, (json.loads(data) if data else None)


def classify_exc(e):
    if isinstance(e, Crash):
        return "crash"
    if isinstance(e, OSError) and e.errno:
        import errno as _e
        return _e.errorcode.get(e.errno, "E%d" % e.errno)
    return type(e).__name__


def apply_mutation():
    """environment-guarded mutations of the DEPENDENCY (never edits /venv): used only to test this engine"""
    m = os.environ.get("VERIF_MUTATION", "")
    if not m:
        return
    from synced_collections.backends import collection_json as cj
    import uuid
    if m == "dep_inplace":  # temp + replace dropped altogether
        def _save(self):
            blob = json.dumps(self, cls=cj.SyncedCollectionJSONEncoder).encode()
            with open(self._filename, "wb") as f:
                f.write(blob)
        cj.JSONCollection._save_to_resource = _save
    elif m == "dep_no_write_concern":  # write_concern ignored; atomic only while multithreading support is on
        def _save(self):
            blob = json.dumps(self, cls=cj.SyncedCollectionJSONEncoder).encode()
            if type(self)._threading_support_is_active:
                dirname, filename = os.path.split(self._filename)
                fn_tmp = os.path.join(dirname, f"._{uuid.uuid4()}_{filename}")
                with open(fn_tmp, "wb") as tmpfile:
                    tmpfile.write(blob)
                os.replace(fn_tmp, self._filename)
            else:
                with open(self._filename, "wb") as f:
                    f.write(blob)
        cj.JSONCollection._save_to_resource = _save
    elif m == "dep_copy":  # os.replace -> shutil.copy + remove
        def _save(self):
            blob = json.dumps(self, cls=cj.SyncedCollectionJSONEncoder).encode()
            dirname, filename = os.path.split(self._filename)
            fn_tmp = os.path.join(dirname, f"._{uuid.uuid4()}_{filename}")
            with open(fn_tmp, "wb") as tmpfile:
                tmpfile.write(blob)
            shutil.copy(fn_tmp, self._filename)
            os.remove(fn_tmp)
        cj.JSONCollection._save_to_resource = _save
    elif m == "dep_tmpdir":  # temp file in another directory
        import tempfile
        def _save(self):
            blob = json.dumps(self, cls=cj.SyncedCollectionJSONEncoder).encode()
            fn_tmp = os.path.join(tempfile.gettempdir(), f"._{uuid.uuid4()}_{os.path.basename(self._filename)}")
            with open(fn_tmp, "wb") as tmpfile:
                tmpfile.write(blob)
            os.replace(fn_tmp, self._filename)
        cj.JSONCollection._save_to_resource = _save
    else:
        raise core.MachineryError("unknown VERIF_MUTATION %r" % m)


REGISTRY = {}  # scenario key -> Scen; filled before worker pools are forked (closures are not picklable)


class Scen:
    """one real scenario: spec scenario name + variant; build(box) creates the pre-state (un-shimmed);
    setup(box) (un-shimmed, inside the child) returns the operation callable run under the shim."""

    def __init__(self, spec, variant, build, setup, listing="sorted", config="default", **kw):
        self.spec, self.variant, self.build, self.setup, self.listing, self.config = spec, variant, build, setup, listing, config
        self.kw = kw
        self.key = "%s/%s/%s" % (spec, variant, config)
        REGISTRY[self.key] = self


def target_states(box, scen):
    """raw reading of every target: 'old' | 'new' | 'absent' | 'empty' | 'torn' | 'third' (absent = old if there was no file)"""
    out = {}
    for rel, old, new, kind in scen.kw.get("targets", ()):
        fn = os.path.join(box, rel)
        try:
            with open(fn, "rb") as f:
                b = f.read()
        except FileNotFoundError:
            b = None
        got = parse_target(b, kind)
        if got[0] == "ok":
            out[rel] = "new" if got[1] == new else ("old" if old is not None and got[1] == old else "third")
        elif got[0] == "absent":
            out[rel] = "old" if old is None else "absent"
        else:
            out[rel] = got[0]
    return out


def run_session(box, scen, which="session"):
    """A signac SESSION (fresh Project object, in its own process) that reads the target through the library's API.
    Its file-system steps are recorded: a reader is expected to open the target for reading and nothing else."""
    import logging
    logging.disable(logging.CRITICAL)
    fn = scen.kw.get(which)
    if fn is None:
        return None
    roles = {to_role(t[0]) for t in scen.kw.get("targets", ())}
    sh = Shim(box, record_reads=True)
    res, detail, value = "ok", "", None
    sh.install()
    try:
        value = fn(box)
    except BaseException as e:  # noqa
        res, detail = classify_exc(e) if isinstance(e, OSError) else type(e).__name__, repr(e)[:300]
    finally:
        sh.uninstall()
    evs = []
    for e in sh.events:
        r = [to_role(x) for x in e["paths"]]
        if e["mut"] or (e["op"].startswith("open:r") and r and r[0] is not None and (r[0] in roles or r[0][-1].endswith("~") or r[0][-1].startswith("t"))):
            evs.append(e)
    try:
        vtxt = canon(value)
    except Exception:  # noqa
        vtxt = repr(value)
    return {"res": res, "detail": detail, "events": evs, "value": vtxt if len(vtxt) < 2000 else hashlib.md5(vtxt.encode()).hexdigest(),
            "targets_after": target_states(box, scen)}


def _session_child(box, scen, which):
    if isinstance(scen, str):
        scen = REGISTRY[scen]
    os.chdir(box)
    apply_mutation()
    return run_session(box, scen, which)


def _child_exec(box, scen, mode):
    import tempfile
    import logging
    logging.disable(logging.CRITICAL)
    tempfile.tempdir = os.path.join(box, "tmp")
    os.chdir(box)
    import signac  # noqa
    apply_mutation()
    if scen.config == "nomt":
        _disable_mt()
    op = scen.setup(box)
    pre_paths = sorted(core.snapshot(box)) if mode.get("prepaths", True) else None
    pre_snap = {k: (v.hex() if isinstance(v, bytes) else v) for k, v in core.snapshot(box).items()} if mode.get("presnap") else None
    reader = mode.get("reader")
    rstate = {"f": None, "opened": False, "val": None, "done": False}

    def reader_step(kdone, orig_open):
        i, j, rel = reader["i"], reader["j"], reader["target"]
        if not rstate["opened"] and kdone >= i:
            rstate["opened"] = True
            try:
                rstate["f"] = orig_open(os.path.join(box, rel), "rb")
            except FileNotFoundError:
                rstate["val"], rstate["done"] = None, True
        if rstate["opened"] and not rstate["done"] and kdone >= j:
            rstate["val"] = rstate["f"].read().hex()
            rstate["f"].close()
            rstate["done"] = True

    sh = Shim(box, listing=scen.listing, crash_at=mode.get("crash_at"), torn=mode.get("torn"),
              faults={int(k): (tuple(v) if isinstance(v, list) else v) for k, v in (mode.get("faults") or {}).items()},
              hard_exit=mode.get("hard", False), record_reads=mode.get("reads", False),
              rfaults={int(k): v for k, v in (mode.get("rfaults") or {}).items()})
    if reader:
        sh.on_step = lambda ev: reader_step(ev["k"] - 1, sh.orig["builtins.open"]) if ev["mut"] else None
    sess_at = mode.get("session_at")
    sess = {"out": None, "done": False}

    def session_now():
        """another PROCESS runs a signac session now, while the writer stands between two of its steps"""
        sess["done"] = True
        r, w = os.pipe()
        pid = os.fork()
        if pid == 0:
            code = 0
            try:
                os.close(r)
                sh.uninstall()  # this copy of the process is the reader: it gets the real functions back
                data = json.dumps(run_session(box, scen), default=str).encode()
                view = memoryview(data)
                while view:
                    n = os.write(w, view[:65536])
                    view = view[n:]
            except BaseException:  # noqa
                traceback.print_exc()
                code = 3
            finally:
                os._exit(code)
        sh.orig["os.close"](w)
        chunks = []
        while True:
            c = sh.orig["os.read"](r, 1 << 16) if sh._installed else os.read(r, 1 << 16)
            if not c:
                break
            chunks.append(c)
        (sh.orig["os.close"] if sh._installed else os.close)(r)
        os.waitpid(pid, 0)
        sess["out"] = json.loads(b"".join(chunks)) if chunks else {"res": "MACHINERY", "detail": "reader process died", "events": [], "targets_after": {}}

    if sess_at is not None:
        sh.on_step = lambda ev: session_now() if (ev["mut"] and not sess["done"] and ev["k"] - 1 >= sess_at) else None
    detail = ""
    sh.install()
    try:
        op()
        res = "ok"
    except BaseException as e:  # noqa
        res = classify_exc(e)
        detail = repr(e)[:300]
    finally:
        sh.uninstall()
    if reader:
        reader_step(10 ** 9, open)
    if sess_at is not None and not sess["done"]:
        session_now()
    evs = sh.events if mode.get("reads") else [e for e in sh.events if e["mut"] or (e["res"] or "").startswith("fail:")]
    return {"events": evs, "res": res, "detail": detail, "n": sh.k, "pre_paths": pre_paths, "pre_snap": pre_snap,
            "reader": {"absent": rstate["val"] is None, "hex": rstate["val"]} if reader else None, "session": sess["out"]}


def _child_observe(box):
    """a FRESH session: Project.check(), listing; raw snapshot is taken by the caller"""
    import logging
    logging.disable(logging.CRITICAL)
    import signac
    from signac.errors import JobsCorruptedError
    out = {}
    for pr in ("P", "Q"):
        root = os.path.join(box, pr)
        if not os.path.isfile(os.path.join(root, ".signac", "config")):
            continue
        o = {"check": None, "ids": None}
        try:
            p = signac.Project(root)
            try:
                p.check()
                o["check"] = []
            except JobsCorruptedError as e:
                o["check"] = sorted(e.job_ids)
            try:
                o["ids"] = sorted(j.id for j in p)
            except Exception as e:  # noqa
                o["ids"] = "EXC:" + type(e).__name__
        except Exception as e:  # noqa
            o["check"] = "EXC:%s:%s" % (type(e).__name__, str(e)[:100])
        out[pr] = o
    return out


def snapshot(box):
    return core.snapshot(box)


class Tokens:
    """bytes -> version token for one scenario (JSON / gzip+JSON by value, payload by bytes)"""

    def __init__(self, json_tokens=None, cache_tokens=None):
        self.j = {canon(v): t for t, v in {**{("sp" + r): s for r, s in SP.items()}, **DOCS, **(json_tokens or {})}.items()}
        self.c = {canon(v): t for t, v in (cache_tokens or {}).items()}
        self.raw = {PAYLOAD["data.txt"]: "data", PAYLOAD["nested/f.bin"]: "f"}

    def classify(self, b, role):
        if len(b) == 0:
            return "EMPTY"
        if b in self.raw:
            return self.raw[b]
        if role and role[-1] in ("cache", "cache~"):
            try:
                v = json.loads(gzip.decompress(b).decode())
                return self.c.get(canon(v), "UNKNOWN-CACHE")
            except Exception:  # noqa
                return "TORN"
        try:
            v = json.loads(b.decode())
        except Exception:  # noqa
            return "TORN"
        t = self.j.get(canon(v))
        if t is None:
            return "UNKNOWN"
        # the same JSON value may be a state point of one job and a document of another: prefer by file role
        if role and role[-1] in ("sp", "sp~", "tsp") and not t.startswith("sp"):
            for tt, vv in SP.items():
                if canon(vv) == canon(v):
                    return "sp" + tt
        return t


def abstract_disk(snap, tokens):
    out = []
    for rel, v in sorted(snap.items()):
        role = to_role(rel.rstrip("/"))
        if role is None:
            continue
        if v is None:
            out.append({"p": list(role), "v": "DIR"})
        elif isinstance(v, tuple):
            out.append({"p": list(role), "v": "SYMLINK"})
        else:
            out.append({"p": list(role), "v": tokens.classify(v, role)})
    return out


# ---------------------------------------------------------------------------------------------------
# templates and case execution
_TEMPLATES = {}


def template(ctx, scen):
    """build the pre-state once per scenario (in a forked child), return its directory"""
    if scen.key in _TEMPLATES:
        return _TEMPLATES[scen.key]
    d = os.path.realpath(ctx.mkdtemp("tpl"))
    box = os.path.join(d, "box")
    os.makedirs(os.path.join(box, "tmp"))
    code, _ = forked(_build_child, box, scen)
    if code != 0:
        raise core.MachineryError("building the pre-state of %s failed" % scen.key)
    _TEMPLATES[scen.key] = box
    return box


def _build_child(box, scen):
    import logging
    logging.disable(logging.CRITICAL)
    os.chdir(box)
    scen.build(box)
    return {}


def run_case(args):
    """(template box, work dir, scenario, mode, observe?) -> result dict (executed inside a pool worker)"""
    tpl, work, scen, mode, want = args
    if isinstance(scen, str):
        scen = REGISTRY[scen]
    box = os.path.join(work, "c%d-%s" % (os.getpid(), hashlib.md5(repr((scen.key, sorted(mode.items(), key=str))).encode()).hexdigest()[:12]))
    if os.path.exists(box):
        shutil.rmtree(box)
    shutil.copytree(tpl, box, symlinks=True)
    try:
        code, out = forked(_child_exec, box, scen, mode)
        if mode.get("hard"):
            if code not in (CRASH_EXIT, 0):
                return {"machinery": "hard-exit child ended with %s" % code}
            out = out or {"events": [], "res": "crash", "detail": "", "n": None, "reader": None, "pre_paths": None}
        elif code != 0 or out is None:
            return {"machinery": "child failed with exit code %s" % code}
        snap = snapshot(box)
        out["snap"] = {k: (v.hex() if isinstance(v, bytes) else v) for k, v in snap.items()} if want.get("snap") else None
        out["_snap"] = snap
        if want.get("session") and scen.kw.get("session"):
            # the session(s) that follow the crash: first one that only reads, then (cache) one that updates
            c2, s1 = forked(_session_child, box, scen.key, "session")
            if c2 != 0 or s1 is None:
                return {"machinery": "session child failed"}
            out["later"] = [s1]
            out["_snap1"] = snapshot(box)
            if scen.kw.get("session2"):
                c3, s2 = forked(_session_child, box, scen.key, "session2")
                if c3 != 0 or s2 is None:
                    return {"machinery": "second session child failed"}
                out["later"].append(s2)
                out["_snap2"] = snapshot(box)
        if want.get("observe"):
            c2, obs = forked(_child_observe, box)
            if c2 != 0:
                return {"machinery": "observer child failed"}
            out["obs"] = obs
        return out
    finally:
        shutil.rmtree(box, ignore_errors=True)


def mode_of_script(script):
    """TLC's fault script -> shim mode"""
    mode = {}
    for f in script:
        if f["kind"] == "fail":
            mode.setdefault("faults", {})[str(f["k"])] = [_errno(f["e"]), "half"] if f["p"] == "half" else _errno(f["e"])
        elif f["kind"] == "crash":
            mode["crash_at"] = f["k"]
        elif f["kind"] == "torn":
            mode["crash_at"], mode["torn"] = f["k"], f["p"]
    return mode


def _errno(name):
    import errno as _e
    return getattr(_e, name)


def mode_key(mode):
    return json.dumps(mode, sort_keys=True)


def script_kind(mode):
    if mode.get("reader"):
        return "reader"
    if mode.get("session_at") is not None:
        return "reader-session"
    nf = len(mode.get("faults") or {})
    if mode.get("crash_at"):
        return ("torn" if mode.get("torn") else "crash") + ("+fail" if nf else "")
    return "fail" if nf == 1 else ("double-fail" if nf > 1 else "none")


# ---------------------------------------------------------------------------------------------------
# TLC side
def consts(scns, maxf, doc="atomic", sp="atomic", K=3, reader=False, fixed=False, rproto="plain", errnos=None):
    return {"ReaderProto": tlc.lit(rproto), "Scenarios": tlc.lit(set(scns)), "MaxFaults": maxf, "Errnos": tlc.lit(set(errnos or ERRNOS)), "DocProto": tlc.lit(doc),
            "SpProto": tlc.lit(sp), "CacheChunks": K, "WithReader": tlc.lit(reader), "FixedCloneCleanup": tlc.lit(fixed)}


_NODE = re.compile(r'^(-?\d+) \[label="((?:[^"\\]|\\.)*)"')


def terminal_states(dotfile, want=("scn", "script", "res", "pc", "crashed", "k", "rpc", "rval", "rAt")):
    """terminal states (operation returned or process dead) of a -dump dot graph; only the wanted variables are parsed.
    Also returns the set of step kinds (last.op) seen anywhere in the graph (vacuity guard)."""
    out, ops = [], set()
    pat = {v: re.compile(r"(?:^|\n)/\\ %s = (.*?)(?=\n/\\ |\Z)" % v, re.S) for v in want}
    lastop = re.compile(r'op \|-> "(\w+)"')
    term = re.compile(r'(?:^|\n)/\\ pc = "(done|dead)"')
    with open(dotfile) as f:
        for line in f:
            m = _NODE.match(line)
            if not m:
                continue
            lab = m.group(2).replace("\\n", "\n").replace('\\"', '"').replace("\\\\", "\\")
            mo = lastop.search(lab)
            if mo:
                ops.add(mo.group(1))
            if not term.search(lab):
                continue
            st = {}
            for v, p in pat.items():
                mm = p.search(lab)
                if mm:
                    st[v] = tlaparse.parse_value(mm.group(1))
            out.append(st)
    return out, ops


def validate_traces(ctx, name, traces, cst, invariants=()):
    """TLC decides, for every recorded real execution, whether it is a behaviour of the specification.
    Returns the set of rejected indices (0-based) and TLC's diagnostics per index."""
    if not traces:
        return set(), {}
    fn = os.path.join(ctx.work, "traces_%s.ndjson" % re.sub(r"\W", "_", name))
    with open(fn, "w") as f:
        for t in traces:
            f.write(json.dumps({"scn": t["scn"], "ev": t["ev"], "res": t["res"], "disk": t["disk"], "rep": t["rep"]}) + "\n")
    cfgt = tlc.cfg(cst, init="TrInit", next="TrNext", constraints=["Track"], postcondition="Post", invariants=list(invariants))
    r = tlc.run("lifecycle/LifecycleTrace.tla", cfg_text=cfgt, workdir=ctx.work, workers=1, env={"TRACE_FILE": fn}, coverage=False,
                allow_violation=False, heap="4g")
    ctx.add_tlc("trace validation: " + name, r)
    rejected, diag = set(), {}
    for m in re.finditer(r'<<"REJECTED", (\d+), "matched", (-?\d+), "of", (\d+)>>', r.stdout):
        rejected.add(int(m.group(1)) - 1)
        diag[int(m.group(1)) - 1] = "matched %s of %s events" % (m.group(2), m.group(3))
    for m in re.finditer(r'<<"(MISMATCH|FINAL-MISMATCH)", (\d+), (.*?)>>\n(?=<<|\S)', r.stdout, re.S):
        i = int(m.group(2)) - 1
        diag[i] = (diag.get(i, "") + " | " + m.group(1) + " " + re.sub(r"\s+", " ", m.group(3))[:600]).strip()
    return rejected, diag


# ---------------------------------------------------------------------------------------------------
# C10 scenarios
BIG = {"big": "0123456789abcdef" * 20000, "n": list(range(40))}  # ~320 kB: many io / copy buffers


def _mk_project(box, name="P"):
    import signac
    root = os.path.join(box, name)
    os.makedirs(root, exist_ok=True)
    return signac.init_project(root)


def _mk_job(p, role, doc=None, payload=False, sp_only=False):
    j = p.open_job(SP[role]).init()
    if doc is not None and not sp_only:
        j.document = doc
    if payload:
        os.makedirs(j.fn("nested"))
        for rel, b in PAYLOAD.items():
            with open(j.fn(rel), "wb") as f:
                f.write(b)
    return j


def build_base(box, a="full", adoc=None, pdoc=None, cache=None, extra=()):
    """P with the untouched job O and (optionally) the affected job A"""
    import signac
    p = _mk_project(box)
    _mk_job(p, "O", DOCS["docO"])
    if a == "full":
        _mk_job(p, "A", DOCS["docA"] if adoc is None else adoc, payload=True)
    elif a == "sponly":
        _mk_job(p, "A", sp_only=True)
    if pdoc is not None:
        p.document = pdoc
    if cache is not None:
        for r in cache:
            if r not in ("O", "A"):
                _mk_job(p, r)
        signac.Project(p.path).update_cache()
        for r in cache:
            if r not in ("O", "A") and r not in extra:
                shutil.rmtree(os.path.join(p.workspace, ID[r]))
    return p


def _P(box):
    import signac
    return signac.Project(os.path.join(box, "P"))


def _pickled_in_other_process(box, what, touch, nomt):
    """pickle a Job / Project handle in ANOTHER process (as a multiprocessing parent would); returns the bytes as hex"""
    import pickle
    if nomt:
        _disable_mt()
    p = _P(box)
    h = p.open_job(SP["A"]) if what == "job" else p
    if touch:
        h.doc.get("x")
    return pickle.dumps(h).hex()


def _disable_mt():
    from synced_collections.backends.collection_json import BufferedJSONAttrDict
    from signac.job import _StatePointDict
    BufferedJSONAttrDict.disable_multithreading()
    _StatePointDict.disable_multithreading()


def _handle(box, what, origin):
    """the Job / Project handle the write goes through: from open_job / Project(), a shallow copy or an (un)pickled copy taken
    before / after the first document access, or a handle pickled in another process and unpickled here (a worker process)"""
    import copy
    import pickle
    from synced_collections.backends.collection_json import BufferedJSONAttrDict
    p = _P(box)
    h = p.open_job(SP["A"]) if what == "job" else p
    kind, _, when = origin.partition("-")
    if kind == "xproc":
        code, hx = forked(_pickled_in_other_process, box, what, when == "after", not BufferedJSONAttrDict._threading_support_is_active)
        if code != 0 or not hx:
            raise core.MachineryError("could not pickle a handle in another process")
        return pickle.loads(bytes.fromhex(hx))
    if when == "after":
        h.doc.get("x")
    return copy.copy(h) if kind == "copy" else pickle.loads(pickle.dumps(h))


def job_handle(box, origin):
    return _handle(box, "job", origin)


def project_handle(box, origin):
    return _handle(box, "project", origin)


def c10_scenarios(thorough=True):
    S = []

    # the signac session that observes the target through the library's API (fresh Project, own process)
    def sess_jobdoc(box):
        return _P(box).open_job(SP["A"]).document()

    def sess_pdoc(box):
        return _P(box).document()

    def sess_cache(box):
        p = _P(box)
        job = p.open_job(id=ID["O"])  # by id: served from the persistent cache when it can be read
        return {"sp": job.statepoint(), "len": len(p), "ids": sorted(j.id for j in p), "find": len(p.find_jobs({"a": 5}))}

    def sess_cache_update(box):
        p = _P(box)
        p.update_cache()
        return {"sp": _P(box).open_job(id=ID["A"]).statepoint(), "len": len(p)}

    def add(spec, variant, build, setup, targets, tokens, configs=("default", "nomt"), **kw):
        if spec.startswith("w_cache"):
            kw.setdefault("session", sess_cache)
            kw.setdefault("session2", sess_cache_update)
        elif spec == "w_pdoc":
            kw.setdefault("session", sess_pdoc)
        else:
            kw.setdefault("session", sess_jobdoc)
        for cfgname in configs:
            S.append(Scen(spec, variant, build, setup, config=cfgname, targets=targets, tokens=tokens, **kw))

    jdoc = "P/workspace/%s/%s" % (ID["A"], FN_DOC)
    odoc = "P/workspace/%s/%s" % (ID["O"], FN_DOC)
    # job document: absent -> new, small, empty, multi-buffer (both directions)
    add("w_doc_new", "setitem", lambda box: build_base(box, a="sponly"),
        lambda box: (lambda j: (lambda: j.doc.__setitem__("x", 1)))(_P(box).open_job(SP["A"])),
        [(jdoc, None, {"x": 1}, "json")], {"docNew": {"x": 1}})
    add("w_doc", "small-setitem", lambda box: build_base(box),
        lambda box: (lambda j: (lambda: j.doc.__setitem__("y", 2)))(_P(box).open_job(SP["A"])),
        [(jdoc, {"x": 1}, {"x": 1, "y": 2}, "json")], {"docNew": {"x": 1, "y": 2}})
    add("w_doc", "empty-clear", lambda box: build_base(box),
        lambda box: (lambda j: (lambda: j.doc.clear()))(_P(box).open_job(SP["A"])),
        [(jdoc, {"x": 1}, {}, "json")], {"docNew": {}, "docEmpty": {"__unused__": 0}})
    add("w_doc", "large-assign", lambda box: build_base(box),
        lambda box: (lambda j: (lambda: setattr(j, "document", BIG)))(_P(box).open_job(SP["A"])),
        [(jdoc, {"x": 1}, BIG, "json")], {"docNew": BIG})
    add("w_doc", "large-to-small", lambda box: build_base(box, adoc=BIG),
        lambda box: (lambda j: (lambda: j.doc.__setitem__("big", "gone")))(_P(box).open_job(SP["A"])),
        [(jdoc, BIG, dict(BIG, big="gone"), "json")], {"docA": BIG, "docNew": dict(BIG, big="gone")})
    # ORIGIN OF THE HANDLE: the protocol must not depend on how the process came by the Job / Project object
    for origin in ("copy-before", "copy-after", "pickle-before", "pickle-after", "xproc-before", "xproc-after"):
        add("w_doc", "handle:" + origin, lambda box: build_base(box),
            (lambda o: lambda box: (lambda h: (lambda: h.doc.__setitem__("y", 2)))(job_handle(box, o)))(origin),
            [(jdoc, {"x": 1}, {"x": 1, "y": 2}, "json")], {"docNew": {"x": 1, "y": 2}})
    for origin in ("copy-before", "copy-after", "pickle-before", "pickle-after", "xproc-after"):
        add("w_pdoc", "handle:" + origin, lambda box: build_base(box, a="none", pdoc=DOCS["pdocOld"]),
            (lambda o: lambda box: (lambda h: (lambda: h.doc.__setitem__("z", 3)))(project_handle(box, o)))(origin),
            [("P/" + FN_PDOC, {"p": 0}, {"p": 0, "z": 3}, "json")], {"pdocNew": {"p": 0, "z": 3}})
    if thorough:  # further entry points of the same protocol
        add("w_doc", "del-key", lambda box: build_base(box, adoc={"x": 1, "gone": [1, 2]}),
            lambda box: (lambda j: (lambda: j.doc.__delitem__("gone")))(_P(box).open_job(SP["A"])),
            [(jdoc, {"x": 1, "gone": [1, 2]}, {"x": 1}, "json")], {"docA": {"x": 1, "gone": [1, 2]}, "docNew": {"x": 1}})
        add("w_doc", "nested-set", lambda box: build_base(box, adoc={"x": 1, "sub": {"a": 1}}),
            lambda box: (lambda j: (lambda: setattr(j.doc.sub, "b", 2)))(_P(box).open_job(SP["A"])),
            [(jdoc, {"x": 1, "sub": {"a": 1}}, {"x": 1, "sub": {"a": 1, "b": 2}}, "json")],
            {"docA": {"x": 1, "sub": {"a": 1}}, "docNew": {"x": 1, "sub": {"a": 1, "b": 2}}})
        add("w_doc", "update", lambda box: build_base(box),
            lambda box: (lambda j: (lambda: j.doc.update({"u": None, "v": [True, 1.5, "s"]})))(_P(box).open_job(SP["A"])),
            [(jdoc, {"x": 1}, {"x": 1, "u": None, "v": [True, 1.5, "s"]}, "json")], {"docNew": {"x": 1, "u": None, "v": [True, 1.5, "s"]}})
        add("w_pdoc", "assign-large", lambda box: build_base(box, a="none", pdoc=DOCS["pdocOld"]),
            lambda box: (lambda p: (lambda: setattr(p, "document", BIG)))(_P(box)),
            [("P/" + FN_PDOC, {"p": 0}, BIG, "json")], {"pdocNew": BIG})
    # project document
    add("w_pdoc", "setitem", lambda box: build_base(box, a="none", pdoc=DOCS["pdocOld"]),
        lambda box: (lambda p: (lambda: p.doc.__setitem__("z", 3)))(_P(box)),
        [("P/" + FN_PDOC, {"p": 0}, {"p": 0, "z": 3}, "json")], {"pdocNew": {"p": 0, "z": 3}})

    # buffered flush: three modified files written back at the exit of signac.buffered()
    def flush_setup(box):
        import signac
        p = _P(box)
        ja, jo = p.open_job(SP["A"]), p.open_job(SP["O"])

        def op():
            with signac.buffered():
                ja.doc["q"] = 1
                jo.doc["q"] = 2
                p.doc["w"] = 1
                ja.doc["r"] = [1, 2, 3]
        return op
    add("w_flush", "three-files", lambda box: build_base(box, pdoc=DOCS["pdocOld"]), flush_setup,
        [("P/" + FN_PDOC, {"p": 0}, {"p": 0, "w": 1}, "json"), (odoc, {"y": 2}, {"y": 2, "q": 2}, "json"),
         (jdoc, {"x": 1}, {"x": 1, "q": 1, "r": [1, 2, 3]}, "json")],
        {"pdocNew": {"p": 0, "w": 1}, "docONew": {"y": 2, "q": 2}, "docNew": {"x": 1, "q": 1, "r": [1, 2, 3]}})

    # state point cache: first write, growing workspace, shrinking workspace
    def cache_map(roles):
        return {ID[r]: SP[r] for r in roles}

    def cache_setup(newjob):
        def setup(box):
            p = _P(box)
            if newjob:
                p.open_job(SP[newjob]).init()
            return lambda: p.update_cache()
        return setup
    cfn = "P/" + FN_CACHE
    add("w_cache_new", "first", lambda box: build_base(box), cache_setup(None),
        [(cfn, None, cache_map("OA"), "gz")], {}, configs=("default",), cache_tokens={"cacheNew": cache_map("OA")})
    add("w_cache", "growing", lambda box: build_base(box, cache=["O", "A"]), cache_setup("C"),
        [(cfn, cache_map("OA"), cache_map(["O", "A", "C"]), "gz")], {}, configs=("default",),
        cache_tokens={"cacheOld": cache_map("OA"), "cacheNew": cache_map(["O", "A", "C"])})
    add("w_cache", "shrinking", lambda box: build_base(box, cache=["O", "A", "X", "Y"]), cache_setup("C"),
        [(cfn, cache_map(["O", "A", "X", "Y"]), cache_map(["O", "A", "C"]), "gz")], {}, configs=("default",),
        cache_tokens={"cacheOld": cache_map(["O", "A", "X", "Y"]), "cacheNew": cache_map(["O", "A", "C"])})
    return S


def tokens_of(scen):
    return Tokens(scen.kw.get("tokens"), scen.kw.get("cache_tokens"))


def parse_target(b, kind):
    """what a plain reader makes of the target bytes: ('ok', value) | ('empty',) | ('torn', why)"""
    if b is None:
        return ("absent",)
    if len(b) == 0:
        return ("empty",)
    try:
        if kind == "gz":
            return ("ok", json.loads(gzip.decompress(b).decode()))
        return ("ok", json.loads(b.decode()))
    except Exception as e:  # noqa
        return ("torn", type(e).__name__)


def judge_c10(scen, pre, post, mode, res, reader, pre_paths=None):
    """the stated post-conditions on the raw observation. -> list of (condition, text)"""
    bad = []
    for rel, old, new, kind in scen.kw["targets"]:
        got = parse_target(post.get(rel), kind)
        okv = [("absent",)] if old is None else [("ok", old)]
        okv.append(("ok", new))
        if got not in okv:
            cond = {"empty": "target-empty", "torn": "target-torn", "absent": "target-vanished"}.get(got[0], "neither-old-nor-new")
            bad.append((cond, "%s is %s after %s" % (rel, got[0] if got[0] != "ok" else "a third value", mode_key(mode))))
    if reader is not None:
        rel, old, new, kind = scen.kw["targets"][-1] if scen.spec != "w_flush" else scen.kw["targets"][-1]
        got = ("absent",) if reader["absent"] else parse_target(bytes.fromhex(reader["hex"]), kind)
        okv = [("absent",)] if old is None else [("ok", old)]
        okv.append(("ok", new))
        if got not in okv:
            cond = {"empty": "reader-saw-empty", "torn": "reader-saw-torn", "absent": "reader-saw-no-file"}.get(got[0], "reader-saw-third-value")
            bad.append((cond, "a concurrent reader (open after step %d, read after step %d) got %s" % (mode["reader"]["i"], mode["reader"]["j"], got[0])))
    # litter: at most one stray file, next to a target; none after a completed write
    tdirs = {os.path.dirname(t[0]) for t in scen.kw["targets"]}
    trel = {t[0] for t in scen.kw["targets"]}
    extra = [k for k in post if k not in pre and k not in trel and k not in (pre_paths or ())]
    if res == "ok" and not mode.get("crash_at") and extra:
        bad.append(("litter-after-success", "completed write left %s" % extra))
    elif len(extra) > 1:
        bad.append(("litter-more-than-one", "crash left %s" % extra))
    elif extra and (extra[0].endswith("/") or os.path.dirname(extra[0]) not in tdirs):
        bad.append(("litter-not-next-to-target", "crash left %s" % extra))
    return bad


def judge_session(scen, what, se, pre, snap_after, pre_paths, mode):
    """a signac session that reads the target through the API (concurrently, or after the crash): its calls must not raise,
    and afterwards every target still parses to old or new content, with at most the one temp file as litter"""
    bad = []
    tag = "session" if what.startswith("concurrent") else "later-session"
    if se["res"] == "MACHINERY":
        raise core.MachineryError("%s: %s" % (scen.key, se["detail"]))
    if se["res"] != "ok":
        bad.append((tag + "-raised", "the %s raised %s (%s)" % (what, se["res"], se["detail"][:160])))
    for rel, st in sorted(se["targets_after"].items()):
        if st not in ("old", "new"):
            bad.append((tag + "-left-target-" + st, "after the %s %s is %s" % (what, rel, st)))
    if snap_after is not None and not what.startswith("concurrent"):
        tdirs = {os.path.dirname(t[0]) for t in scen.kw["targets"]}
        trel = {t[0] for t in scen.kw["targets"]}
        extra = [k for k in snap_after if k not in pre and k not in trel and k not in (pre_paths or ())]
        if len(extra) > 1 or (extra and (extra[0].endswith("/") or os.path.dirname(extra[0]) not in tdirs)):
            bad.append((tag + "-litter", "after the %s the stray files are %s" % (what, extra)))
    return bad


def reader_events(scen, se):
    """the recorded steps of a reader session as LifecycleTrace events: open-for-reading of the target (ropen) followed by the
    read the session survives or not (rread); anything else the reader did (a mutating step, an open of the temp name) is an
    rstep, which no action of the specification matches"""
    rt = to_role(scen.kw["targets"][-1][0])
    out = []
    for e in se["events"]:
        roles = [to_role(p) for p in e["paths"]]
        a = list(roles[0]) if roles and roles[0] else ["?none"]
        b = list(roles[1]) if len(roles) > 1 and roles[1] else []
        base = {"k": 0, "a": a, "b": b, "e": "", "p": "none", "n": 0}
        if not e["mut"] and roles and roles[0] == rt:
            out.append(dict(base, kind="ropen", op="openr", out="ok" if e["res"] == "ok" else e["res"]))
            if e["res"] == "ok":
                out.append(dict(base, kind="rread", op="readall", out="ok" if se["res"] == "ok" else "raised"))
        elif e["mut"]:
            out.append(dict(base, kind="rstep", op=OPMAP.get(e["op"], e["op"]), out=e["res"]))
        else:
            out.append(dict(base, kind="rstep", op="openr", out=e["res"]))
    return out


def record_and_enumerate(ctx, scens, nprocs):
    """record every scenario once; returns {key: record result}"""
    work = os.path.realpath(ctx.mkdtemp("runs"))
    jobs = [(template(ctx, s), work, s.key, {}, {"observe": False}) for s in scens]
    recs = core.pmap(run_case, jobs, procs=nprocs, chunks=1)
    out = {}
    for s, r in zip(scens, recs):
        if "machinery" in r:
            raise core.MachineryError("%s: %s" % (s.key, r["machinery"]))
        out[s.key] = r
    return out, work


def run(ctx):
    rnd = random.Random(ctx.seed)
    nprocs = int(os.environ.get("VERIF_PROCS", "16"))
    import signac  # noqa: imported once here so that forked children do not pay for it
    ctx.assumptions += ["rename(2) is atomic and a process crash loses nothing a completed write(2) delivered (PosixFs model; power loss is out of scope)",
                        "harness/fsshim.py interposes on every fs entry point (audited with strace in the thorough tier)",
                        "gzip / json as parsers used for the observation", "TLC"]
    ctx.cov["rule"] = ("case = (real scenario, configuration, fault script | reader position); distinct = distinct (spec scenario, variant, "
                       "configuration, kind, step number, prefix class / reader position); enumerated from TLC's terminal states plus the generic "
                       "enumeration over the N recorded mutating steps")
    scens = c10_scenarios(thorough=not ctx.quick)
    mut = os.environ.get("VERIF_MUTATION", "")
    # ---- record the real protocols ---------------------------------------------------------------
    recs, work = record_and_enumerate(ctx, scens, nprocs)
    # a handle pickled in another process after its document was opened cannot write at all while the dependency's thread-safety
    # mode is on (KeyError: the per-file lock table of the receiving process has no entry) - nothing is written, so there is
    # nothing for C10 to observe; recorded as a note, not as a verdict
    unusable = [s for s in scens if s.variant.startswith("handle:xproc") and recs[s.key]["res"] != "ok" and recs[s.key]["n"] == 0]
    for s in unusable:
        ctx.notes.append("%s: the handle cannot write (%s %s) - scenario skipped" % (s.key, recs[s.key]["res"], recs[s.key]["detail"][:80]))
    scens = [s for s in scens if s not in unusable]
    ks = sorted({sum(1 for e in recs[s.key]["events"] if e["op"] == "write") for s in scens if s.spec.startswith("w_cache")})
    K = ks[0] if ks else 3
    if len(ks) > 1:
        ctx.notes.append("cache writes use different chunk counts %s; TLC runs use %d, the others are enumerated generically" % (ks, K))
    # ---- TLC: the requirements on the specification ------------------------------------------------
    dump = os.path.join(ctx.work, "c10graph")
    inv = ["OldOrNew", "NeverTornOrEmpty", "LitterOnlyTmp", "WriterCompletes"]
    r = tlc.run("lifecycle/Lifecycle.tla", cfg_text=tlc.cfg(consts(ALL_W, 0, K=K, reader=True), invariants=inv), workdir=ctx.work,
                workers=nprocs, dump=dump, coverage=False, allow_violation=False)
    ctx.add_tlc("Lifecycle write protocols: crash in every state + concurrent reader (K=%d)" % K, r)
    rc = tlc.run("lifecycle/Lifecycle.tla", cfg_text=tlc.cfg(consts(["w_doc", "w_cache"], 1, K=2, reader=True), invariants=inv), workdir=ctx.work,
                 workers=nprocs, coverage=not ctx.quick, allow_violation=False)
    ctx.add_tlc("Lifecycle write protocols with one errno failure (handler paths%s)" % ("" if ctx.quick else "; action coverage"), rc)
    if not ctx.quick:  # -coverage costs ~15 s of start-up on this module; the quick tier uses the step kinds seen in the dump
        ctx.require_actions(rc, ["FsStep", "DoReturn", "Fail", "Crash", "CrashTorn", "ReaderOpen", "ReaderRead"])
    # sanity of the model: the in-place alternative MUST violate OldOrNew
    ri = tlc.run("lifecycle/Lifecycle.tla", cfg_text=tlc.cfg(consts(["w_doc"], 0, doc="inplace", reader=True), invariants=["OldOrNew"]),
                 workdir=ctx.work, workers=4, coverage=False, allow_violation=True)
    ctx.add_tlc("named alternative protocol (in place): violation required", ri)
    if not ri.violation or ri.violation["name"] != "OldOrNew":
        raise core.MachineryError("TLC did not find the OldOrNew violation on the in-place protocol: the model is vacuous")
    ri2 = tlc.run("lifecycle/Lifecycle.tla", cfg_text=tlc.cfg(consts(["w_cache"], 0, doc="inplace", K=K, reader=False), invariants=["NeverTornOrEmpty"]),
                  workdir=ctx.work, workers=4, coverage=False, allow_violation=True)
    ctx.add_tlc("named alternative protocol (cache in place): violation required", ri2)
    if not ri2.violation:
        raise core.MachineryError("TLC did not find the torn cache on the in-place protocol")
    ctx.cov["inplace_counterexample"] = [st.get("last") for _, st in ri.violation["trace"]][-3:]
    # the reader is a signac session with a protocol of its own: the NAMED BROKEN reader ("recover": rename the writer's temp file
    # over a missing target before reading) MUST violate OldOrNew - for a concurrent reader and for the session after a crash
    ri3 = tlc.run("lifecycle/Lifecycle.tla", cfg_text=tlc.cfg(consts(["w_cache_new"], 0, K=K, reader=True, rproto="recover"), invariants=["OldOrNew"]),
                  workdir=ctx.work, workers=1, coverage=False, allow_violation=True)
    ctx.add_tlc("named broken reader protocol (recover the temp file): violation required", ri3)
    if not ri3.violation or ri3.violation["name"] != "OldOrNew":
        raise core.MachineryError("TLC did not find the OldOrNew violation for the temp-file-recovering reader: the reader model is vacuous")
    ctx.cov["recovering_reader_counterexample"] = [st.get("last", {}).get("op") for _, st in ri3.violation["trace"]]
    terms, ops = terminal_states(dump + ".dot")
    if not {"opent", "write", "close", "rename", "crash", "ret"} <= ops:
        raise core.MachineryError("vacuous model: step kinds never taken: %s" % sorted({"opent", "write", "close", "rename", "crash", "ret"} - ops))
    by_scn = {}
    for t in terms:
        by_scn.setdefault(t["scn"], []).append(t)
    # ---- cases -------------------------------------------------------------------------------------
    cases = []  # (scen, mode, origin)
    for s in scens:
        rec = recs[s.key]
        n = rec["n"]
        seen = set()

        def add(mode, origin):
            kk = mode_key(mode)
            if kk not in seen:
                seen.add(kk)
                cases.append((s, mode, origin))
        for t in sorted(by_scn.get(s.spec, []), key=lambda t: json.dumps([[dict(x) for x in t["script"]], list(t.get("rAt", ()))], sort_keys=True)):
            if t.get("crashed"):
                if t.get("rpc") == "done" or t.get("rpc") == "read":
                    continue  # post-crash reader = the crash observation itself
                add(mode_of_script(t["script"]), "tlc")
            elif t.get("rpc") == "done" and t.get("pc") == "done" and not t["script"]:
                add({"reader": {"i": t["rAt"][0], "j": max(t["rAt"][0], t["rAt"][1]), "target": s.kw["targets"][-1][0]}}, "tlc")
        # generic enumeration over the recorded steps (independent of the model)
        for e in rec["events"]:
            add({"crash_at": e["k"]}, "generic")
            if e["op"] == "write":
                for p in PREFIX_CLASSES:
                    if eff_class(prefix_len(p, e["n"] or 0), e["n"] or 0) == p:
                        add({"crash_at": e["k"], "torn": p}, "generic")
        tlc_pos = {t["rAt"][0] for t in by_scn.get(s.spec, []) if t.get("rpc") == "done" and not t.get("crashed") and t.get("pc") == "done"}
        for i in range(0, n + 1):  # a signac session in another process between writer steps i and i+1
            add({"session_at": i}, "tlc" if i in tlc_pos else "generic")
        for i in range(0, n + 1):
            js = range(i, n + 1) if (not ctx.quick or n <= 6) else sorted({i, min(i + 1, n), n, rnd.randrange(i, n + 1)})
            for j in js:
                add({"reader": {"i": i, "j": j, "target": s.kw["targets"][-1][0]}}, "generic")
    jobs = [(template(ctx, s), work, s.key, m, {"observe": False, "session": bool(m.get("crash_at"))}) for s, m, _ in cases]
    results = core.pmap(run_case, jobs, procs=nprocs)
    # ---- judge + collect traces ------------------------------------------------------------------------
    traces, tmeta = [], []
    pre_snaps = {s.key: snapshot(template(ctx, s)) for s in scens}
    nviol = 0

    def handle(s, mode, origin, out):
        nonlocal nviol
        if "machinery" in out:
            raise core.MachineryError("%s %s: %s" % (s.key, mode_key(mode), out["machinery"]))
        kind = script_kind(mode)
        post = out["_snap"]
        if mode.get("crash_at") and out["res"] != "crash":
            ctx.count(("untriggered", s.key, mode_key(mode)))
            return
        bad = judge_c10(s, pre_snaps[s.key], post, mode, out["res"], out.get("reader"), out.get("pre_paths"))
        sessions = ([("concurrent session", out["session"], post)] if out.get("session") else []) + \
                   [("session after the crash" if n == 0 else "updating session after the crash", x, out.get("_snap1" if n == 0 else "_snap2"))
                    for n, x in enumerate(out.get("later") or [])]
        for what, se, snap_after in sessions:
            bad += judge_session(s, what, se, pre_snaps[s.key], snap_after, out.get("pre_paths"), mode)
        if mode.get("session_at") is not None and out["res"] != "ok":
            ctx.notes.append("%s: the writer raised %s with a reader session at position %s" % (s.key, out["res"], mode["session_at"])) if len(ctx.notes) < 20 else None
        stepop = ""
        if mode.get("crash_at") and out["events"]:
            stepop = OPMAP.get(out["events"][-1]["op"], out["events"][-1]["op"])
        ctx.count((s.spec, s.variant, s.config, kind, mode.get("crash_at"), mode.get("torn"), json.dumps(mode.get("reader")), mode.get("session_at")), traces=1)
        for cond, text in bad:
            nviol += 1
            sigop = s.kw.get("sigop", s.spec.split("_")[1]) + ("@" + s.variant[7:] if s.variant.startswith("handle:") else "")
            sig = "%s:%s:%s:%s" % (sigop, s.config, kind.split("+")[0], cond)
            ctx.violation(sig, "%s [%s, %s, %s]: %s (interrupted before/inside step %s %s)" % (s.spec, s.variant, s.config, origin, text, mode.get("crash_at"), stepop),
                          {"scenario": s.key, "mode": mode})
        if not mode.get("reader"):
            tk = tokens_of(s)
            evs = spec_events(out["events"])
            final = post
            if out.get("session"):  # the reader's steps go where they happened: after the writer's step session_at
                i = mode["session_at"]
                evs = [e for e in evs if e["k"] <= i] + reader_events(s, out["session"]) + [e for e in evs if e["k"] > i]
            elif out.get("later"):
                evs = evs + reader_events(s, out["later"][0])
                final = out["_snap1"]
            traces.append({"scn": s.spec, "ev": evs, "res": out["res"], "disk": abstract_disk(final, tk), "rep": []})
            tmeta.append((s, mode, bool(bad)))

    for s in scens:
        handle(s, {}, "record", dict(recs[s.key]))
    for (s, mode, origin), out in zip(cases, results):
        handle(s, mode, origin, out)
    # ---- code -> spec: TLC validates every recorded execution -------------------------------------------
    groups = {}
    for i, (t, (s, mode, _)) in enumerate(zip(traces, tmeta)):
        kk = sum(1 for e in recs[s.key]["events"] if e["op"] == "write") if s.spec.startswith("w_cache") else K
        groups.setdefault(("atomic", kk), []).append(i)
    nrej = 0
    for (proto, kk), idx in sorted(groups.items()):
        rej, diag = validate_traces(ctx, "C10 %s K=%d" % (proto, kk), [traces[i] for i in idx], consts(ALL_W, 1, K=kk, reader=True))
        for j in sorted(rej):
            s, mode, wasbad = tmeta[idx[j]]
            nrej += 1
            ctx.spec_drift("%s %s: real execution is not a behaviour of Lifecycle.tla (%s)%s" % (
                s.key, mode_key(mode), diag.get(j, "")[:300], " - observation also violates the property" if wasbad else " - every stated post-condition holds"))
    ctx.cov["traces_rejected"] = nrej
    # spec -> code coverage: every crash point / reader position TLC enumerated was executed for every matching scenario
    ctx.cov["tlc_terminal_states"] = len(terms)
    ctx.cov["cases_executed"] = len(cases) + len(scens)
    ctx.cov["spec_ops_seen"] = sorted(ops)
    for s in scens[:3]:
        ctx.sample({"scenario": s.key, "recorded_protocol": [(e["k"], e["op"], [list(to_role(p) or ()) for p in e["paths"]], e["n"]) for e in recs[s.key]["events"]]})
    for (s, mode, origin), out in list(zip(cases, results))[:: max(1, len(cases) // 3)][:3]:
        ctx.sample({"scenario": s.key, "mode": mode, "origin": origin, "result": out.get("res"), "targets": [(t[0], parse_target(out["_snap"].get(t[0]), t[3])[0]) for t in s.kw["targets"]]})
    # ---- binding self-test: the same pipeline must notice a torn target and a dropped step ---------------
    ctx.cov["binding_selftest"] = selftest(ctx, scens, recs)
    # ---- thorough: freeze == kill -9, strace audit ---------------------------------------------------------
    if not ctx.quick:
        hard_crosscheck(ctx, [c for c in cases if c[1].get("crash_at")], work, rnd, nprocs)
        audit(ctx, [s for s in scens if s.config == "default"])
    if mut:
        ctx.notes.append("VERIF_MUTATION=%s was active" % mut)


def selftest(ctx, scens, recs):
    s = next(x for x in scens if x.spec == "w_doc" and x.variant == "small-setitem" and x.config == "default")
    rec = recs[s.key]
    pre = snapshot(template(ctx, s))
    post = dict(rec["_snap"])
    rel = s.kw["targets"][0][0]
    torn = dict(post)
    torn[rel] = post[rel][: len(post[rel]) // 2]
    d1 = bool(judge_c10(s, pre, torn, {"crash_at": 2}, "crash", None))
    tk = tokens_of(s)
    good = {"scn": s.spec, "ev": spec_events(rec["events"]), "res": rec["res"], "disk": abstract_disk(post, tk), "rep": []}
    dropped = dict(good, ev=[e for e in good["ev"] if e["op"] != "close"])
    for i, e in enumerate(dropped["ev"]):
        e = dict(e)
    wrongdisk = dict(good, disk=abstract_disk(torn, tk))
    rej, _ = validate_traces(ctx, "C10 selftest", [good, dropped, wrongdisk], consts(ALL_W, 1))
    return {"torn_target_flagged_by_judge": d1, "good_trace_accepted": 0 not in rej, "dropped_step_rejected": 1 in rej, "corrupted_disk_rejected": 2 in rej}


def hard_crosscheck(ctx, crash_cases, work, rnd, nprocs):
    """freeze semantics == real process death: re-run a sample with os._exit at the crash point, compare the disks"""
    sample = rnd.sample(crash_cases, min(len(crash_cases), 400))
    a = core.pmap(run_case, [(template(ctx, s), work, s.key, m, {}) for s, m, _ in sample], procs=nprocs)
    b = core.pmap(run_case, [(template(ctx, s), work, s.key, dict(m, hard=True), {}) for s, m, _ in sample], procs=nprocs)
    diff = 0
    for (s, m, _), x, y in zip(sample, a, b):
        if "machinery" in x or "machinery" in y:
            raise core.MachineryError("hard-exit cross-check failed to run: %s %s" % (x.get("machinery"), y.get("machinery")))
        def gzval(v):
            try:
                return canon(json.loads(gzip.decompress(v).decode()))
            except Exception:  # noqa
                return None

        def norm(snap):
            # uuid temp names are normalised; a gzip stream differs between two runs in its mtime header bytes and in the key
            # order of the cache dictionary (pool threads), so it is compared by length and parsed value
            return {UUID_TMP.sub("._<U>_", k): (("gz", len(v), gzval(v)) if isinstance(v, bytes) and ".gz" in k else v) for k, v in snap.items()}
        nx, ny = norm(x["_snap"]), norm(y["_snap"])
        if nx != ny:
            diff += 1
            ctx.notes.append("freeze vs kill differ: %s %s: %s" % (s.key, mode_key(m), [k for k in sorted(set(nx) | set(ny)) if nx.get(k, 0) != ny.get(k, 0)][:4]))
    ctx.cov["freeze_vs_kill"] = {"compared": len(sample), "different": diff}
    if diff:
        raise core.MachineryError("freeze semantics of the shim differ from a real process exit in %d of %d cases: %s" % (diff, len(sample), ctx.notes[-2:]))


_AUDIT_SCRIPT = r"""
import sys, os, json
sys.path[:0] = %(path)r
os.environ["VERIF_MUTATION"] = %(mut)r
from harness.drivers import %(mod)s as D
from harness.fsshim import Shim
scen = [s for s in D.%(fn)s() if s.key == %(key)r][0]
import tempfile, logging
logging.disable(logging.CRITICAL)
box = %(box)r
tempfile.tempdir = os.path.join(box, "tmp")
os.chdir(box)
op = scen.setup(box)
os.stat(os.path.join(box, "AUDIT-BEGIN")) if os.path.exists("/nonexistent") else None
try:
    os.stat(os.path.join(box, "AUDIT-BEGIN"))
except OSError:
    pass
sh = Shim(box, listing=scen.listing)
sh.install()
try:
    op()
except BaseException as e:
    pass
finally:
    sh.uninstall()
try:
    os.stat(os.path.join(box, "AUDIT-END"))
except OSError:
    pass
json.dump({"events": sh.events}, open(%(out)r, "w"))
"""


def audit(ctx, scens, mod="c10", fn="c10_scenarios"):
    """strace audit: every mutating syscall under the sandbox between the two markers must have a shim event"""
    from .. import fsshim
    import subprocess
    res = {"scenarios": 0, "syscalls": 0, "missing": [], "extra": []}
    for s in scens:
        work = os.path.realpath(ctx.mkdtemp("audit"))
        box = os.path.join(work, "box")
        shutil.copytree(template(ctx, s), box, symlinks=True)
        script, out, st = os.path.join(work, "run.py"), os.path.join(work, "events.json"), os.path.join(work, "strace.out")
        with open(script, "w") as f:
            f.write(_AUDIT_SCRIPT % {"path": [core.VERIF, os.environ.get("VERIF_REPO", "/repo")], "mod": mod, "fn": fn, "key": s.key, "box": box, "out": out,
                                     "mut": os.environ.get("VERIF_MUTATION", "")})
        p = subprocess.run(["strace", "-f", "-y", "-s", "0", "-e", "trace=%file,write,ftruncate", "-o", st, sys.executable, script],
                           cwd=work, stdout=subprocess.PIPE, stderr=subprocess.STDOUT, timeout=300)
        if p.returncode != 0 or not os.path.exists(out):
            raise core.MachineryError("strace audit run failed for %s: %s" % (s.key, p.stdout.decode()[-1500:]))
        text = open(st, errors="replace").read()
        lo, hi = text.find("AUDIT-BEGIN"), text.find("AUDIT-END")
        if lo < 0 or hi < 0:
            raise core.MachineryError("strace audit: markers not found for %s" % s.key)
        sysev = fsshim.parse_strace(text[lo:hi], box)
        shimev = fsshim.events_for_audit(json.load(open(out))["events"], box)
        norm = lambda t: (t[0], UUID_TMP.sub("._<U>_", t[1]), t[2])  # noqa
        a, b = [norm(t) for t in sysev], [norm(t) for t in shimev]
        res["scenarios"] += 1
        res["syscalls"] += len(a)
        if a != b:
            from collections import Counter
            ca, cb = Counter(a), Counter(b)
            res["missing"] += [list(x) for x in (ca - cb)][:5]
            res["extra"] += [list(x) for x in (cb - ca)][:5]
            if not (ca - cb) and not (cb - ca):
                res.setdefault("order_differs", []).append(s.key)
        shutil.rmtree(work, ignore_errors=True)
    ctx.cov["strace_audit"] = res
    if res["missing"]:
        raise core.MachineryError("strace audit: mutating syscalls without a shim event: %s" % res["missing"][:5])
    if res["extra"]:
        raise core.MachineryError("strace audit: shim events without a syscall: %s" % res["extra"][:5])


def replay(ctx, data):
    scen = [s for s in c10_scenarios() if s.key == data["scenario"]]
    if not scen:
        print("unknown scenario", data["scenario"])
        return 2
    s = scen[0]
    mode = data["mode"]
    work = os.path.realpath(ctx.mkdtemp("replay"))
    out = run_case((template(ctx, s), work, s, mode, {"session": bool(mode.get("crash_at"))}))
    if "machinery" in out:
        print("machinery:", out["machinery"])
        return 2
    pre = snapshot(template(ctx, s))
    bad = judge_c10(s, pre, out["_snap"], mode, out["res"], out.get("reader"), out.get("pre_paths"))
    sessions = ([("concurrent session", out["session"], out["_snap"])] if out.get("session") else []) + \
               [("session after the crash" if n == 0 else "updating session after the crash", x, out.get("_snap1" if n == 0 else "_snap2"))
                for n, x in enumerate(out.get("later") or [])]
    print("scenario", s.key, "mode", mode, "result", out["res"])
    for e in out["events"]:
        print("   step", e["k"], e["op"], e["paths"], e["n"], e["res"])
    for t in s.kw["targets"]:
        print("   target", t[0], "->", parse_target(out["_snap"].get(t[0]), t[3])[0])
    for what, se, snap_after in sessions:
        print("   %s: %s %s; its steps: %s; targets afterwards: %s" % (what, se["res"], se["detail"][:120],
              [(e["op"], e["paths"], e["res"]) for e in se["events"]], se["targets_after"]))
        bad += judge_session(s, what, se, pre, snap_after, out.get("pre_paths"), mode)
    for cond, text in bad:
        print("   VIOLATED:", cond, text)
    return 1 if bad else 0

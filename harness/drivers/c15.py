"""C15 - see spec/sync/Sync.tla and harness/syncutil.py (shared by C13, C14, C15).

C13 "a successful sync makes the destination a superset and touches nothing else"  : Superset FilesArrive DstOnlyUntouched SrcUntouched Idempotent NothingElse
C14 "never overwrites conflicts unless told to; failed syncs roll documents back"    : OverwriteIffStrategy ConflictLeavesFile DocOverwriteIffKeyStrategy DocRollbackExact
C15 "options are honoured: dry-run, deep, exclude, selection, parallel"              : DryRunFrame DeepByContent ExcludeFrame SelectionFrame OrderConfluent
Phases (syncutil.run_property): library front (generated cases, random deeper trees, scale cases) and the command line front
`signac sync` (cli_phase; Sync.tla section 1d; violations are prefixed "cli:").
This driver evaluates only the requirements of C15 (PROP = "C15" in the specification) and reports only those.
"""
from .. import syncutil

PROP = "C15"


def run(ctx):
    syncutil.run_property(ctx, PROP)


def replay(ctx, data):
    return syncutil.replay(ctx, data)

"""C07 - all query front ends, cursors and groupby agree with find_jobs (spec/query/Spelling.tla, GroupBy.tla).

spec -> code : TLC generates, for every filter of the bounded grammar, the closure of its spellings under the
               rewrite rules R1..R7 as concrete-syntax descriptors, checks that every spelling parses back to the
               same abstract filter (AllSpellingsDenote, CastRoundTrip) and exports the descriptors plus the mapping
               parse_filter_arg must return.  Every spelling is rendered mechanically and executed on real projects
               (find_jobs / parse_filter_arg + _find_job_ids / the real `signac find` main): same id set as the
               canonical spelling, type-exact parse result.  TLC enumerates groupby cases (corpus, cursor filter, key,
               default) with the expected partition (GroupBy) and the result of the conformant model; each is executed.
               Cursors: TLC exports the operation scripts (all 24 orders of contains / len / iter / item); they are applied to
               fresh cursors made from non-canonical spellings, every step recorded and judged by TLC against CursorView(S);
               for EVERY mapping / string spelling membership is asked first on the fresh cursor for every job.
code -> spec : groupby results of seeded random corpora / keys are recorded and judged by TLC (Disjoint / Covers /
               LabelIsOwnValue).
"""
import collections
import contextlib
import io
import json
import os
import random
import shutil
import sys

from .. import core, tlc
from .. import queryutil as Q
from ..jsonenc import type_exact_eq
from . import c06

SIG_G1 = "groupby:nested-key:first-component-stripped-rest-looked-up-as-literal-key"
SIG_G2 = "groupby:key-tuple-doc-before-sp:label-lists-sp-values-first"
_G = {}


# ---- probes -------------------------------------------------------------------------------------------
def probe_flags(ctx):
    sb = Q.Sandbox(ctx.mkdtemp("pg1"), [({"n": {"x": 1}}, {"b": "s"})])
    try:
        got = [(k, [j.id for j in g]) for k, g in sb.project.groupby("n.x")]
        fixed1 = got == [(1, sb.ids)]
    except KeyError:
        fixed1 = False
    except Exception:  # noqa: BLE001 - any other behaviour: the deviation as modelled is what the tree is compared with
        fixed1 = False
    sb = Q.Sandbox(ctx.mkdtemp("pg2"), [({"a": 1}, {"b": "s"})])
    try:
        fixed2 = [k for k, g in sb.project.groupby(("doc.b", "a"))] == [("s", 1)]
    except Exception:  # noqa: BLE001
        fixed2 = False
    return fixed1, fixed2


def consts(mode, qflags, gflags=None, **kw):
    c = c06.consts(mode, qflags)
    if gflags is not None:
        c["FixedG1"], c["FixedG2"] = tlc.lit(gflags[0]), tlc.lit(gflags[1])
    c.update(kw)
    return c


# ---- corpora over the keys the universe filters talk about ----------------------------------------------
_VA = [Q.ABS, 0, 1, 1.0, 2.5, True, False, None, "1", "ab", [1, 2], [1.0, 2], {"x": 1}, -1, -1.0,
       10, 1000, 7, 5.0, 0.5, -0.5, 0.25, -2, 1.5, 0.5, 10]       # the numbers with non-canonical token spellings (Spelling.tla NumberAtoms)
_VNX = [Q.ABS, 0, 1, 2.5, True, "ab", None, 10, 7]
_VDX = [Q.ABS, 0, 1, 1.0, True, "1", "ab", [1, 2], None, 10, 12.5]


def universe_corpus(rnd, n):
    jobs, seen = [], set()
    while len(jobs) < n:
        sp = {}
        a = rnd.choice(_VA)
        if a is not Q.ABS:
            sp["a"] = a
        r = rnd.random()
        if r < 0.55:
            x = rnd.choice(_VNX)
            sp["n"] = {} if x is Q.ABS else {"x": x}
        elif r < 0.65:
            sp["n"] = 1
        doc = {}
        x = rnd.choice(_VDX)
        if x is not Q.ABS:
            doc["x"] = x
        # keys whose names merely begin with a namespace word (Spelling.tla PrefixLikeFilters), in a heterogeneous schema
        for key in ("speed", "spx", "docking", "doc_x", "sp"):
            if rnd.random() < 0.45:
                sp[key] = rnd.choice([1, 1, 2, None, "ab"])
        if rnd.random() < 0.45:
            sp["species"] = rnd.choice([{"name": 1}, {"name": None}, {"name": 2}, {}])
        for key in ("spin", "docs", "doc"):
            if rnd.random() < 0.45:
                doc[key] = rnd.choice([1, 1, 2, None])
        k = json.dumps(sp, sort_keys=True)
        if k not in seen:
            seen.add(k)
            jobs.append((sp, doc))
    return jobs


# ---- executing spellings ----------------------------------------------------------------------------------
def _ids(sb, fn):
    try:
        ids = fn()
    except Exception as e:  # noqa: BLE001
        return "ERR:" + type(e).__name__
    ids = list(ids)
    if len(set(ids)) != len(ids):
        return "ERR:duplicate-ids"
    return sb.mask(ids)


def run_spelling(sb, sp, first=None):
    """id set (mask) selected by one spelling, through the front end the spelling belongs to.
    For the spellings that make a cursor (mapping, string) membership is asked FIRST, on the fresh cursor, for every job
    of the corpus and one job outside the project; the answers are stored in first["mask"] / first["foreign"]."""
    from signac.filterparse import parse_filter_arg
    p = sb.project
    if sp["form"] in ("py", "str"):
        flt = Q.render_node(sp["node"]) if sp["form"] == "py" else " ".join(Q.render_tokens(sp["toks"], compact=True))

        def go():
            cur = p.find_jobs(flt)
            if first is not None:
                first["mask"] = sum(1 << i for i, h in enumerate(handles(sb)) if h in cur)
                first["foreign"] = foreign(sb) in cur
            return [j.id for j in cur]
        return _ids(sb, go)
    toks = [json.dumps(Q.render_node(sp["node"]))] if sp["form"] == "json1" else Q.render_tokens(sp["toks"])
    with contextlib.redirect_stderr(io.StringIO()):
        return _ids(sb, lambda: p._find_job_ids(parse_filter_arg(toks) or None))   # the body of `signac find`


def handles(sb):
    """one job handle per corpus position, opened by state point (as a user holding a job would have it)"""
    if not hasattr(sb, "_handles"):
        sb._handles = [sb.project.open_job(sp) for sp, _ in sb.jobs]
        sb._foreign = sb.project.open_job({"never": "initialised"})
    return sb._handles


def foreign(sb):
    handles(sb)
    return sb._foreign


def spelled_filter(sp):
    return Q.render_node(sp["node"]) if sp["form"] == "py" else " ".join(Q.render_tokens(sp["toks"], compact=True))


def parse_of(sp):
    """what the real token parser returns for a token spelling"""
    from signac.filterparse import parse_filter, parse_filter_arg
    with contextlib.redirect_stderr(io.StringIO()):
        if sp["form"] == "str":
            return dict(parse_filter(" ".join(Q.render_tokens(sp["toks"], compact=True))))
        toks = [json.dumps(Q.render_node(sp["node"]))] if sp["form"] == "json1" else Q.render_tokens(sp["toks"])
        return parse_filter_arg(toks)


def cli_main_find(root, tokens):
    """the real `signac find` entry point, in process: returns the printed job ids"""
    import signac.__main__ as M
    old_cwd, old_argv = os.getcwd(), sys.argv
    out, err = io.StringIO(), io.StringIO()
    code = 0
    try:
        os.chdir(root)
        sys.argv = ["signac", "find"] + list(tokens)
        with contextlib.redirect_stdout(out), contextlib.redirect_stderr(err):
            try:
                M.main()
            except SystemExit as e:
                code = e.code or 0
    finally:
        os.chdir(old_cwd)
        sys.argv = old_argv
    if code:
        return "ERR:exit-%s" % code
    return [l.strip() for l in out.getvalue().splitlines() if l.strip()]


def _tok_shape(sp):
    if sp["form"] in ("py", "json1"):
        return sp["form"]
    parts = []
    for t in sp["toks"]:
        if t["k"] == "key":
            parts.append("key$" if t["key"][-1].startswith("$") and len(t["key"]) > 1 else "key")
        elif t["k"] == "json":
            parts.append("json")
        else:
            s = Q.uncps(t["cp"])
            parts.append("/re/" if s.startswith("/") else "!" if s == "!" else "raw")
    return sp["form"] + "(" + " ".join(parts) + ")" + (":" + sp["alt"] if sp.get("alt") else "")


def _parse_diff_kind(sp, want, got):
    """which kind of token is parsed differently (signature of a token-parser violation)"""
    if isinstance(got, str):
        return sp["form"] + ":" + got
    if sp["form"] == "json1" or not isinstance(got, dict):
        return sp["form"]
    wk, gk = list(want.items()), list(got.items())
    for i, (kw, vw) in enumerate(wk):
        if i >= len(gk) or gk[i][0] != kw or not type_exact_eq(gk[i][1], vw):
            if 2 * i + 1 >= len(sp["toks"]):
                return sp["form"] + ":lone-key"
            t = sp["toks"][2 * i + 1]
            if t["k"] == "json":
                return sp["form"] + ":json-token"
            txt = Q.uncps(t["cp"])
            if gk[i][0] != kw if i < len(gk) else True:
                return sp["form"] + ":key-token"
            if txt == "!":
                return sp["form"] + ":!"
            if txt.startswith("/"):
                return sp["form"] + ":/re/-token"
            import re
            if sp.get("alt"):
                cls = "noncanonical-number-literal"
            elif re.fullmatch(r"-?\d+", txt):
                cls = "int-literal"
            elif re.fullmatch(r"-?\d+\.\d+", txt):
                cls = "float-literal"
            else:
                cls = "word"
            return sp["form"] + ":raw-" + cls
    return sp["form"] + ":extra-entries"


def _spell_worker(item):
    """one corpus x all exported filters x all spellings"""
    idx, seed, n = item
    rnd = random.Random(seed)
    jobs = universe_corpus(rnd, n)
    root = os.path.join(_G["base"], "s%d" % idx)
    sb = Q.Sandbox(root, jobs)
    res = {"n": 0, "calls": 0, "ill": 0, "bad": [], "keys": set(), "jobs": jobs, "cursor": [], "main": 0, "first": 0}
    raises = {}

    def atom_raises(g):
        # ill-typed (corpus, filter) pairs are not cases: an ordering / $near atom that raises on this corpus makes the
        # whole query raise or not depending on evaluation order (observed by executing each atom on its own)
        if g["tag"] == "atom":
            k = json.dumps(Q.concrete(g), sort_keys=True)
            if k not in raises:
                raises[k] = isinstance(sb.find_mask(Q.concrete(g)), str)
            return raises[k]
        return any(atom_raises(x) for x in g["kids"])

    for li, line in enumerate(_G["spell_lines"]):
        f = line["filter"]
        canon = Q.concrete(f)
        if atom_raises(f):
            res["ill"] += 1
            continue
        base = _ids(sb, lambda: [j.id for j in sb.project.find_jobs(canon)])
        res["n"] += 1
        shape = Q.shape_of(f)
        nullish = "(null)" in shape or "$exists" in shape
        for si, sp in enumerate(line["spellings"]):
            first = {}
            got = run_spelling(sb, sp, first)
            res["calls"] += 1
            res["keys"].add(_tok_shape(sp) + "|" + shape)
            if got != base:
                res["bad"].append((li, si, base, got, "ids"))
            if sp["form"] in ("py", "str"):
                res["first"] += 1
                # membership asked first on the fresh cursor must describe the same id set (compared here; every
                # disagreement is re-recorded as a script and judged by TLC)
                suspicious = "mask" in first and (first["mask"] != base or first["foreign"])
                if suspicious or (nullish and idx < _G["nullish_corpora"]):
                    info = {"corpus": jobs, "filter": spelled_filter(sp), "canonical": canon}
                    scripts = _G["scripts"]
                    mfirst = next(x for x in scripts if x[0] == "contains")
                    res["cursor"].append(observe_cursor(sb, spelled_filter(sp), base, mfirst, rnd, dict(info, why="membership-first")))
                    if not suspicious:
                        res["cursor"].append(observe_cursor(sb, spelled_filter(sp), base, scripts[(li + si + idx) % len(scripts)], rnd, info))
        # the real command-line entry point on a few token spellings per corpus
        if (li + idx) % _G["main_every"] == 0:
            for si, sp in enumerate(line["spellings"]):
                if sp["form"] in ("cli", "json1"):
                    toks = [json.dumps(Q.render_node(sp["node"]))] if sp["form"] == "json1" else Q.render_tokens(sp["toks"])
                    if any(t.startswith("-") for t in toks):
                        continue
                    out = cli_main_find(root, toks)
                    res["main"] += 1
                    got = out if isinstance(out, str) else sb.mask(out)
                    if got != base:
                        res["bad"].append((li, si, base, got, "main"))
                    break
        # every non-canonical number token spelling through the real entry point on the first corpora
        if idx < _G["alt_main_corpora"]:
            for si, sp in enumerate(line["spellings"]):
                if sp["form"] == "cli" and sp.get("alt"):
                    toks = Q.render_tokens(sp["toks"])
                    if any(t.startswith("-") for t in toks):      # argparse would read it as an option
                        continue
                    out = cli_main_find(root, toks)
                    res["main"] += 1
                    got = out if isinstance(out, str) else sb.mask(out)
                    if got != base:
                        res["bad"].append((li, si, base, got, "main"))
        # a full operation script on one non-canonical cursor spelling; the scripts rotate so that all 24 orders are used
        if (li + 3 * idx) % _G["cursor_every"] == 0:
            pys = [sp for sp in line["spellings"] if sp["form"] in ("py", "str")]
            sp = pys[(li + idx) % len(pys)]
            script = _G["scripts"][(li // _G["cursor_every"] + 5 * idx) % len(_G["scripts"])]
            res["cursor"].append(observe_cursor(sb, spelled_filter(sp), base, script, rnd, {"corpus": jobs, "filter": spelled_filter(sp), "canonical": canon}))
    shutil.rmtree(root, ignore_errors=True)
    return res


# ---- cursor observations ------------------------------------------------------------------------------------
def observe_cursor(sb, flt, base_mask, script, rnd, info):
    """apply the operation blocks of `script` (from TLC: an order of contains / len / iter / item), then slices, to ONE
    fresh cursor and record every step; S is the id set selected by the canonical spelling (through another cursor)"""
    rec = {"S": Q.mask_to_list(base_mask), "steps": [], "script": list(script), "err": "", "_info": info}
    try:
        _observe_cursor(sb, flt, script, rnd, rec["steps"])
    except Exception as e:  # noqa: BLE001 - an exception out of a cursor operation is an observation, not a harness failure
        rec["err"] = type(e).__name__
    return rec


def _observe_cursor(sb, flt, script, rnd, steps):
    p = sb.project
    n = len(sb.ids)
    cur = p.find_jobs(flt)            # fresh: nothing has been asked of it yet
    pos = lambda job: sb.pos[job.id] + 1 if job.id in sb.pos else -1
    for block in list(script) + ["slice", "iter", "contains"]:
        if block == "len":
            steps.append({"op": "len", "a": [], "r": [len(cur)]})
        elif block == "iter":
            steps.append({"op": "iter", "a": [], "r": [pos(j) for j in cur]})
        elif block == "contains":
            for i, h in enumerate(handles(sb)):
                steps.append({"op": "contains", "a": [i + 1], "r": [int(h in cur)]})
            steps.append({"op": "contains", "a": [n + 7], "r": [int(foreign(sb) in cur)]})    # not a job of the project
        elif block == "item":
            for i in sorted({0, -1, n - 1, n, -n, -n - 1, 1, rnd.randrange(-2, n + 2)}):
                try:
                    steps.append({"op": "item", "a": [i], "r": [pos(cur[i])]})
                except IndexError:
                    steps.append({"op": "item", "a": [i], "r": [0]})
        elif block == "slice":
            for lo, hi, st in [(0, n, 1), (1, n + 3, 1), (-2, n, 1), (0, n, 2), (rnd.randrange(-3, n + 1), rnd.randrange(-3, n + 3), rnd.choice([1, 1, 2, 3]))]:
                steps.append({"op": "slice", "a": [lo, hi, st], "r": [pos(j) for j in cur[lo:hi:st]]})


CURSOR_FIELDS = ("len", "iter", "items", "slices", "contains")


def judge_cursors(ctx, recs, qflags, gflags, name, chunk=6000):
    out = []
    for c0 in range(0, len(recs), chunk):
        part = recs[c0:c0 + chunk]
        fin, fout = os.path.join(ctx.work, "%s_%d_in.ndjson" % (name, c0)), os.path.join(ctx.work, "%s_%d_out.ndjson" % (name, c0))
        with open(fin, "w") as fh:
            for r in part:
                fh.write(json.dumps({"S": r["S"], "steps": r["steps"]}) + "\n")
        cfgt = tlc.cfg(consts("cfile", qflags, gflags, NGCORP=1), init="GInitIdle", next="GNext", invariants=["SliceLaws"], postcondition="CursorJudge")
        r = tlc.run("query/GroupBy.tla", cfg_text=cfgt, workdir=ctx.work, env={"CURSOR_IN": fin, "CURSOR_OUT": fout}, coverage=False, allow_violation=False)
        ctx.add_tlc("GroupBy.tla CursorView: %d recorded cursor scripts judged step by step (%s)" % (len(part), name), r)
        res = [json.loads(l) for l in open(fout)]
        if len(res) != len(part):
            raise core.MachineryError("TLC judged %d of %d cursor records" % (len(res), len(part)))
        out += res
    return out


def cursor_scripts(ctx, qflags, gflags):
    """the operation orders to run, generated by TLC (GroupBy.tla Scripts)"""
    fout = os.path.join(ctx.work, "scripts.ndjson")
    cfgt = tlc.cfg(consts("cfile0", qflags, gflags, NGCORP=1), init="GInitIdle", next="GNext", invariants=["SliceLaws"], postcondition="ScriptExport")
    r = tlc.run("query/GroupBy.tla", cfg_text=cfgt, workdir=ctx.work, env={"CURSOR_SCRIPTS": fout}, coverage=False, allow_violation=False)
    ctx.add_tlc("GroupBy.tla CursorView: operation scripts (all orders of contains / len / iter / item) and slice / index laws", r)
    scripts = [json.loads(l) for l in open(fout)]
    if len(scripts) != 24:
        raise core.MachineryError("expected 24 cursor scripts, TLC exported %d" % len(scripts))
    return scripts


# ---- groupby ----------------------------------------------------------------------------------------------
def key_to_py(K):
    if K["kind"] == "str":
        return ".".join(K["keys"][0])
    if K["kind"] == "tuple":
        return tuple(".".join(c) for c in K["keys"])
    if K["kind"] == "none":
        return None
    c = K["keys"][0]
    if K["fn"] == "const":
        return lambda job: 7
    if c[0] == "doc":
        return lambda job: job.document.get(c[-1], 0)
    return lambda job: job.cached_statepoint.get(c[-1], 0)


def key_text(K, d):
    k = key_to_py(K)
    k = ("<callable %s %s>" % (K["fn"], ".".join(K["keys"][0]))) if callable(k) else repr(k)
    return "groupby(%s%s)" % (k, "" if d is Q.ABS else ", default=%r" % (d,))


def _plain(x):
    if isinstance(x, tuple):
        return [_plain(y) for y in x]
    if hasattr(x, "_to_base"):
        return x._to_base()
    if callable(x) and not isinstance(x, (int, float, str)):
        return x()
    return x


def run_groupby(sb, flt, K, d):
    """real (label, members) pairs in the result format of GroupBy.tla (positions, wire labels)"""
    cur = sb.project.find_jobs(flt)
    try:
        kw = {} if d is Q.ABS else {"default": d}
        import warnings
        with warnings.catch_warnings():
            warnings.simplefilter("ignore")
            pairs = [(lab, [j.id for j in grp]) for lab, grp in cur.groupby(key_to_py(K), **kw)]
    except Exception as e:  # noqa: BLE001
        return {"err": type(e).__name__, "groups": []}
    groups = []
    for lab, ids in pairs:
        if K["kind"] == "none":
            w = {"t": "id", "n": sb.pos.get(lab, -1) + 1, "d": 1, "s": [], "l": [], "m": []}
        else:
            w = Q.py_to_val(_plain(lab))
        groups.append({"label": w, "members": [sb.pos[i] + 1 for i in ids]})
    return {"err": "", "groups": groups}


def same_result(real, exp):
    """comparison only: same error, same partition, Python-equal labels"""
    if real["err"] != exp["err"]:
        return False
    a = {tuple(sorted(g["members"])): g["label"] for g in real["groups"]}
    b = {tuple(sorted(g["members"])): g["label"] for g in exp["groups"]}
    if len(a) != len(real["groups"]) or a.keys() != b.keys():
        return False
    for k in a:
        x, y = a[k], b[k]
        if x["t"] == "id" or y["t"] == "id":
            if (x["t"], x["n"]) != (y["t"], y["n"]):
                return False
        elif Q.val_to_py(x) != Q.val_to_py(y):
            return False
    return True


def _group_worker(item):
    ci, corpus = item
    jobs = Q.corpus_to_py(corpus)
    root = os.path.join(_G["base"], "g%d" % ci)
    sb = Q.Sandbox(root, jobs)
    out = []
    for case in _G["gcases"].get(ci + 1, []):
        flt = Q.concrete(case["sel"])
        d = Q.val_to_py(case["default"])
        real = run_groupby(sb, flt, case["key"], d)
        selreal = sb.find_mask(flt)
        if same_result(real, case["want"]):
            verdict = "ok"
        elif same_result(real, case["impl"]):
            verdict = "impl"
        else:
            verdict = "other"
        out.append((verdict, real, Q.mask_to_list(selreal)))
    shutil.rmtree(root, ignore_errors=True)
    return jobs, out


def _rand_key(rnd):
    singles = [["a"], ["sp", "a"], ["b"], ["doc", "x"], ["doc", "y"], ["n", "x"], ["sp", "n", "x"], ["doc", "n", "x"], ["c"], ["sp", "c"]]
    r = rnd.random()
    if r < 0.45:
        return {"kind": "str", "keys": [rnd.choice(singles)], "fn": ""}
    if r < 0.8:
        return {"kind": "tuple", "keys": rnd.sample(singles, rnd.choice([1, 2, 2, 3])), "fn": ""}
    if r < 0.88:
        return {"kind": "none", "keys": [], "fn": ""}
    return {"kind": "call", "keys": [rnd.choice([["a"], ["b"], ["doc", "x"]])], "fn": rnd.choice(["getor0", "const"])}


def _grec_worker(item):
    idx, seed, nk = item
    rnd = random.Random(seed)
    # scalar-valued corpus so that labels are sortable reasonably often
    jobs, seen = [], set()
    for _ in range(rnd.randrange(1, 7)):
        pool = rnd.choice([[0, 1, 2, 1.0, True, 2.5], ["u", "v", "w"], [0, 1, "u", None]])
        sp = {k: rnd.choice(pool) for k in ["a", "b", "c"] if rnd.random() < 0.75}
        if rnd.random() < 0.5:
            sp["n"] = {"x": rnd.choice(pool)}
        if rnd.random() < 0.2:
            sp["x"] = rnd.choice(pool)
        doc = {k: rnd.choice(pool) for k in ["x", "y"] if rnd.random() < 0.6}
        if rnd.random() < 0.3:
            doc["n"] = {"x": rnd.choice(pool)}
        key = json.dumps(sp, sort_keys=True)
        if key not in seen:
            seen.add(key)
            jobs.append((sp, doc))
    root = os.path.join(_G["base"], "r%d" % idx)
    sb = Q.Sandbox(root, jobs)
    recs = []
    for _ in range(nk):
        f = Q.rand_filter(rnd, jobs, rnd.choice([1, 1, 2])) if rnd.random() < 0.6 else {"tag": "all", "kids": []}
        flt = Q.py_concrete(f)
        sel = sb.find_mask(flt)
        if isinstance(sel, str):
            continue
        K = _rand_key(rnd)
        d = Q.ABS if K["kind"] in ("none", "call") or rnd.random() < 0.5 else rnd.choice([0, -1, "u", 2.5])
        real = run_groupby(sb, flt, K, d)
        recs.append({"corpus": Q.corpus_to_wire(jobs), "filter": Q.filter_to_wire(f), "key": K, "default": Q.py_to_val(d),
                     "selgiven": True, "sel": Q.mask_to_list(sel), "err": real["err"], "groups": real["groups"],
                     "_info": {"corpus": jobs, "filter": flt, "key": K, "default": None if d is Q.ABS else d, "has_default": d is not Q.ABS}})
    shutil.rmtree(root, ignore_errors=True)
    return recs


def judge_groups(ctx, recs, qflags, gflags, name, chunk=3000):
    out = []
    for c0 in range(0, len(recs), chunk):
        part = recs[c0:c0 + chunk]
        fin, fout = os.path.join(ctx.work, "%s_%d_in.ndjson" % (name, c0)), os.path.join(ctx.work, "%s_%d_out.ndjson" % (name, c0))
        with open(fin, "w") as fh:
            for r in part:
                fh.write(json.dumps({k: v for k, v in r.items() if k != "_info"}) + "\n")
        cfgt = tlc.cfg(consts("gfile", qflags, gflags, NGCORP=1), init="GInitIdle", next="GNext", invariants=["SliceLaws"], postcondition="GJudge")
        r = tlc.run("query/GroupBy.tla", cfg_text=cfgt, workdir=ctx.work, env={"GROUP_IN": fin, "GROUP_OUT": fout}, coverage=False, allow_violation=False)
        ctx.add_tlc("GroupBy.tla file mode: %d recorded groupby results judged (%s)" % (len(part), name), r)
        res = [json.loads(l) for l in open(fout)]
        if len(res) != len(part):
            raise core.MachineryError("TLC judged %d of %d groupby records" % (len(res), len(part)))
        out += res
    return out


def group_violation(ctx, info, v, real, source, seen):
    """a recorded / replayed real groupby result TLC could not explain: which stated post-condition is false?"""
    K = info["key"]
    kind = K["kind"] + ("-nested" if any(len(c) > (2 if c[0] in ("sp", "doc") else 1) for c in K["keys"]) else "") + ("+default" if info["has_default"] else "")
    failing = [n for n in ("noerror", "disjoint", "covers", "labelown") if not v[n]]
    text = "%s on find_jobs(%s) over %r returned %s; the specification expects %s" % (
        key_text(K, info["default"] if info["has_default"] else Q.ABS), json.dumps(info["filter"]), info["corpus"],
        real_text(real), real_text(v["want"]))
    if failing:
        sig = "groupby:%s:%s" % ("+".join(failing), kind)
        if sig not in seen:
            seen.add(sig)
            ctx.violation(sig, text + " [violated: %s; %s]" % (", ".join(failing), source), dict(info, check="groupby", want=v["want"]))
    else:
        ctx.spec_drift("groupby result differs from the model but Disjoint/Covers/LabelIsOwnValue hold: " + text[:300])


def real_text(r):
    if r["err"]:
        return r["err"]
    return str([(("id@%d" % g["label"]["n"]) if g["label"]["t"] == "id" else Q.val_to_py(g["label"]), g["members"]) for g in r["groups"]])


# ---- main ---------------------------------------------------------------------------------------------------
def run(ctx):
    quick = ctx.quick
    procs = workers = int(os.environ.get("VERIF_PROCS", "16"))
    ctx.assumptions += ["json.dumps / str.join (rendering of spelling descriptors)", "the re engine, float repr of small dyadic rationals",
                        "TLC and its Json module; os.listdir order not controlled"]
    ctx.cov["rule"] = ("spellings: case = (filter, spelling descriptor) from Spellings(f) for every atom of the bounded grammar plus a seeded sample of compound "
                       "filters, each executed on seeded corpora over the same keys; distinct = (front end + token shape, operator/argument-type structure of the filter). "
                       "cursor: one script record per (corpus, filter, spelling, operation order) sample - all 24 orders; membership-first for every cursor spelling; all spellings of null / $exists filters. groupby: case = (corpus, cursor filter, key, default) enumerated by TLC over all keys "
                       "(top-level, nested, sp./doc. prefixed, tuples, None, callables) x defaults; plus seeded random records judged by TLC; labels restricted to sortable ones")
    qflags = c06.probe_flags(ctx)
    gflags = probe_flags(ctx)
    ctx.cov["deviation_flags"] = {"FixedD1": qflags[0], "FixedD2": qflags[1], "FixedD3": qflags[2], "FixedG1": gflags[0], "FixedG2": gflags[1]}
    rnd = random.Random(ctx.seed)

    # ---- 1. spellings ------------------------------------------------------------------------------------------
    sout = os.path.join(ctx.work, "spell.ndjson")
    cfgt = tlc.cfg(consts("spell", qflags, NSPELL=120 if quick else 1500), init="SpellInit", next="SpellNext",
                   invariants=["AllSpellingsDenote", "CanonicalIsConcrete", "CastRoundTrip", "CastAltTokens", "CastGrammar", "CastOrder"], postcondition="SpellExport")
    r = tlc.run("query/Spelling.tla", cfg_text=cfgt, workdir=ctx.work, workers=workers, seed=ctx.seed % 10**6, env={"SPELL_OUT": sout}, coverage=False, allow_violation=False, heap="8g")
    ctx.add_tlc("Spelling.tla: every initial state one filter; all spellings parse back to it (AllSpellingsDenote), Cast/Token round trip", r)
    lines = [json.loads(l) for l in open(sout)]
    nsp = sum(len(l["spellings"]) for l in lines)
    if len(lines) != r.distinct or nsp < 10 * len(lines):
        raise core.MachineryError("spelling export: %d filters / %d spellings for %d TLC states" % (len(lines), nsp, r.distinct))
    forms = collections.Counter(sp["form"] for l in lines for sp in l["spellings"])
    alts = collections.Counter(sp["alt"] for l in lines for sp in l["spellings"] if sp["alt"])
    ctx.cov["spellings"] = {"filters": len(lines), "spellings": nsp, "by_form": dict(forms), "noncanonical_number_tokens": dict(alts)}
    if len(alts) < 8:
        raise core.MachineryError("vacuous: non-canonical number token kinds generated: %r" % dict(alts))

    # 1a. the token parser, type-exact, once per token spelling (independent of any corpus)
    parse_bad = {}
    nparse = 0
    for li, line in enumerate(lines):
        for sp in line["spellings"]:
            if sp["form"] == "py":
                continue
            want = Q.render_node(sp["parsed"])
            try:
                got = parse_of(sp)
            except Exception as e:  # noqa: BLE001
                got = "ERR:" + type(e).__name__
            nparse += 1
            if isinstance(got, str) or not type_exact_eq(got, want):
                key = _parse_diff_kind(sp, want, got)
                cur = parse_bad.get(key)
                size = len(json.dumps(want))
                if cur is None or size < cur[0]:
                    parse_bad[key] = (size, sp, want, got)
    for key, (_, sp, want, got) in sorted(parse_bad.items())[:8]:
        ctx.violation("parse_filter_arg:wrong-mapping:" + key, "%s is parsed as %r, the specification of the token syntax (Cast / ParseTokens) gives %r" % (Q.spelling_text(sp), got, want),
                      {"check": "parse", "spelling": sp, "want": want})
    ctx.count(n=nparse)

    # 1b. every spelling on real projects
    ncorp = 6 if quick else 40
    scripts = cursor_scripts(ctx, qflags, gflags)
    _G.update(base=ctx.mkdtemp("spell"), spell_lines=lines, main_every=40 if quick else 25, cursor_every=5 if quick else 4, alt_main_corpora=1 if quick else 3,
              scripts=scripts, nullish_corpora=1 if quick else 4)
    items = [(i, rnd.randrange(2**40), rnd.choice([3, 4, 5, 6])) for i in range(ncorp)]
    results = core.pmap(_spell_worker, items, procs=procs, chunks=1)
    cursor_recs = []
    by_key = {}
    ncalls = ncases = nmain = nfirst = 0
    for res in results:
        ncalls += res["calls"]; ncases += res["n"]; nmain += res["main"]; nfirst += res["first"]
        for k in res["keys"]:
            ctx.count(k, n=0)
        cursor_recs += res["cursor"]
        for li, si, base, got, how in res["bad"]:
            sp, f = lines[li]["spellings"][si], lines[li]["filter"]
            key = (how, sp["form"] + (":noncanonical-number-token" if sp.get("alt") else ""), tuple(sorted(Q.ops_of(f))))
            size = (Q.fsize(f), len(json.dumps(sp)))
            if key not in by_key or size < by_key[key][0]:
                by_key[key] = (size, res["jobs"], sp, f, base, got)
    keys = sorted(by_key, key=lambda k: (by_key[k][0], k))
    minimal = [k for k in keys if not any(o[0] == k[0] and o[1] == k[1] and set(o[2]) < set(k[2]) for o in keys)]
    for k in minimal[:6]:
        _, jobs, sp, f, base, got = by_key[k]
        how = "the `signac find` entry point" if k[0] == "main" else "the query"
        ctx.violation("spelling:%s:%s:%s" % (k[0], k[1], Q.shape_of(f)),
                      "%s selects %s through %s but the canonical spelling find_jobs(%s) selects positions %s on %r" % (
                          Q.spelling_text(sp), Q.mask_to_list(got), how, json.dumps(Q.concrete(f)), Q.mask_to_list(base), jobs),
                      {"check": "spelling", "corpus": jobs, "spelling": sp, "canonical": Q.concrete(f), "main": k[0] == "main"})
    ctx.count(n=ncalls, traces=ncalls)
    ctx.cov["spellings"].update({"executed": ncalls, "cases": ncases, "through_real_main": nmain, "parse_results_compared": nparse, "corpora": ncorp})
    ex = lines[len(lines) // 2]
    ctx.sample({"filter": Q.concrete(ex["filter"]), "some_spellings_from_TLC": [Q.spelling_text(s) for s in ex["spellings"][:: max(1, len(ex["spellings"]) // 6)]]})

    # ---- 2. cursor views, judged by TLC -----------------------------------------------------------------------------
    cv = judge_cursors(ctx, cursor_recs, qflags, gflags, "cursor")
    seen = set()
    used_scripts = set()
    for rec, v in zip(cursor_recs, cv):
        used_scripts.add(tuple(rec["script"]))
        info = rec["_info"]
        if rec["err"]:
            if "raises" not in seen:
                seen.add("raises")
                ctx.violation("cursor:raises-" + rec["err"], "find_jobs(%r) on %r: a cursor operation raises %s although the canonical spelling selects %s" % (
                    info["filter"], info["corpus"], rec["err"], rec["S"]), dict(info, check="cursor", script=rec["script"], S=rec["S"]))
            continue
        if v["firstbad"]:
            st = rec["steps"][v["firstbad"] - 1]
            field = {"item": "items", "slice": "slices"}.get(st["op"], st["op"])
            before = list(dict.fromkeys(x["op"] for x in rec["steps"][:v["firstbad"] - 1] if x["op"] != st["op"]))
            when = "first-on-fresh-cursor" if not before else "after-" + "+".join(before)
            sig = "cursor:%s:%s" % (field, when if field == "contains" else "any-order")
            if sig not in seen:
                seen.add(sig)
                ctx.violation(sig, "find_jobs(%r) on %r, operations in the order %s: step %d %s%r -> %r does not describe the id set %s selected by find_jobs(%s) (all steps: %s)" % (
                    info["filter"], info["corpus"], rec["script"], v["firstbad"], st["op"], tuple(st["a"]), st["r"], rec["S"], json.dumps(info.get("canonical")),
                    [(x["op"], x["a"], x["r"]) for x in rec["steps"]][:40]),
                    dict(info, check="cursor", script=rec["script"], S=rec["S"]))
    ctx.count(n=len(cursor_recs), traces=len(cursor_recs))
    for rec in cursor_recs:
        ctx.count("cursor|%d|%s" % (len(rec["S"]), ",".join(rec["script"])), n=0)
    ctx.cov["cursor_records"] = {"scripts_judged_by_TLC": len(cursor_recs), "distinct_operation_orders": len(used_scripts),
                                 "membership_first_on_fresh_cursor_compared": nfirst}
    if len(used_scripts) < 24 or nfirst < 1000:
        raise core.MachineryError("vacuous cursor part: %r" % ctx.cov["cursor_records"])
    mid = next(r for r in cursor_recs if r["script"][0] == "contains" and len(r["S"]) >= 1)
    ctx.sample({"cursor_script": mid["script"], "filter": mid["_info"]["filter"], "S": mid["S"], "steps": [(x["op"], x["a"], x["r"]) for x in mid["steps"]][:14], "tlc_verdict": cv[cursor_recs.index(mid)]})

    # ---- 3. groupby: TLC's requirement on the conformant model, then all generated cases ---------------------------
    gout, gcorp = os.path.join(ctx.work, "group.ndjson"), os.path.join(ctx.work, "gcorp.ndjson")
    genv = {"GROUP_OUT": gout, "GROUP_CORPORA": gcorp}
    gc = consts("group", qflags, gflags, NGCORP=6 if quick else 60)
    if not all(gflags):
        cfgt = tlc.cfg(gc, init="GInit", next="GNext", invariants=["ImplMeetsReq"])
        r = tlc.run("query/GroupBy.tla", cfg_text=cfgt, workdir=ctx.work, workers=workers, seed=ctx.seed % 10**6, env=genv, coverage=False, allow_violation=True)
        ctx.add_tlc("GroupBy.tla: requirement ImplMeetsReq on the conformant model (deviations G1/G2 active)", r)
        if not r.violation:
            raise core.MachineryError("groupby deviations active but TLC found ImplMeetsReq to hold")
        st = Q.violating_state(r)
        jobs = Q.corpus_to_py(st["corpus"])
        sb = Q.Sandbox(ctx.mkdtemp("gcex"), jobs)
        real = run_groupby(sb, Q.concrete(st["stack"][-1]), st["gkey"], Q.val_to_py(st["gdef"]))
        ctx.sample({"tlc_counterexample_for": "ImplMeetsReq", "corpus": jobs, "call": key_text(st["gkey"], Q.val_to_py(st["gdef"])), "real_result": real_text(real)})
        ctx.count(("gcex",), traces=1)
    cfgt = tlc.cfg(gc, init="GInit", next="GNext", invariants=["ReqDisjoint", "ReqCovers", "ReqLabelIsOwnValue", "ReqNoSharedLabel", "NoDeviationIsReferenceG", "SliceLaws"], postcondition="GExport")
    r = tlc.run("query/GroupBy.tla", cfg_text=cfgt, workdir=ctx.work, workers=workers, seed=ctx.seed % 10**6, env=genv, coverage=False, allow_violation=False)
    ctx.add_tlc("GroupBy.tla: every initial state one (corpus, cursor filter, key, default) case; partition invariants checked, expected result exported", r)
    gcases = [json.loads(l) for l in open(gout)]
    corpora = [json.loads(l) for l in open(gcorp)]
    if len(gcases) != r.distinct:
        raise core.MachineryError("groupby export has %d cases, TLC %d states" % (len(gcases), r.distinct))
    bycorp = collections.defaultdict(list)
    for c in gcases:
        bycorp[c["ci"]].append(c)
    _G.update(base=ctx.mkdtemp("group"), gcases=bycorp)
    gres = core.pmap(_group_worker, list(enumerate(corpora)), procs=procs, chunks=1)
    devs = collections.Counter()
    dev_sample = {}
    rejudge = []
    for ci, (jobs, outs) in enumerate(gres):
        for case, (verdict, real, selreal) in zip(bycorp.get(ci + 1, []), outs):
            d = Q.val_to_py(case["default"])
            info = {"corpus": jobs, "filter": Q.concrete(case["sel"]), "key": case["key"], "default": None if d is Q.ABS else d, "has_default": d is not Q.ABS}
            ctx.count("g|%s|%s|%s|%d" % (json.dumps(case["key"]["keys"]), case["key"]["kind"] + case["key"]["fn"], d is Q.ABS, len(case["want"]["groups"])), n=0)
            if verdict == "ok":
                if case["dev"] != "ok":
                    ctx.spec_drift("model says %s deviates (%s) on %r but the real result equals the reference" % (key_text(case["key"], d), case["dev"], jobs))
                continue
            if verdict == "impl":
                devs[case["dev"]] += 1
                size = (len(jobs), len(json.dumps(case["key"])), d is not Q.ABS)
                if case["dev"] not in dev_sample or size < dev_sample[case["dev"]][0]:
                    dev_sample[case["dev"]] = (size, info, real, case["want"])
                continue
            rejudge.append({"corpus": Q.corpus_to_wire(jobs), "filter": case["sel"], "key": case["key"], "default": case["default"], "selgiven": True,
                            "sel": selreal if isinstance(selreal, list) else [], "err": real["err"], "groups": real["groups"], "_info": info})
    ctx.count(n=len(gcases), traces=len(gcases))
    ctx.cov["groupby"] = {"generated_cases": len(gcases), "corpora": len(corpora), "deviation_cases": dict(devs), "not_matching_model": len(rejudge)}
    ex = next(c for c in gcases if len(c["want"]["groups"]) >= 2 and c["key"]["kind"] == "tuple")
    ctx.sample({"groupby_case": key_text(ex["key"], Q.val_to_py(ex["default"])), "corpus": Q.corpus_to_py(corpora[ex["ci"] - 1]), "cursor_filter": Q.concrete(ex["sel"]), "expected_from_TLC": real_text(ex["want"])})

    # ---- 4. groupby code -> spec -----------------------------------------------------------------------------------
    _G.update(base=ctx.mkdtemp("grec"))
    items = [(i, rnd.randrange(2**40), 10) for i in range(120 if quick else 1500)]
    grecs = [x for xs in core.pmap(_grec_worker, items, procs=procs) for x in xs]
    allrecs = grecs + rejudge
    gv = judge_groups(ctx, allrecs, qflags, gflags, "groupby")
    gstats = collections.Counter()
    seen = set()
    for rec, v in zip(allrecs, gv):
        if not v["applicable"]:
            gstats["not-applicable(ill-typed, unsortable labels, or cursor subject to C06 deviations)"] += 1
            continue
        gstats["judged"] += 1
        gstats[v["explain"]] += 1
        real = {"err": rec["err"], "groups": rec["groups"]}
        if v["explain"] == "ok":
            continue
        if v["explain"] in ("G1", "G2", "G1+G2"):
            devs[v["explain"]] += 1
            info = rec["_info"]
            size = (len(info["corpus"]), len(json.dumps(info["key"])), info["has_default"])
            if v["explain"] not in dev_sample or size < dev_sample[v["explain"]][0]:
                dev_sample[v["explain"]] = (size, info, real, v["want"])
            continue
        group_violation(ctx, rec["_info"], v, real, "TLC verdict on the real result", seen)
    ctx.count(n=gstats["judged"], traces=gstats["judged"])
    ctx.cov["groupby"]["recorded"] = dict(gstats)
    if gstats["judged"] < 200:
        raise core.MachineryError("too few applicable groupby records: %r" % dict(gstats))
    for lab, (_, info, real, want) in sorted(dev_sample.items()):
        for sig, tag in ((SIG_G1, "G1"), (SIG_G2, "G2")):
            if tag in lab.split("+"):
                ctx.violation(sig, "%s on find_jobs(%s) over %r returns %s; every group's label must be its members' own value: %s (deviation %s, %d cases)" % (
                    key_text(info["key"], info["default"] if info["has_default"] else Q.ABS), json.dumps(info["filter"]), info["corpus"], real_text(real), real_text(want), lab, devs[lab]),
                    dict(info, check="groupby", want=want))

    # ---- 4b. the command line front end: simplified spelling = its JSON reading (spec/query/QueryCli.tla) ------------------
    from .. import querycli
    querycli.phase(ctx, qflags, "c07", procs)

    # ---- 5. binding self-tests ---------------------------------------------------------------------------------------
    st = {}
    # (a) a corrupted spelling descriptor (doc key spelled as a state point key) must select other jobs somewhere
    line = next(l for l in lines if l["filter"]["tag"] == "atom" and l["filter"]["path"] == ["doc", "x"] and l["filter"]["op"] == "$exists" and l["filter"]["arg"]["n"] == 1)
    sp = json.loads(json.dumps(next(s for s in line["spellings"] if s["form"] == "py" and s["node"]["items"][0]["key"] == ["doc", "x"])))
    sp["node"]["items"][0]["key"] = ["x"]
    sb = Q.Sandbox(ctx.mkdtemp("self"), [({"a": 1}, {"x": 1}), ({"a": 2}, {})])
    st["corrupted_spelling_detected"] = run_spelling(sb, sp) != sb.find_mask(Q.concrete(line["filter"]))
    # (b) corrupted cursor records and (c) corrupted groupby records must be rejected by TLC
    good = [r for r, v in zip(cursor_recs, cv) if not r["err"] and all(v[k] for k in CURSOR_FIELDS) and len(r["S"]) >= 2][:6]
    bad = []
    for i, r0 in enumerate(good):
        c = json.loads(json.dumps({k: v for k, v in r0.items() if k != "_info"}))
        c["_info"] = {}
        op = ("len", "contains", "item")[i % 3]
        stp = next(x for x in c["steps"] if x["op"] == op and (op != "item" or x["r"][0] != 0))
        stp["r"] = [stp["r"][0] + 1] if op == "len" else [1 - stp["r"][0]] if op == "contains" else [0]
        bad.append(c)
    bv = judge_cursors(ctx, bad, qflags, gflags, "cursor-selftest")
    st["corrupted_cursor_records_rejected_by_TLC"] = "%d/%d" % (sum(1 for v in bv if not all(v[k] for k in CURSOR_FIELDS)), len(bad))
    goodg = [r for r, v in zip(allrecs, gv) if v["applicable"] and v["explain"] == "ok" and len(r["groups"]) >= 2][:6]
    badg = []
    for i, r0 in enumerate(goodg):
        c = json.loads(json.dumps({k: v for k, v in r0.items() if k != "_info"}))
        if i % 2 == 0:
            c["groups"][1]["members"].append(c["groups"][0]["members"][0])      # a job in two groups
        else:
            c["groups"] = c["groups"][1:]                                         # a group dropped
        badg.append(c)
    bgv = judge_groups(ctx, badg, qflags, gflags, "groupby-selftest")
    st["corrupted_groupby_records_rejected_by_TLC"] = "%d/%d" % (sum(1 for v in bgv if v["explain"] == "unexplained" and not (v["disjoint"] and v["covers"] and v["labelown"])), len(badg))
    st.update(ctx.cov.get("binding_selftest") or {})
    ctx.cov["binding_selftest"] = st
    if not st["corrupted_spelling_detected"] or st["corrupted_cursor_records_rejected_by_TLC"] != "%d/%d" % (len(bad), len(bad)) or not bad \
            or st["corrupted_groupby_records_rejected_by_TLC"] != "%d/%d" % (len(badg), len(badg)) or not badg:
        if not ctx.violations:      # on a tree that already violates the property the self-test's own premises may not hold
            raise core.MachineryError("binding self-test failed: %r" % st)
    ctx.cov["exhaustive"] = False


def replay(ctx, data):
    jobs = [tuple(j) for j in data.get("corpus", [])]
    check = data.get("check")
    if check == "cli":
        from .. import querycli
        return querycli.replay(ctx, data)
    if check == "parse":
        got = parse_of(data["spelling"])
        print("%s -> %r ; specification: %r" % (Q.spelling_text(data["spelling"]), got, data["want"]))
        return 0 if type_exact_eq(got, data["want"]) else 1
    sb = Q.Sandbox(ctx.mkdtemp("replay"), jobs)
    for i, (sp, doc) in enumerate(jobs, 1):
        print("  %d: %r / %r" % (i, sp, doc))
    if check == "spelling":
        base = sb.find_mask(data["canonical"])
        sp = data["spelling"]
        if data.get("main"):
            toks = [json.dumps(Q.render_node(sp["node"]))] if sp["form"] == "json1" else Q.render_tokens(sp["toks"])
            out = cli_main_find(sb.root, toks)
            got = out if isinstance(out, str) else sb.mask(out)
        else:
            got = run_spelling(sb, sp)
        print("%s -> %s ; canonical find_jobs(%s) -> %s" % (Q.spelling_text(sp), Q.mask_to_list(got), json.dumps(data["canonical"]), Q.mask_to_list(base)))
        return 0 if got == base else 1
    if check == "cursor":
        base = sb.find_mask(data["canonical"]) if data.get("canonical") is not None else sb.find_mask(data["filter"])
        rec = observe_cursor(sb, data["filter"], base, data["script"], random.Random(0), {})
        print("S =", rec["S"], "script", rec["script"], rec["err"])
        for x in rec["steps"]:
            print("  ", x["op"], x["a"], "->", x["r"])
        v = judge_cursors(ctx, [rec], c06.probe_flags(ctx), probe_flags(ctx), "replay")[0]
        print("TLC verdict:", v)
        return 0 if not rec["err"] and all(v[k] for k in CURSOR_FIELDS) else 1
    if check == "groupby":
        d = data["default"] if data["has_default"] else Q.ABS
        real = run_groupby(sb, data["filter"], data["key"], d)
        print("%s on find_jobs(%s) -> %s ; specification: %s" % (key_text(data["key"], d), json.dumps(data["filter"]), real_text(real), real_text(data["want"])))
        return 0 if same_result(real, data["want"]) else 1
    return 2

"""C17 - a linked view is an exact, self-healing picture of the selected jobs (spec/exchange/LinkedView.tla).

TLC   : per universe the COMPLETE reachable state graph of {add, remove, re-key, create_linked_view(all | every job_ids
        subset) x path specs x listing orders} (every history of any length over that universe is a walk in it), dumped with
        -dump dot,actionlabels; the declarative from-scratch target of every selection exported by TLC; the requirements
        (ViewEqualsFromScratch, NoDangling, NoEmptyDirs, SecondRunNoop, RejectFrame, IncrementalEqualsScratch) checked for
        every argument tuple in every state - on the conformant model (counterexample expected while a deviation is on) and
        on the ideal model (all deviations fixed: must hold).
spec -> code : walks from the initial state covering EVERY edge are replayed into real signac in fresh sandboxes; after every
        action the real view is read with os.walk/os.readlink/realpath and compared with the spec state and with the exported
        target; every successful view is also compared with a real from-scratch build in a sibling directory.
        + seeded random long histories (-simulate) over a larger universe.
"""
import json
import os
import random
import shutil
from concurrent.futures import ThreadPoolExecutor

from .. import core, tlc, tlaparse
from ..viewutil import Universe, Graph, Sandbox, cover_walks, shortest_path_to, res_matches, classify, cli_argv

WORKERS = int(os.environ.get("VERIF_WORKERS", "16"))
SIG = {"D1": "create_linked_view:job_ids-empty:links-an-unselected-job",
       "D2": "create_linked_view:colliding-value-texts:jobs-share-one-link",
       "D3": "create_linked_view:directory-named-job:taken-for-a-link",
       "D5": "create_linked_view:stale-link-on-the-path-of-a-new-link:creates-entries-inside-a-job-directory"}
ALL5 = ["auto", "id", "tree", "flat", "const"]
# job_ids is documented as "iterable": every spelling of the same ids is the same CreateView(a) of the specification
SPELLS = ["list", "tuple", "set", "genexp", "iter", "map", "dictkeys", "cursor"]


def _spell(eid, a):
    return SPELLS[eid % len(SPELLS)] if a["kind"] == "ids" else "list"


def universes(quick, d5fixed=True):
    hom = [{"a": 1, "b": "x y"}, {"a": 2, "b": "x y"}, {"a": 1, "b": "ü.1"}, {"a": 2, "b": "ü.1"}]
    het = [{"a": 1}, {"a": 1, "b": 2}, {"a": 2}, {"b": 2}]
    nested = [{"n": {"x": 1}, "a": 1}, {"n": {"x": 2}, "a": 1}, {"n": {"x": 1, "y": "v.1"}, "a": 1}, {"n": 7, "a": 2}]
    collide = [{"a": True}, {"a": "True"}, {"a": "x/y"}, {"a": None}]
    jobkey = [{"job": 1}, {"job": 2}, {"job": 3}]
    # keys 'job' / 'job-id' / nested 'job.x' that only some jobs have: with all of j1..j4 selected the link a/1/job of {'a': 1} is
    # also a directory on the path a/1/job/5/job - unrepresentable - while a/1/job-id/7/job sorts between the two ('-', '.', ' ' < '/')
    jobhet = [{"a": 1}, {"a": 1, "job": 5}, {"a": 1, "job-id": 7}, {"a": 2, "job": 6, "job-id": 8}]
    if not quick:
        hom = hom + [{"a": 3, "b": "x y"}]
        het = het + [{"a": 2, "b": 2, "c": "é"}]
        nested = nested + [{"n": {"x": 2, "y": "v.1"}, "a": 2}]
        collide = collide + [{"x/y": 1, "a": 1.5}]
        jobkey = [{"job": 1}, {"job": 2}, {"a": "job", "job": 1}]
        if d5fixed:      # (while DEVIATION D5 is open every stale link and every escape multiplies the states: 10^6 edges with 5 jobs)
            jobhet = jobhet + [{"a": 1, "job": {"x": 3}, "job 2": 9}]
    us = [Universe("hom", hom, ["auto", "tree", "flat"] if quick else ["auto", "id", "tree", "flat"]), Universe("het", het, ["auto", "id", "tree"]),
          Universe("nested", nested, ["auto", "flat", "const"]),
          Universe("collide", collide, ["auto", "id"], orders=["asc", "desc"]),
          Universe("jobkey", jobkey, ["auto"], speckey="job"),
          Universe("jobhet", jobhet, ["auto"], orders=["asc", "desc"]),
          # the COMMAND LINE front: every action of this universe is `signac view ...` run as its own process
          Universe("cli", hom[:3] if quick else hom[:4], ["cliauto", "tree"] if quick else ["cliauto", "tree", "const"])]
    us[-1].cli = True
    us[-2].max_inside = 2 if quick else 8      # (only matters while DEVIATION D5 is open: at most one / four escapes are followed up)
    for u in us:      # deviations reachable in the universe, in the order in which they are switched off for TLC's counterexamples
        u.devs = {"collide": ["D1", "D2"], "jobkey": ["D1", "D3"]}.get(u.name, ["D1"])
        if u.name == "jobhet":
            u.devs = ["D1", "D3", "D5"]
    return us


def sim_universe():
    sps = [{"a": a, "b": b} for a in (1, 2, 3) for b in ("x y", "ü.1")] + [{"a": 1, "b": "x y", "n": {"x": [1, 2]}}, {"a": 4.5, "n": {"x": None}}]
    return Universe("sim", sps, ALL5, max_subsets=6)


# ---------------------------------------------------------------------------------------------------------
def _probe(work):
    import signac

    def proj(name, sps):
        d = os.path.join(work, name)
        p = signac.init_project(d)
        for sp in sps:
            p.open_job(sp).init()
        return p, os.path.join(d, "view")
    out = {}
    p, v = proj("probe1", [{"a": 1}, {"a": 2}])
    p.create_linked_view(prefix=v, job_ids=[])
    out["FixedD1"] = not any(fs or any(os.path.islink(os.path.join(r, d)) for d in ds) for r, ds, fs in os.walk(v))
    p, v = proj("probe2", [{"a": True}, {"a": "True"}])
    try:
        p.create_linked_view(prefix=v)
        out["FixedD2"] = False
    except RuntimeError:
        out["FixedD2"] = True
    p, v = proj("probe3", [{"job": 1}, {"job": 2}])
    p.create_linked_view(prefix=v)
    try:
        p.create_linked_view(prefix=v)
        out["FixedD3"] = True
    except OSError:
        out["FixedD3"] = False
    p, v = proj("probe4", [{"a": 1}, {"a": 1, "job": 5}, {"a": 2, "job": 6}])
    try:      # leaf a/1/job listed BEFORE the path a/1/job/5/job that runs through it
        p.create_linked_view(prefix=v, job_ids=[p.open_job(sp).id for sp in ({"a": 1}, {"a": 1, "job": 5}, {"a": 2, "job": 6})])
        out["FixedD4"] = False
    except RuntimeError:
        out["FixedD4"] = True
    except Exception:  # noqa
        out["FixedD4"] = False
    sps = [{"a": 1}, {"a": 1, "job": 5}, {"a": 2, "job": 6}]
    p, v = proj("probe5", sps)
    ids = [p.open_job(sp).id for sp in sps]
    p.create_linked_view(prefix=v, job_ids=[ids[0], ids[2]])          # a/1/job -> {'a': 1}
    try:
        p.create_linked_view(prefix=v, job_ids=[ids[1], ids[2]])      # a/1/job/5/job must not be created through that link
    except Exception:  # noqa
        pass
    out["FixedD5"] = sorted(os.listdir(p.open_job(sps[0]).path)) == ["signac_statepoint.json"]
    for n in ("probe1", "probe2", "probe3", "probe4", "probe5"):
        shutil.rmtree(os.path.join(work, n), ignore_errors=True)
    return out


def _write_mc(work, uni, flags, tag):
    mod = "MC_%s_%s" % (uni.name, tag)
    text, consts = uni.mc_module(mod, flags)
    if not os.path.exists(os.path.join(work, "LinkedView.tla")):
        shutil.copy(os.path.join(tlc.SPEC_ROOT, "exchange", "LinkedView.tla"), work)
    path = os.path.join(work, mod + ".tla")
    with open(path, "w") as f:
        f.write(text)
    return path, consts


def _tlc_universe(args):
    """the TLC runs of one universe (thread): graph + want table, requirement on the conformant and on the ideal model"""
    work, uni, flags, workers, ideal_too = args
    out = {"uni": uni}
    path, consts = _write_mc(work, uni, flags, "conf")
    dot, wantf = os.path.join(work, uni.name + ".dot"), os.path.join(work, uni.name + ".want.ndjson")
    out["graph"] = tlc.run(path, cfg_text=tlc.cfg(consts, invariants=["TypeOK"], postcondition="Export", constraints=["InsideBound"]), workdir=work, workers=workers,
                           dump=dot, coverage=False, allow_violation=False, env={"WANT_OUT": wantf})
    out["dot"], out["wantf"] = dot, wantf
    # the requirement on the conformant model: TLC's shortest counterexample for one deviation after the other
    out["req_conf"] = []
    fl = dict(flags)
    for n, d in enumerate(uni.devs):
        if not fl["Fixed" + d]:
            p2, c2 = _write_mc(work, uni, fl, "conf%d" % n)
            r = tlc.run(p2, cfg_text=tlc.cfg(c2, invariants=["Requirements"], alias="Shown", constraints=["InsideBound"]), workdir=work, workers=workers,
                        coverage=False, allow_violation=True, env={"WANT_OUT": wantf + ".unused"})
            out["req_conf"].append((d, dict(fl), r))
        fl["Fixed" + d] = True
    if ideal_too:
        path2, consts2 = _write_mc(work, uni, {k: True for k in flags}, "ideal")
        out["req_ideal"] = tlc.run(path2, cfg_text=tlc.cfg(consts2, invariants=["TypeOK", "Requirements"]), workdir=work, workers=workers,
                                   coverage=False, allow_violation=False, env={"WANT_OUT": wantf + ".unused"})
    return out


def _load_want(uni, path):
    want = {}
    for line in open(path):
        r = json.loads(line)
        key = (frozenset(r["S"]), r["ps"])
        if r["rep"]:
            links = {"/".join([uni.seg_text(s) for s in l["d"]] + ["job"]): l["j"] for l in r["links"]}
            dirs = {uni.path_text(d) for d in r["dirs"]}
            if len(links) != len(r["links"]) or len(dirs) != len(r["dirs"]):
                raise core.MachineryError("universe %s: distinct spec paths render to one text" % uni.name)
            want[key] = ("ok", links, dirs)
        else:
            want[key] = ("RuntimeError", None, None)
    return want


# ---------------------------------------------------------------------------------------------------------
_G = {}        # universe name -> (graph, universe, want table); filled before forking the replay workers
_ROOT = [None]


def _want_for(want, a, ws, pre):
    sel = frozenset(ws) if a["kind"] == "all" else frozenset(a["S"])
    res, links, dirs = want[(sel, a["ps"])]
    return (res, links, dirs, sel) if res == "ok" else (res, pre[0], pre[1], sel)


def _describe(uni, e, variant=0):
    if e["op"] == "view" and e["a"]["kind"].startswith("cli"):
        import shlex
        return "$ signac " + " ".join(shlex.quote(str(x)) for x in cli_argv(uni, e["a"], variant)) + "   # selects %s" % [uni.sp_of[t] for t in uni.tokens if t in e["a"]["S"]]
    if e["op"] == "view":
        a = e["a"]
        ids = None if a["kind"] == "all" else [uni.sp_of[t] for t in (reversed(uni.tokens) if a["ord"] == "desc" else uni.tokens) if t in a["S"]]
        return "create_linked_view(job_ids=%s, path=%r)%s" % ("None" if ids is None else ids, uni.path_arg(a["ps"]),
                                                               " [listing order reversed]" if a["ord"] == "desc" else "")
    if e["op"] == "rekey":
        return "re-key %r -> %r" % (uni.sp_of[e["j1"]], uni.sp_of[e["j2"]])
    return "%s %r" % (e["op"], uni.sp_of[e["j1"]])


def _step(sb, uni, op, j1, j2, a, spell="list", variant=0):
    """execute one action on the sandbox -> (result class name, exception)"""
    if op == "add":
        sb.add(j1)
    elif op == "remove":
        sb.remove(j1)
    elif op == "rekey":
        sb.rekey(j1, j2)
    elif op == "view" and a["kind"].startswith("cli"):
        return sb.cli_view(a, variant)
    elif op == "view":
        return sb.create_view(a, spell=spell)
    else:
        raise core.MachineryError("unknown op %r" % op)
    return "ok", None


def _strip(links):
    return {k: v.split("(")[0] for k, v in links.items()}


def _judge_view(sb, uni, a, ws_tokens, pre, real_res, exc, obs, want, scratch=True, ins=None, scratch_spell="list"):
    """requirement verdict of one real create_linked_view execution -> (kind | None, text)"""
    links, dirs, other = obs
    wres, wlinks, wdirs, sel = _want_for(want, a, ws_tokens, pre)
    kind = classify(real_res, exc, _strip(links), dirs, other, wres, wlinks, wdirs, pre[0], pre[1], sel, ws_tokens)
    text = "real: %s links=%s dirs=%s%s; required: %s links=%s dirs=%s" % (
        real_res + (" (%s)" % str(exc)[:120] if exc else ""), dict(sorted(links.items())), sorted(dirs), " other=%s" % other if other else "",
        wres, dict(sorted(wlinks.items())), sorted(wdirs))
    if ins is not None and ins[0] != ins[1]:
        # whatever the model says: create_linked_view never creates or removes anything inside a job directory
        kind = "writes-inside-job-directory"
        text += "; entries INSIDE job directories before %s, after %s" % (sorted(ins[0]), sorted(ins[1]))
    if kind is None and real_res == "ok" and scratch:
        r2, e2, obs2 = sb.scratch_build(a, scratch_spell if a["kind"] == "ids" else "list")
        if r2 != "ok" or (_strip(obs2[0]), obs2[1], obs2[2]) != (_strip(links), dirs, other):
            kind = "incremental-differs-from-scratch-build"
            text += "; real from-scratch build in a sibling directory%s: %s links=%s dirs=%s" % (
                " [job_ids spelled as %s]" % scratch_spell if a["kind"] == "ids" and scratch_spell != "list" else "", r2, dict(sorted(obs2[0].items())), sorted(obs2[1]))
    return kind, text


def _script(uni, g, edge_ids, force_list=False):
    return [{"op": g.edges[i]["op"], "j1": g.edges[i]["j1"], "j2": g.edges[i]["j2"], "spell": "list" if force_list else _spell(i, g.edges[i]["a"]), "variant": i,
             "a": {k: (sorted(v) if isinstance(v, frozenset) else v) for k, v in g.edges[i]["a"].items()}} for i in edge_ids]


def _run_walk(uname, walk, root, wid, stop_on_problem=True, force_list=False):
    """replay one walk; -> dict(covered edge ids, violations [(sig, what, replay)], drift [...], steps)"""
    g, uni, want = _G[uname]
    sb = Sandbox(os.path.join(root, "%s-%s" % (uname, wid)), uni)
    out = {"covered": [], "viol": [], "drift": [], "steps": 0, "keys": set(), "not_taken": []}
    cur, prev_action = g.init, None
    every = _G.get("__scratch_every__", 1)
    try:
        obs = sb.view()
        ins = sb.inside()
        for n, eid in enumerate(walk):
            e = g.edges[eid]
            if e["src"] != cur:
                break                                # an earlier nondeterministic step went elsewhere: rest is re-planned
            pre = (_strip(obs[0]), obs[1])           # the view as observed after the previous step
            spell = "list" if force_list else _spell(eid, e["a"])
            res, exc = _step(sb, uni, e["op"], e["j1"], e["j2"], e["a"], spell, eid)
            out["steps"] += 1
            out["keys"].add((uname, e["src"], repr(g.action_key(e)), spell))
            obs = sb.view()
            ws_real = sb.ws()
            links, dirs, other = obs
            ins_pre, ins = ins, sb.inside()
            if any(v.endswith("(absolute)") for v in links.values()):
                out["drift"].append("%s: links are absolute, the spec's step creates relative ones" % uname)
            matched = None
            for alt in g.alternatives(e):
                ae = g.edges[alt]
                node = g.nodes[ae["dst"]]
                ml, md = uni.view_of(node["view"])
                if res_matches(res, exc, ae["res"]) and ws_real == node["ws"] and (_strip(links), dirs) == (ml, md) and not other \
                        and ins == uni.inside_of(node["inside"]):
                    matched = ae
                    break
            here = "universe %s, after %s: %s%s" % (uname, [_describe(uni, g.edges[i], i) for i in walk[:n]], _describe(uni, e, eid),
                                                    " [job_ids spelled as %s]" % spell if spell != "list" else "")
            rp = {"universe": uname, "quick": _G["__quick__"], "d5": _G.get("__d5__", True), "steps": _script(uni, g, walk[:n + 1], force_list)}
            if e["op"] != "view":
                if matched is None:
                    raise core.MachineryError("%s: workspace operation does not behave as modelled (real ws %s, result %s %s)" % (here, sorted(ws_real), res, exc))
                out["covered"].append(matched["id"])
                cur, prev_action = matched["dst"], g.action_key(e)
                continue
            kind, text = _judge_view(sb, uni, e["a"], g.nodes[e["src"]]["ws"], pre, res, exc, obs, want, scratch=(eid % every == 0), ins=(ins_pre, ins),
                                     scratch_spell="list" if force_list else SPELLS[(eid + 3) % len(SPELLS)])
            rerun = ":on-rerun" if prev_action == g.action_key(e) else ""
            rp["want"] = [x if not isinstance(x, (set, frozenset)) else sorted(x) for x in _want_for(want, e["a"], g.nodes[e["src"]]["ws"], pre)]
            if matched is not None:
                out["covered"].append(matched["id"])
                if matched["id"] != eid:
                    out["not_taken"].append(eid)      # the implementation chose another outcome of this nondeterministic step
                if kind is not None:
                    tags = sorted(matched["dev"])
                    if tags:
                        for t in tags:
                            out["viol"].append((SIG.get(t, "view:model-deviation-" + t), "%s -> %s" % (here, text), rp))
                    else:
                        out["viol"].append(("%sview:%s%s" % ("cli:" if getattr(uni, "cli", False) else "", kind, rerun), "%s -> %s" % (here, text), rp))
                elif matched["dev"]:
                    out["drift"].append("%s: model took deviation %s but the requirement holds on the real execution" % (here, sorted(matched["dev"])))
                cur, prev_action = matched["dst"], g.action_key(e)
            elif kind is not None and len(ins) > getattr(uni, "max_inside", 2) and any("D5" in g.edges[x]["dev"] for x in g.alternatives(e)):
                # DEVIATION D5 taken further than the bounded graph follows it (CONSTRAINT InsideBound): same defect, end of this walk
                out["viol"].append((SIG["D5"], "%s -> %s" % (here, text), rp))
                break
            else:
                model = g.nodes[e["dst"]]
                ml, md = uni.view_of(model["view"])
                if kind is not None:
                    out["viol"].append(("%sview:%s%s" % ("cli:" if getattr(uni, "cli", False) else "", kind, rerun), "%s -> %s (model: %s links=%s)" % (here, text, e["res"], dict(sorted(ml.items()))), rp))
                else:
                    out["drift"].append("%s: real execution meets the requirement but is not a step of the model (%s; model: %s links=%s dirs=%s)"
                                        % (here, text, e["res"], dict(sorted(ml.items())), sorted(md)))
                break
    finally:
        sb.close()
    return out


def _replay_chunk(item):
    uname, walks, root, base = item
    g = _G[uname][0]
    res = {"covered": [], "viol": {}, "drift": [], "steps": 0, "keys": set(), "walks": 0, "not_taken": []}
    for i, w in enumerate(walks):
        o = _run_walk(uname, w, root, "%d-%d" % (base, i))
        res["covered"] += o["covered"]
        res["not_taken"] += o["not_taken"]
        res["steps"] += o["steps"]
        res["keys"] |= o["keys"]
        res["walks"] += 1
        res["drift"] += o["drift"][:3]
        for sig, what, rp in o["viol"]:
            if sig in res["viol"] and len(res["viol"][sig][1]["steps"]) <= 4:
                continue
            if res.setdefault("confirm", 0) >= 8:          # enough re-executions in this chunk: keep the violation as it is
                res["viol"].setdefault(sig, (what, rp))
                continue
            res["confirm"] += 1
            # confirm on the shortest history that reaches the same edge
            eid_steps = rp["steps"]
            short = None
            if len(eid_steps) > 4:
                tgt = w[len(eid_steps) - 1]
                sp = shortest_path_to(g, g.edges[tgt]["src"]) + [tgt]
                if len(sp) < len(eid_steps):
                    o2 = _run_walk(uname, sp, root, "%d-%d-s" % (base, i))
                    short = next(((s2, w2, r2) for s2, w2, r2 in o2["viol"] if s2 == sig), None)
            if short:
                sig, what, rp = short
            last = rp["steps"][-1]
            if last.get("spell", "list") != "list" and not sig.startswith("create_linked_view:"):
                # the same history with job_ids as a plain list: if the requirement then holds, the SPELLING is what breaks it
                walk2 = w[:len(eid_steps)] if not short else shortest_path_to(g, g.edges[w[len(eid_steps) - 1]]["src"]) + [w[len(eid_steps) - 1]]
                o3 = _run_walk(uname, walk2, root, "%d-%d-l" % (base, i), force_list=True)
                if not o3["viol"]:
                    kind = "one-shot" if last["spell"] in ("genexp", "iter", "map", "cursor") else last["spell"]
                    sig = "view:job_ids-as-%s-iterable:%s" % (kind, sig.split(":", 1)[1])
                    what += " -- with job_ids as a list the same history meets the requirement"
            if sig not in res["viol"] or len(rp["steps"]) < len(res["viol"][sig][1]["steps"]):
                res["viol"][sig] = (what, rp)
    return res


def _replay_all(ctx, uname, walks, tag):
    root = ctx.mkdtemp("rp-%s-%s" % (uname, tag))
    nchunks = max(1, min(len(walks), WORKERS * 4))
    chunks = [(uname, walks[i::nchunks], root, i) for i in range(nchunks)]
    covered, not_taken = set(), set()
    for r in core.pmap(_replay_chunk, chunks, procs=WORKERS, chunks=1):
        covered |= set(r["covered"])
        not_taken |= set(r["not_taken"])
        ctx.count(n=r["steps"], traces=r["walks"])
        for k in r["keys"]:
            ctx.count(k, n=0)
        for sig, (what, rp) in r["viol"].items():
            ctx.violation(sig, what, rp)
        for d in r["drift"]:
            ctx.spec_drift(d)
    shutil.rmtree(root, ignore_errors=True)
    return covered, not_taken


def _replay_counterexample(ctx, uname, trace):
    """TLC's counterexample (a behaviour ending in a state where some CreateView violates a requirement) as a walk of the
    conformant graph, executed on the real code"""
    g, uni, want = _G[uname]
    states = [s for _, s in trace]
    final = states[-1]
    names = sorted({str(x[0]) for x in final.get("violated", [])})
    steps = [s["last"] for s in states[1:] if s["last"]["op"] != "idle"]
    if final["last"]["op"] == "idle":          # violation of a per-argument check: append the witness call
        wit = sorted(final["violated"], key=repr)[0][1]
        steps.append({"op": "view", "j1": "", "j2": "", "a": wit})
    elif "SecondRunNoop" in names:             # violation found right after a successful call: the same call once more
        steps.append(dict(final["last"]))
    cur, walk = g.init, []
    for st in steps:
        key = (st["op"], st["j1"], st["j2"], st["a"])
        cands = [i for i in g.out[cur] if g.action_key(g.edges[i]) == key]
        if not cands:
            return {"violated": names, "history": [_describe_last(uni, x) for x in steps], "replayed": "not a path of the conformant graph"}
        walk.append(cands[0])
        cur = g.edges[cands[0]]["dst"]
    o = _run_walk(uname, walk, ctx.mkdtemp("cex"), "cex")
    for sig, what, rp in o["viol"]:
        ctx.violation(sig, what, rp)
    return {"violated": names, "history": [_describe(uni, g.edges[i]) for i in walk], "real_execution_shows": sorted({sig for sig, _, _ in o["viol"]})}


def _describe_last(uni, st):
    return _describe(uni, {"op": st["op"], "j1": st["j1"], "j2": st["j2"], "a": st["a"]})


# ---------------------------------------------------------------------------------------------------------
def _sim_replay(item):
    """one -simulate behaviour: list of states (ws, view, last)"""
    idx, states, root = item
    _, uni, want = _G["sim"]
    sb = Sandbox(os.path.join(root, "sim-%d" % idx), uni)
    out = {"steps": 0, "viol": [], "drift": [], "keys": set()}
    script = []
    try:
        ws_model = frozenset()
        ins = sb.inside()
        for st in states[1:]:
            last = st["last"]
            if last["op"] == "idle":
                continue
            pre_l, pre_d, _ = sb.view()
            pre = (_strip(pre_l), pre_d)
            spell = SPELLS[(idx + len(script)) % len(SPELLS)] if last["a"]["kind"] == "ids" else "list"
            res, exc = _step(sb, uni, last["op"], last["j1"], last["j2"], last["a"], spell)
            out["steps"] += 1
            script.append({"op": last["op"], "j1": last["j1"], "j2": last["j2"], "spell": spell, "a": {k: (sorted(v) if isinstance(v, frozenset) else v) for k, v in last["a"].items()}})
            out["keys"].add(("sim", repr(sorted(ws_model)), repr(sorted(pre[0].items())), repr(script[-1])))
            obs = sb.view()
            links, dirs, other = obs
            ins_pre, ins = ins, sb.inside()
            ml, md = uni.view_of(st["view"])
            conform = res_matches(res, exc, last["res"]) and sb.ws() == st["ws"] and (_strip(links), dirs) == (ml, md) and not other \
                and ins == uni.inside_of((x["j"], x["p"]) for x in st["inside"])
            here = "universe sim (random history), step %d of %s%s" % (len(script), [s["op"] for s in script],
                                                                         " [job_ids spelled as %s]" % spell if spell != "list" else "")
            rp = {"universe": "sim", "quick": _G["__quick__"], "d5": _G.get("__d5__", True), "steps": list(script)}
            if last["op"] != "view":
                if not conform:
                    raise core.MachineryError("%s: workspace operation does not behave as modelled" % here)
                ws_model = st["ws"]
                continue
            kind, text = _judge_view(sb, uni, last["a"], ws_model, pre, res, exc, obs, want, ins=(ins_pre, ins))
            rp["want"] = [x if not isinstance(x, (set, frozenset)) else sorted(x) for x in _want_for(want, last["a"], ws_model, pre)]
            if kind is not None:
                if conform and last["dev"]:
                    for t in sorted(last["dev"]):
                        out["viol"].append((SIG.get(t, "view:model-deviation-" + t), "%s -> %s" % (here, text), rp))
                else:
                    out["viol"].append(("view:%s" % kind, "%s -> %s" % (here, text), rp))
            elif not conform:
                out["drift"].append("%s: real execution meets the requirement but is not the model's step (%s)" % (here, text))
            if not conform:
                break
    finally:
        sb.close()
    return out


# ---------------------------------------------------------------------------------------------------------
def run(ctx):
    import time
    t0 = time.time()
    def lap(what):
        ctx.notes.append("%s: %.0fs" % (what, time.time() - t0))
    rnd = random.Random(ctx.seed)
    ctx.assumptions += ["Python text of state point values (Render table) and Python string order of dotted keys are computed by the harness",
                        "directory listing order is pinned by the harness (os.listdir patched during the call) to the order the spec assumes",
                        "universes exclude: bool and equal int under one key (C18 finding), empty mappings, values '.'/'..', os.sep inside nested values",
                        "TLC; md5 ids computed by the harness and checked against Job.id"]
    ctx.cov["rule"] = ("case = one edge (state (ws, view), action with arguments) of the complete reachable state graph of a universe; distinct = "
                       "distinct (universe, pre-state, action) actually executed on real signac; every edge is executed at least once on a walk from "
                       "the initial state; universes (%d jobs each): homogeneous (spaces, dots, unicode) x %s, heterogeneous, nested incl. scalar-vs-"
                       "mapping, colliding/separator values x 2 listing orders, key named 'job', keys 'job'/'job-id'/'job.x' in some jobs only (leaf/node "
                       "conflicts with neighbours sorting before '/') x 2 orders; after every step the job directories are snapshotted too; path specs: None, False, 'a/{a}/{{auto}}', "
                       "'a_{a}/{{auto:_}}', 'all'" % (4 if ctx.quick else 5, "3 path specs" if ctx.quick else "5 path specs"))
    flags = _probe(ctx.work)
    ctx.cov["deviation_flags_probed"] = flags
    unis = universes(ctx.quick, flags["FixedD5"])
    _G["__d5__"] = flags["FixedD5"]
    for u in unis:       # a set has no order: only spelled that way when no order-dependent deviation (D2, D4) is open
        u.order_free = flags["FixedD2"] and flags["FixedD4"]
    if os.environ.get("VERIF_C17_ONLY"):          # development aid: restrict the run to some universes
        unis = [u for u in unis if u.name in os.environ["VERIF_C17_ONLY"].split(",")]
    if not flags["FixedD4"]:
        # the order-dependent leaf/node check is a C16 finding (export shares the function); its partial effects are not modelled here
        unis = [u for u in unis if u.name != "jobhet"]
        ctx.notes.append("leaf/node check probed as order dependent (C16 finding): universe jobhet skipped")
    shutil.copy(os.path.join(tlc.SPEC_ROOT, "exchange", "LinkedView.tla"), ctx.work)
    tw = max(2, WORKERS // 4)
    with ThreadPoolExecutor(max_workers=4) as ex:
        results = list(ex.map(_tlc_universe, [(ctx.work, u, flags, tw, True) for u in unis]))
    _G["__quick__"] = ctx.quick
    _G["__scratch_every__"] = 4 if ctx.quick else 2      # real sibling from-scratch build: every 4th edge (quick) / every 2nd
    lap("TLC graphs + requirement runs done")
    cex = {}
    for r in results:
        uni = r["uni"]
        ctx.add_tlc("LinkedView %s: complete state graph (conformant model) + target table" % uni.name, r["graph"])
        for d, fl, rr in r["req_conf"]:
            ctx.add_tlc("LinkedView %s: Requirements on the conformant model (%s), expecting a counterexample for %s" % (
                uni.name, ",".join(k for k, v in sorted(fl.items()) if v) or "no deviation fixed", d), rr)
        if "req_ideal" in r:
            ctx.add_tlc("LinkedView %s: Requirements on the ideal model (all deviations fixed) - holds" % uni.name, r["req_ideal"])
        g = Graph(r["dot"])
        if g.init is None or not g.edges:
            raise core.MachineryError("empty state graph for %s" % uni.name)
        ops = {e["op"] for e in g.edges}
        if ops != {"add", "remove", "rekey", "view"}:
            raise core.MachineryError("vacuous model %s: only %s occur" % (uni.name, ops))
        _G[uni.name] = (g, uni, _load_want(uni, r["wantf"]))
        for d, fl, rr in r["req_conf"]:
            if not rr.violation:
                raise core.MachineryError("%s: deviation %s is switched on but TLC finds Requirements satisfied (vacuous)" % (uni.name, d))
            cex["%s/%s" % (uni.name, d)] = _replay_counterexample(ctx, uni.name, rr.violation["trace"])
        if not r["req_conf"] and any(e["dev"] for e in g.edges):
            raise core.MachineryError("%s: model deviates on some edge although every deviation is probed as fixed" % uni.name)
    ctx.cov["tlc_counterexamples_on_conformant_model"] = cex
    # ---- spec -> code: every edge ------------------------------------------------------------------
    graph_stats = {}
    for uni in unis:
        g = _G[uni.name][0]
        todo = set(range(len(g.edges)))
        total = len(todo)
        done, banned = set(), set()
        for rnd_no in range(25):
            # states the implementation has actually produced so far (a nondeterministic model step may have outcomes the
            # implementation never chooses; states only reachable through those cannot be entered)
            reached = {g.init} | {g.edges[i]["dst"] for i in done}
            plan = {i for i in todo if g.edges[i]["src"] in reached and i not in banned} if rnd_no else set(todo)
            if not plan:
                break
            walks = cover_walks(g, plan, 60 if rnd_no == 0 else 12, random.Random(ctx.seed + rnd_no), banned=banned, prefer=done)
            if not walks:
                break
            if rnd_no == 0:
                ctx.sample({"universe": uni.name, "state_points": uni.sp_of, "walk": [_describe(uni, g.edges[i]) for i in walks[len(walks) // 2][:8]]})
            cov, nt = _replay_all(ctx, uni.name, walks, "r%d" % rnd_no)
            if not (cov - done) and not (nt - banned):
                break                                   # no progress
            if any(v.signature not in SIG.values() for v in ctx.violations):
                done |= cov
                todo -= done
                break                                   # the verdict is a violation already: no re-planning around the broken steps
            done |= cov
            banned |= nt - done
            todo -= done
        reached = {g.init} | {g.edges[i]["dst"] for i in done}
        not_taken = [i for i in todo if g.edges[i]["src"] in reached and (i in banned or any(a in done for a in g.alternatives(g.edges[i])))]
        unreachable = [i for i in todo if g.edges[i]["src"] not in reached]
        unexplained = [i for i in todo if i not in set(not_taken) and i not in set(unreachable)]
        graph_stats[uni.name] = {"nodes": len(g.nodes), "edges": total, "edges_executed": len(done),
                                 "nondeterministic_outcomes_not_chosen_by_the_implementation": len(not_taken),
                                 "edges_from_states_only_reachable_through_such_outcomes": len(unreachable),
                                 "deviation_edges": sum(1 for e in g.edges if e["dev"])}
        if unexplained and not any(v.signature not in SIG.values() for v in ctx.violations):
            raise core.MachineryError("%s: %d edges could not be executed (e.g. %s)" % (uni.name, len(unexplained), g.edges[unexplained[0]]))
    ctx.cov["graphs"] = graph_stats
    lap("edge replay done")
    # ---- random long histories over a larger universe (-simulate) ----------------------------------------
    sim = sim_universe()
    sim.order_free = flags["FixedD2"] and flags["FixedD4"]
    path, consts = _write_mc(ctx.work, sim, flags, "sim")
    wantf = os.path.join(ctx.work, "sim.want.ndjson")
    r = tlc.run(path, cfg_text=tlc.cfg(consts, invariants=["TypeOK"], postcondition="Export", constraints=["Level1"]), workdir=ctx.work,
                workers=1, coverage=False, allow_violation=False, env={"WANT_OUT": wantf})
    ctx.add_tlc("LinkedView sim universe: target table", r)
    _G["sim"] = (None, sim, _load_want(sim, wantf))
    lap("sim target table done")
    simdir = os.path.join(ctx.work, "simtraces")
    os.makedirs(simdir, exist_ok=True)
    num, depth = (30, 40) if ctx.quick else (400, 80)
    r = tlc.run(path, cfg_text=tlc.cfg(consts), workdir=ctx.work, workers=1, coverage=False, simulate="file=%s/t,num=%d" % (simdir, num), depth=depth,
                seed=ctx.seed % 10**6, env={"WANT_OUT": wantf + ".unused"})
    ctx.add_tlc("LinkedView sim universe: -simulate num=%d depth=%d" % (num, depth), r)
    traces = []
    for fn in sorted(os.listdir(simdir)):
        states = [s for _, s in tlaparse.parse_sim_file(os.path.join(simdir, fn))]
        if len(states) > 1:
            traces.append(states)
    if not traces:
        raise core.MachineryError("no simulation behaviours were written")
    root = ctx.mkdtemp("simrp")
    nview = 0
    for o in core.pmap(_sim_replay, [(i, t, root) for i, t in enumerate(traces)], procs=WORKERS):
        ctx.count(n=o["steps"], traces=1)
        for k in o["keys"]:
            ctx.count(k, n=0)
        for sig, what, rp in o["viol"]:
            ctx.violation(sig, what, rp)
        for d in o["drift"]:
            ctx.spec_drift(d)
    lap("simulated histories done")
    ctx.cov["simulated_histories"] = {"behaviours": len(traces), "max_length": max(len(t) for t in traces) // 2}
    # ---- binding self-test -------------------------------------------------------------------------------
    hom = next((u for u in unis if u.name == "hom"), None)
    ctx.cov["binding_selftest"] = _selftest(ctx, hom) if hom else {"skipped (development run without the hom universe)": True}
    cliu = next((u for u in unis if u.name == "cli"), None)
    if cliu:      # the same three demonstrations with every step's view built by the real command line
        ctx.cov["binding_selftest"].update({"cli_" + k: v for k, v in _selftest(ctx, cliu, "cli_all", "cliauto").items()})
    fresh = [v for v in ctx.violations if v.signature not in SIG.values()]
    if not all(ctx.cov["binding_selftest"].values()) and not fresh:      # (with fresh violations the untouched walk may fail too)
        raise core.MachineryError("binding self-test failed: %r" % ctx.cov["binding_selftest"])
    ctx.cov["exhaustive"] = "complete reachable state graphs of the listed universes; every edge executed"


def _selftest(ctx, uni, kind="all", ps="auto"):
    """a dropped step and a corrupted expectation must be noticed; an untouched walk must pass"""
    g, _, want = _G[uni.name]
    root = ctx.mkdtemp("selftest")
    # a walk: add two jobs, create the view, remove one, create the view again
    def find(src, pred):
        return next(i for i in g.out[src] if pred(g.edges[i]))
    w = [find(g.init, lambda e: e["op"] == "add" and e["j1"] == "j1")]
    w.append(find(g.edges[w[-1]]["dst"], lambda e: e["op"] == "add" and e["j1"] == "j2"))
    w.append(find(g.edges[w[-1]]["dst"], lambda e: e["op"] == "view" and e["a"]["kind"] == kind and e["a"]["ps"] == ps))
    w.append(find(g.edges[w[-1]]["dst"], lambda e: e["op"] == "remove" and e["j1"] == "j2"))
    w.append(find(g.edges[w[-1]]["dst"], lambda e: e["op"] == "view" and e["a"]["kind"] == kind and e["a"]["ps"] == ps))
    ok = _run_walk(uni.name, w, root, "ok")
    # drop the remove step: the real project keeps j2, the last edge's expectations must no longer match
    g2_edges = [w[0], w[1], w[2], w[4]]
    try:
        dropped = _run_walk(uni.name, g2_edges, root, "drop")
        noticed_drop = len(dropped["covered"]) < 4
    except core.MachineryError:
        noticed_drop = True
    # corrupt one expected link target in the want table
    key = (frozenset(["j1", "j2"]), ps)
    saved = want[key]
    links = dict(saved[1])
    k0 = sorted(links)[0]
    links[k0] = "j2" if links[k0] == "j1" else "j1"
    want[key] = (saved[0], links, saved[2])
    corrupted = _run_walk(uni.name, w[:3], root, "corrupt")
    want[key] = saved
    return {"unchanged_walk_accepted": not ok["viol"] and len(ok["covered"]) == 5,
            "dropped_step_detected": noticed_drop,
            "corrupted_expected_target_detected": bool(corrupted["viol"])}


def replay(ctx, data):
    uni = {u.name: u for u in universes(data.get("quick", True), data.get("d5", True)) + [sim_universe()]}[data["universe"]]
    uni.order_free = True
    sb = Sandbox(os.path.join(ctx.work, "replay"), uni)
    print("state points:", uni.sp_of)
    res, exc, pre = "ok", None, ({}, set())
    for st in data["steps"]:
        a = dict(st["a"], S=frozenset(st["a"]["S"]))
        pre_l, pre_d, _ = sb.view()
        pre = (_strip(pre_l), pre_d)
        ws = sb.ws()
        ins_before = sb.inside()
        res, exc = _step(sb, uni, st["op"], st["j1"], st["j2"], a, st.get("spell", "list"), st.get("variant", 0))
        if a["kind"].startswith("cli"):
            print("$ signac " + " ".join(map(str, sb.last_cli[0])), "-> exit status", sb.last_cli[1], sb.last_cli[3].strip()[-200:])
        links, dirs, other = sb.view()
        print("%-6s %s -> %s%s\n        view links=%s dirs=%s" % (st["op"], st["j1"] + (" -> " + st["j2"] if st["j2"] else "") if st["op"] != "view" else
              "job_ids=%s%s path=%r order=%s" % ("None" if a["kind"] == "all" else sorted(a["S"]), " (as %s)" % st.get("spell", "list") if a["kind"] == "ids" else "",
                                                 uni.path_arg(a["ps"]), a["ord"]),
              res, " (%s)" % exc if exc else "", dict(sorted(links.items())), sorted(dirs)))
    ins = sb.inside()
    print("entries inside job directories before the last step: %s, after: %s" % (sorted(ins_before), sorted(ins)))
    wres, wlinks, wdirs, sel = data["want"]
    kind = "writes-inside-job-directory" if ins != ins_before and data["steps"][-1]["op"] == "view" else classify(res, exc, _strip(links), dirs, other, wres, wlinks, set(wdirs), pre[0], pre[1], set(sel), ws)
    sb.close()
    print("required: %s links=%s dirs=%s" % (wres, wlinks, sorted(wdirs)))
    print("VIOLATED: %s" % kind if kind else "requirement holds on this history")
    return 1 if kind else 0

"""C04 - re-keying, moving and cloning carry all data and never clobber another job (Workspace.tla)."""
import copy
import json
import os
import pickle
import subprocess
import sys

from .. import core
from .. import wsfamily as F
from ..tlaparse import FrozenDict

PID = "C04"


def configs(ctx):
    q = ctx.quick
    rekey = ["open_sp", "open_id", "open_iter", "copy", "readsp", "setkey", "assign", "update_sp", "init", "docset"] + F.SPEDITS
    return [
        F.Config("rekey-populated", rekey, 4 if q else 5, "int", init_jobs=2, limit=6000 if q else 200000, docvals=("d1",),
                 invariants=("HashInvX",), properties=("NoClobber", "RekeyCarries", "UpdateNoOverwrite"), strict=(("properties", "HandlesFollow"),)),
        F.Config("rekey-nested", rekey + ["writefile", "remove"], 4 if q else 5, "nested", init_jobs=1, limit=4000 if q else 150000,
                 invariants=("HashInvX",), properties=("NoClobber", "RekeyCarries", "UpdateNoOverwrite")),
        F.Config("rekey-empty-start", ["open_sp", "copy", "setkey", "assign", "init", "docset", "writefile", "remove"], 5 if q else 6, "mixed", limit=4000 if q else 200000,
                 invariants=("HashInvX",), properties=("NoClobber", "RekeyCarries")),
        # two jobs that differ only in the JSON type of one value (1 vs 1.0): collisions and roll-backs among ==-equal values
        F.Config("rekey-typed-values", ["open_sp", "open_id", "copy", "setkey", "init", "docset", "readsp"], 4 if q else 5, "typed",
                 init_jobs=[FrozenDict(a="i0", b="-"), FrozenDict(a="i1", b="-")], limit=3000 if q else 150000,
                 invariants=("HashInvX",), properties=("NoClobber", "RekeyCarries")),
        F.Config("rekey-null-values", ["open_sp", "open_id", "update_sp", "setkey", "assign", "init", "readsp"], 4 if q else 5, "nullish", init_jobs=2, limit=3000 if q else 150000,
                 invariants=("HashInvX",), properties=("NoClobber", "RekeyCarries", "UpdateNoOverwrite")),
        F.Config("empty-destination", ["open_id", "mkdir_empty", "move", "clone", "setkey", "assign", "docset"], 4 if q else 5, "int", projects=("P", "Q"), init_jobs=2,
                 limit=4000 if q else 150000, invariants=("HashInvX",), properties=("NoClobber", "MoveKeepsId", "CloneIndependent", "RekeyCarries")),
        F.Config("move-clone", ["open_sp", "open_id", "move", "clone", "setkey", "docset", "writefile", "init", "remove"], 4 if q else 5, "mixed", projects=("P", "Q"),
                 init_jobs=2, fvals=("c1", "c2"), limit=4000 if q else 150000, invariants=("HashInvX",), properties=("NoClobber", "MoveKeepsId", "CloneIndependent", "RekeyCarries")),
        F.Config("long-random", rekey + ["writefile", "remove", "move", "clone", "restart"], 0, "int", projects=("P", "Q"), handles=("h1", "h2", "h3"), files=("f1", "f2"),
                 fvals=("c1", "c2"), sim_num=40 if q else 2000, sim_depth=40, invariants=("HashInvX",), properties=("NoClobber", "RekeyCarries", "UpdateNoOverwrite", "MoveKeepsId", "CloneIndependent")),
    ]


_CHILD = r"""
import sys, pickle, json
sys.path.insert(0, %r)
job = pickle.load(open(sys.argv[1], "rb"))
out = {"id": job.id, "sp": job.statepoint(), "doc": job.doc()}
try:
    job.sp.extra = 7
    out["id2"] = job.id
    out["doc2"] = job.doc()
except Exception as e:
    out["rekey_error"] = type(e).__name__
json.dump(out, open(sys.argv[2], "w"))
"""


def independent_handles(ctx):
    """deepcopy / pickle round trips: independent handles that must still work on their own (scripted scenarios)"""
    import signac
    for kind in ("deepcopy", "pickle-in-process", "pickle-fresh-process", "pickle-with-shallow-copy"):
        for touched in (False, True):
            root = ctx.mkdtemp("indep")
            p = signac.init_project(root)
            job = p.open_job({"a": 1, "n": {"x": [1, 2]}}).init()
            job.doc.k = "v"
            with open(job.fn("data.bin"), "wb") as f:
                f.write(b"\x00payload")
            if touched:
                job.sp  # state point dict exists
            ctx.count(("indep", kind, touched), traces=1)
            rep = {"kind": "independent-handle", "how": kind, "touched": touched}
            try:
                if kind == "deepcopy":
                    other = copy.deepcopy(job)
                elif kind == "pickle-in-process":
                    other = pickle.loads(pickle.dumps(job))
                elif kind == "pickle-with-shallow-copy":
                    keep = copy.copy(job)
                    other = pickle.loads(pickle.dumps(job))
                else:
                    fn, fo = os.path.join(root, "job.pkl"), os.path.join(root, "out.json")
                    with open(fn, "wb") as f:
                        pickle.dump(job, f)
                    subprocess.run([sys.executable, "-c", _CHILD % os.environ.get("VERIF_REPO", "/repo"), fn, fo], check=True, cwd=root,
                                   stdout=subprocess.DEVNULL, stderr=subprocess.DEVNULL)
                    out = json.load(open(fo))
                    os.remove(fn); os.remove(fo)
                    new_id = core.my_id({"a": 1, "n": {"x": [1, 2]}, "extra": 7})
                    if out.get("rekey_error"):
                        ctx.violation("independent-handle:pickle-fresh-process:rekey-%s" % out["rekey_error"],
                                      "a job unpickled in a fresh process raises %s on its first state point edit (its state point dict was unpickled without a lock-table entry)" % out["rekey_error"], rep)
                        continue
                    if not (out["id"] == job.id and out["sp"] == {"a": 1, "n": {"x": [1, 2]}} and out["doc"] == {"k": "v"} and out["id2"] == new_id and out["doc2"] == {"k": "v"}
                            and os.path.exists(os.path.join(root, "workspace", new_id, "data.bin")) and not os.path.exists(os.path.join(root, "workspace", job.id))):
                        ctx.violation("independent-handle:%s" % kind, "a job unpickled in a fresh process does not describe / re-key the job correctly: %s" % out, rep)
                    continue
            except RecursionError:
                sig = "independent-handle:pickle-with-shallow-copy:RecursionError" if kind == "pickle-with-shallow-copy" else "independent-handle:%s:RecursionError" % kind
                ctx.violation(sig, "pickle.dumps(job) raises RecursionError when the job has a shallow copy (the state point dict's job list is pickled recursively)", rep)
                continue
            except Exception as e:  # noqa
                ctx.violation("independent-handle:%s:%s" % (kind, type(e).__name__), "%s of a job handle raised %r" % (kind, e), rep)
                continue
            ok = other.id == job.id and other.statepoint() == job.statepoint() and other.doc() == {"k": "v"} and other.path == job.path
            if ok:
                try:
                    other.sp.extra = 7
                    new_id = core.my_id({"a": 1, "n": {"x": [1, 2]}, "extra": 7})
                    ok = (other.id == new_id and other.doc() == {"k": "v"} and os.path.exists(os.path.join(root, "workspace", new_id, "data.bin"))
                          and not os.path.exists(os.path.join(root, "workspace", core.my_id({"a": 1, "n": {"x": [1, 2]}}))))
                except Exception as e:  # noqa
                    ctx.violation("independent-handle:%s:rekey-%s" % (kind, type(e).__name__), "re-key through a %s handle raised %r" % (kind, e), rep)
                    continue
            if not ok:
                ctx.violation("independent-handle:%s" % kind, "a %s handle does not work on its own (id/statepoint/document/re-key)" % kind, rep)


def many_copies(ctx):
    """every live shallow copy follows a re-key - also when there are many of them (the model has at most three handles)"""
    import signac
    for ncopies in (3, 31, 40, 70):
        root = ctx.mkdtemp("copies")
        p = signac.init_project(root)
        job = p.open_job({"a": 1}).init()
        job.doc.k = "v"
        job.sp  # the state point dict exists: copies share it
        copies = [copy.copy(job) for _ in range(ncopies)]
        ctx.count(("many-copies", ncopies), traces=1)
        for step, (editor, edit) in enumerate(((job, {"b": 2}), (copies[ncopies // 2], {"c": 3}), (copies[-1], {"b": 5}))):
            editor.sp.update(edit)
            want = editor.statepoint()
            wid = core.my_id(want)
            lag = [i for i, c in enumerate([job] + copies) if not (c.id == wid and c.path.endswith(wid) and c.statepoint() == want and dict(c.cached_statepoint) == want)]
            if lag:
                ctx.violation("handles-follow:many-copies", "with %d shallow copies, after re-key %d the handles %s (0 = original) do not describe the new job %s" % (ncopies, step + 1, lag[:8], wid[:6]),
                              {"kind": "many-copies", "ncopies": ncopies, "step": step})
                break
        else:
            ids = sorted(j.id for j in signac.Project(root))
            if ids != [job.id] or job.doc() != {"k": "v"}:
                ctx.violation("handles-follow:many-copies:workspace", "after re-keys with %d copies the workspace holds %s" % (ncopies, [i[:6] for i in ids]), {"kind": "many-copies", "ncopies": ncopies})


def assignment_scenarios(ctx):
    """whole-assignment / update_statepoint over value-shape changes the token universe does not contain"""
    import signac
    shapes = [None, 0, False, 1, 1.0, True, 1.5, "s", "1", [1, 2], [1.0, 2], [1, {"y": "z"}], {"x": 1}, {"x": True}, {"x": {"y": [1]}}, [], {}]
    root = ctx.mkdtemp("assign")
    p = signac.init_project(root)
    for i, old in enumerate(shapes):
        for k, new in enumerate(shapes):
            if old == new and type(old) is type(new):
                continue
            for route in ("assign", "update_statepoint", "sp.update", "setitem"):
                sp0, sp1 = {"t": "%d-%d-%s" % (i, k, route), "v": old}, {"t": "%d-%d-%s" % (i, k, route), "v": new}
                job = p.open_job(sp0).init()
                job.doc.d = 1
                job.sp  # dict exists (the common situation after any access)
                try:
                    if route == "assign":
                        job.statepoint = sp1
                    elif route == "update_statepoint":
                        job.update_statepoint({"v": new}, overwrite=True)
                    elif route == "sp.update":
                        job.sp.update({"v": new})
                    else:
                        job.sp["v"] = new
                    got = job.statepoint()
                except Exception as e:  # noqa
                    got = "!" + type(e).__name__
                ctx.count(("assign-shape", type(old).__name__, type(new).__name__, route), traces=1)
                from ..jsonenc import type_exact_eq
                want_id = core.my_id(sp1)
                ok = isinstance(got, dict) and type_exact_eq(got, sp1) and job.id == want_id and os.path.isdir(os.path.join(root, "workspace", want_id))
                if not ok:
                    coll_to_none = new is None and isinstance(old, (list, dict)) and route != "setitem"
                    pyeq = isinstance(got, dict) and got == sp1 and route != "setitem"     # equal under ==, not as JSON values
                    sig = ("assign:nested-collection-to-None-ignored" if coll_to_none else
                           "assign:python-equal-value-of-other-json-type-ignored" if pyeq else
                           "assign:%s:%s-to-%s" % (route, type(old).__name__, type(new).__name__))
                    ctx.violation(sig, "%s from %r to %r leaves the job with state point %r / id %s (expected id %s)" % (route, sp0, sp1, got, job.id[:8], want_id[:8]),
                                  {"kind": "assign-shape", "old": sp0, "new": sp1, "route": route})
                job.remove()


def run(ctx):
    ctx.assumptions += ["TLC; raw byte snapshots of the sandbox (os.walk)", "move() is modelled for handles without shallow copies (copies of a moved handle keep the old project in the code)"]
    ctx.cov["rule"] = ("one evaluation = one spec transition executed on the real library; on every re-key / move / clone edge the real tree is byte-snapshotted before and after: "
                       "payload carried byte-identically, old id gone, every shallow copy follows (id, path, statepoint, cached_statepoint), DestinationExistsError leaves the disk "
                       "untouched, update_statepoint(overwrite=False) conflicts change nothing; plus scripted deepcopy / pickle scenarios; distinct = (config, op, outcome) classes")
    F.run_configs(ctx, PID, configs(ctx))
    F.run_recorded(ctx, PID, "random-wide", 50 if ctx.quick else 3000, 40 if ctx.quick else 60,
                   ["open_sp", "open_id", "open_iter", "copy", "readsp", "setkey", "assign", "update_sp", "init", "docset", "writefile", "remove", "move", "clone", "restart"] + F.SPEDITS)
    independent_handles(ctx)
    many_copies(ctx)
    assignment_scenarios(ctx)
    F.cli_front(ctx, PID)
    ctx.cov["binding_selftest"] = F.selftest(ctx, PID)


def replay(ctx, data):
    if data.get("kind") == "assign-shape":
        import signac
        p = signac.init_project(ctx.mkdtemp("r"))
        job = p.open_job(data["old"]).init(); job.sp
        if data["route"] == "assign":
            job.statepoint = data["new"]
        elif data["route"] == "update_statepoint":
            job.update_statepoint({"v": data["new"]["v"]}, overwrite=True)
        else:
            job.sp["v"] = data["new"]["v"]
        print("after", data["route"], "->", job.statepoint(), job.id, "expected id", core.my_id(data["new"]))
        return 0
    if data.get("kind") == "many-copies":
        print("scenario:", data)
        return 0
    if data.get("kind") == "independent-handle":
        print("scenario:", data)
        return 0
    return F.replay_script(ctx, PID, data)

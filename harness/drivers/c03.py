"""C03 - the workspace equals a simple model after any history (spec/workspace/Workspace.tla)."""
from .. import wsfamily as F
from ..tlaparse import FrozenDict

PID = "C03"


def configs(ctx):
    q = ctx.quick
    full = F.NONDAMAGE + F.SPEDITS
    return [
        F.Config("full-1p", full, 4 if q else 5, "int", limit=5000 if q else 150000, docvals=("d1", "d2"),
                 invariants=("HashInvX", "CheckPassesX"), properties=("Lazy", "NoClobber"), strict=(("invariants", "CheckPasses"), ("invariants", "HashInv"))),
        F.Config("core-1p-deeper", ["open_sp", "open_id", "init", "remove", "setkey", "docset", "update_cache", "delete_cache", "restart", "copy"],
                 5 if q else 6, "typed", limit=5000 if q else 200000, invariants=("HashInvX", "CheckPassesX"), properties=("NoClobber",)),
        F.Config("two-projects", ["open_sp", "open_id", "init", "remove", "setkey", "docset", "writefile", "move", "clone", "copy", "restart", "update_cache"],
                 4 if q else 5, "nested", projects=("P", "Q"), limit=4000 if q else 150000, invariants=("HashInvX", "CheckPassesX"), properties=("NoClobber",)),
        # two jobs differing only in the JSON type of one value: collisions / roll-backs among ==-equal values
        # (whole-mapping routes - assignment, update_statepoint, sp.update - are left out here: the dependency's in-place
        #  update ignores ==-equal values of another JSON type, a known finding reported by C04's value-shape scenarios)
        F.Config("typed-collisions", ["open_sp", "open_id", "open_iter", "setkey", "sp_setdefault", "sp_pop", "readsp", "init", "docset", "copy"], 5 if q else 6, "typed",
                 init_jobs=[FrozenDict(a="i0", b="-"), FrozenDict(a="i1", b="-")], limit=5000 if q else 200000, invariants=("HashInvX", "CheckPassesX"), properties=("NoClobber",)),
        F.Config("strays", ["stray", "open_sp", "open_iter", "init", "restart", "update_cache", "remove"], 4 if q else 5, "mixed", limit=2000 if q else 60000,
                 invariants=("HashInvX",)),
        F.Config("populated", full, 3 if q else 4, "mixed", init_jobs=2, init_cache=(False, True), limit=4000 if q else 150000,
                 invariants=("HashInvX", "CheckPassesX")),
        F.Config("populated-rekey", ["open_id", "open_iter", "assign", "setkey", "update_sp", "sp_update", "readsp", "init", "docset"], 4 if q else 5, "int", init_jobs=2,
                 init_cache=(False, True), limit=5000 if q else 200000, invariants=("HashInvX", "CheckPassesX"), properties=("NoClobber",)),
        F.Config("long-random", full + ["stray"], 0, "int", handles=("h1", "h2", "h3"), docvals=("d1", "d2"), files=("f1", "f2"), fvals=("c1", "c2"),
                 sim_num=60 if q else 2500, sim_depth=40 if q else 60, invariants=("HashInvX", "CheckPassesX")),
        F.Config("long-random-2p", ["open_sp", "open_id", "open_iter", "init", "remove", "setkey", "assign", "docset", "writefile", "clear", "reset", "move", "clone", "copy", "restart", "update_cache"],
                 0, "nested", projects=("P", "Q"), handles=("h1", "h2", "h3"), files=("f1", "f2"), sim_num=40 if q else 1500, sim_depth=40 if q else 60,
                 invariants=("HashInvX", "CheckPassesX")),
    ]


def run(ctx):
    ctx.assumptions += ["TLC; the raw projection of a project directory (os.walk + json) in harness/wsengine.py",
                        "HDF5 stores are outside the model", "Id == identity in the spec; real ids by the harness's own canonical JSON + md5 (C01)"]
    ctx.cov["rule"] = ("one evaluation = one spec transition executed on the real library in a fresh sandbox (path from the initial state re-executed), "
                       "with projected disk state, cache file, session cache keys, handle ids and result compared with the model and the C03 post-conditions "
                       "(check() passes, directory name = hash of state point file, len/iteration/membership agree, strays ignored, no litter) judged on the real tree; "
                       "distinct = (configuration, operation, outcome) classes of edges / simulated behaviours by (length, last op)")
    F.run_configs(ctx, PID, configs(ctx))
    F.run_recorded(ctx, PID, "random-wide", 60 if ctx.quick else 3000, 40 if ctx.quick else 60, F.NONDAMAGE + F.SPEDITS + ["move", "clone", "stray"])
    F.large_workspace(ctx, PID)
    from .. import ctxfront
    ctxfront.run(ctx, PID)
    F.cli_front(ctx, PID)
    ctx.cov["binding_selftest"] = F.selftest(ctx, PID)


def replay(ctx, data):
    return F.replay_script(ctx, PID, data)

"""C18 - detect_schema() and diff_jobs() are exact summaries of the state points (spec/query/Schema.tla).

spec -> code : TLC enumerates every corpus of 0..3 jobs over the mixed-type universe (thorough: + random corpora of up to 8
               jobs over the larger universe), checks DiffReconstructs / DiffMinimal / SchemaExact on the specification and
               exports, per corpus, the required schema of every selection x exclude_const and the required diff of every
               selection; every case is executed on a real project and compared type-exactly.
code -> spec : seeded random real corpora (0..8 jobs, deeper nesting, unicode, negative numbers) are executed first, the
               observed results are recorded as NDJSON and TLC (MODE = "file") judges each one: exact / deviation / reject.
Deviations D1 (bool/int) and D2 (lists) of the pinned tree are probed at start and switch the conformant model.
"""
import ast
import json
import os
import random
import re

from .. import core, tlc
from ..jsonenc import from_wire, uncps, cps
from ..schemautil import (Corpus, to_wire, tkey, plain, show, want_schema, matches_dev, classify_schema, flat_types,
                          deep_merge, lists_to_tuples)

WORKERS = int(os.environ.get("VERIF_WORKERS", "16"))
SIG = {"D1": "detect_schema:bool-and-equal-int-under-one-key:value-dropped",
       "D2": "detect_schema:equal-lists-differing-in-element-type:value-dropped",
       "D3": "detect_schema:empty-state-point:reports-empty-key"}
INVS = ["DiffReconstructs", "DiffMinimal", "SchemaExact"]


# ---------------------------------------------------------------------------------------------------------
def _probe(work):
    """minimal repros of the named deviations; the answers switch the conformant model"""
    out = {}
    c = Corpus(os.path.join(work, "probe1"), [{"a": True}, {"a": 1}])
    r = c.schema([1, 2], False, use_none=True)
    out["FixedD1"] = r[0] == "ok" and len(r[2]) == 2
    c.close()
    c = Corpus(os.path.join(work, "probe2"), [{"a": [1]}, {"a": [1.0]}])
    r = c.schema([1, 2], False, use_none=True)
    out["FixedD2"] = r[0] == "ok" and len(r[2]) == 2
    c.close()
    c = Corpus(os.path.join(work, "probe3"), [{}, {"a": 1}])
    r = c.schema([1, 2], False, use_none=True)
    out["FixedD3"] = r[0] == "ok" and "" not in r[1]
    c.close()
    return out


def _shape(sps, sel):
    return tuple(sorted(",".join(flat_types(sps[i - 1])) for i in sel))


def _flat(d, pre=()):
    out = {}
    for k, v in d.items():
        if isinstance(v, dict) and v:
            out.update(_flat(v, pre + (k,)))
        else:
            out[pre + (k,)] = tkey(v)
    return out


def _judge_schema(sps, case, real, how):
    """-> list of (signature, what) ; [] when the requirement holds"""
    xc, sel = case["xc"], case["sel"]
    ctxs = ("xc:" if xc else "") + ("" if how == "none" else "subset:")
    desc = "detect_schema(exclude_const=%s, subset=%s) over %r" % (xc, "None" if how == "none" else [sps[i - 1] for i in sel], sps)
    if real[0] == "exc":
        return [("detect_schema:%sexception-%s" % (ctxs, real[1]), "%s raised %s: %s" % (desc, real[1], real[2]))]
    keys, triples = real[1], real[2]
    wkeys, wtriples = want_schema(case)
    if keys == wkeys and triples == wtriples:
        return []
    got = sorted((k, t, show(v)) for k, t, v in triples)
    want = sorted((k, t, show(v)) for k, t, v in wtriples)
    what = "%s reports keys %s values %s; required keys %s values %s" % (desc, sorted(keys), got, sorted(wkeys), want)
    if case["dev"] and matches_dev(case, keys, triples):
        return [(SIG[t], what) for t in case["tags"]]
    return [("detect_schema:%s%s" % (ctxs, classify_schema(keys, triples, wkeys, wtriples)), what)]


def _judge_diff(sps, ids, case, real, order):
    sel = case["sel"]
    desc = "diff_jobs(%s)" % ", ".join(repr(sps[i - 1]) for i in order)
    if real[0] == "exc":
        return [("diff_jobs:exception-%s" % real[1], "%s raised %s: %s" % (desc, real[1], real[2]))]
    d = real[1]
    if not isinstance(d, dict) or set(d) != {ids[i - 1] for i in sel}:
        return [("diff_jobs:wrong-ids", "%s returned the keys %s" % (desc, sorted(d) if isinstance(d, dict) else type(d)))]
    common = from_wire(case["common"])
    for n, i in enumerate(sel):
        got, want = plain(d[ids[i - 1]]), from_wire(case["d"][n])
        if tkey(got) != tkey(want):
            fg, fw = _flat(got), _flat(want)
            if set(fg) - set(fw) and any("." in k[-1] for k in set(fg) - set(fw)):
                kind = "not-nested"
            elif set(fw) - set(fg):
                kind = "pair-missing"
            elif set(fg) - set(fw):
                kind = "pair-extra"
            else:
                kind = "value-differs"
            return [("diff_jobs:%s" % kind, "%s gives %r for %r; required %r (common part %r)" % (desc, got, sps[i - 1], want, common))]
        # the literal statement: diff merged with the common part reconstructs the state point (Python ==)
        if lists_to_tuples(deep_merge(got, common)) != lists_to_tuples(sps[i - 1]):
            return [("diff_jobs:does-not-reconstruct", "%s: %r merged with %r is not %r" % (desc, got, common, sps[i - 1]))]
    return []


def _real_for(corpus, sps, schema_cases, diff_cases, salt):
    """execute every case on the real project; -> (schema results [(how, result)], diff results [(order, result)])"""
    sres, dres = [], []
    everything = list(range(1, len(sps) + 1))
    for n, case in enumerate(schema_cases):
        runs = []
        runs.append(("subset%d" % ((n + salt) % 3), corpus.schema(case["sel"], case["xc"], spelling=(n + salt) % 3)))
        if case["sel"] == everything:
            runs.append(("none", corpus.schema(case["sel"], case["xc"], use_none=True)))
        sres.append(runs)
    for n, case in enumerate(diff_cases):
        rev = (n + salt) % 2 == 1
        order = list(reversed(case["sel"])) if rev else list(case["sel"])
        dres.append((order, corpus.diff(case["sel"], reverse=rev)))
    return sres, dres


def _work_universe(item):
    """one corpus exported by TLC: materialise, run all cases, judge. Runs in a forked worker."""
    idx, rec, root = item
    sps = [from_wire(w) for w in rec["jobs"]]
    out = {"n": 0, "keys": set(), "viol": [], "sample": None, "devseen": 0}
    corpus = Corpus(os.path.join(root, "c%d" % idx), sps)
    try:
        sres, dres = _real_for(corpus, sps, rec["schema"], rec["diffs"], idx)
        for case, runs in zip(rec["schema"], sres):
            for how, real in runs:
                out["n"] += 1
                out["keys"].add(("schema", _shape(sps, case["sel"]), case["xc"], how == "none"))
                out["devseen"] += bool(case["dev"])
                for sig, what in _judge_schema(sps, case, real, how):
                    out["viol"].append((sig, what, {"kind": "schema", "jobs": rec["jobs"], "case": case, "how": how}))
        for case, (order, real) in zip(rec["diffs"], dres):
            out["n"] += 1
            out["keys"].add(("diff", _shape(sps, case["sel"])))
            for sig, what in _judge_diff(sps, corpus.ids, case, real, order):
                out["viol"].append((sig, what, {"kind": "diff", "jobs": rec["jobs"], "case": case, "order": order}))
        if idx % 397 == 5 and rec["schema"]:
            c = rec["schema"][-1]
            out["sample"] = {"jobs": sps, "sel": c["sel"], "exclude_const": c["xc"], "required_keys": [uncps(k) for k in c["keys"]],
                             "required_values": [[uncps(x["k"]), x["t"], repr(from_wire(x["v"]))] for x in c["triples"]],
                             "required_diffs": [[d["sel"], [from_wire(x) for x in d["d"]]] for d in rec["diffs"][-1:]]}
    finally:
        corpus.close()
    return out


def _collect(ctx, outs):
    dev = 0
    for o in outs:
        ctx.count(n=o["n"], traces=o["n"])
        for k in o["keys"]:
            ctx.count(k, n=0)
        for sig, what, rp in o["viol"]:
            ctx.violation(sig, what, rp)
        if o.get("sample"):
            ctx.sample(o["sample"])
        dev += o.get("devseen", 0)
    return dev


# ---- code -> spec ------------------------------------------------------------------------------------------
_STRS = ["", "1", "a", "True", "ü x", "1.0", "None"]
_SCAL = [-1, 0, 1, 2, 7, 0.0, 1.0, 2.0, 0.5, -1.5, 0.001, True, False, None] + _STRS


def _rand_val(rnd, depth):
    r = rnd.random()
    if depth <= 0 or r < 0.6:
        return rnd.choice(_SCAL)
    if r < 0.8:
        if rnd.random() < 0.2:      # nested lists (positions 0.1 ... of a list are not keys)
            return [[rnd.choice([1, 2, 5, 6, "a"]) for _ in range(rnd.randrange(1, 3))] for _ in range(rnd.randrange(1, 3))]
        return [rnd.choice([1, 1.0, True, "a", None, 2, 0, False, 5, 6]) for _ in range(rnd.randrange(0, 3))]
    # digit-named keys next to lists under the same key in other jobs
    keys = rnd.sample(["x", "y", "z", "0", "1", "10"] if rnd.random() < 0.5 else ["0", "1", "2"], rnd.randrange(1, 3))
    return {k: _rand_val(rnd, depth - 1) for k in keys}


def _rand_corpus(rnd):
    n = rnd.choice([0, 1, 2, 2, 3, 3, 4, 5, 6, 7, 8])
    pool = rnd.sample(["a", "b", "c", "n", "k ü", "0", "10", "-1", "1e3"], rnd.randrange(1, 4))
    sps, seen = [], set()
    for _ in range(n * 3):
        if len(sps) == n:
            break
        sp = {k: _rand_val(rnd, 2) for k in pool if rnd.random() < 0.75}
        key = json.dumps(sp, sort_keys=True)
        if key not in seen:
            seen.add(key)
            sps.append(sp)
    return sps


def _work_record(item):
    """one harness-generated corpus: execute on the real code and record what was observed"""
    idx, sps, seed, root = item
    rnd = random.Random(seed)
    n = len(sps)
    sels = [[], list(range(1, n + 1))] + [sorted(rnd.sample(range(1, n + 1), rnd.randrange(1, n + 1))) for _ in range(4 if n else 0)]
    sels = [list(s) for s in sorted(set(map(tuple, sels)))]
    schema_cases = [{"sel": s, "xc": xc} for s in sels for xc in (False, True)]
    diff_cases = [{"sel": s} for s in sels]
    corpus = Corpus(os.path.join(root, "r%d" % idx), sps)
    try:
        sres, dres = _real_for(corpus, sps, schema_cases, diff_cases, idx)
        ids = list(corpus.ids)
    finally:
        corpus.close()
    rec = {"jobs": [to_wire(sp) for sp in sps], "schema": [], "diffs": [{"sel": c["sel"]} for c in diff_cases]}
    for c, runs in zip(schema_cases, sres):
        how, real = runs[-1]          # subset=None where the selection is everything, an explicit subset otherwise
        if real[0] == "exc":
            rec["schema"].append({"sel": c["sel"], "xc": c["xc"], "rkeys": [], "rtriples": [], "exc": real[1]})
        else:
            keys, triples, vals = real[1], real[2], real[3]
            rec["schema"].append({"sel": c["sel"], "xc": c["xc"], "exc": "", "rkeys": [cps(k) for k in sorted(keys)],
                                  "rtriples": [{"k": cps(k), "t": t, "v": to_wire(vals[v])} for k, t, v in sorted(triples, key=repr)]})
    return {"rec": rec, "sres": [[(h, r[:3]) for h, r in runs] for runs in sres], "dres": dres, "ids": ids, "sps": sps}


def _file_mode(ctx, flags, n):
    rnd = random.Random(ctx.seed * 7 + 18)
    root = ctx.mkdtemp("rec")
    items = [(i, _rand_corpus(rnd), rnd.randrange(10**9), root) for i in range(n)]
    recs = core.pmap(_work_record, items, procs=WORKERS)
    fin, fout = os.path.join(ctx.work, "recorded.ndjson"), os.path.join(ctx.work, "judged.ndjson")
    with open(fin, "w") as f:
        for r in recs:
            f.write(json.dumps(r["rec"]) + "\n")
    consts = {"MODE": '"file"', "MAXJOBS": 0, "NRANDOM": 0, "RANDMAX": 1, "NCLI": 0, "FixedD1": tlc.lit(flags["FixedD1"]), "FixedD2": tlc.lit(flags["FixedD2"]), "FixedD3": tlc.lit(flags["FixedD3"])}
    r = tlc.run("query/Schema.tla", cfg_text=tlc.cfg(consts, invariants=INVS, postcondition="Export"), workdir=ctx.work, workers=WORKERS,
                env={"CASES_FILE": fin, "CASES_OUT": fout}, coverage=False, allow_violation=False)
    ctx.add_tlc("Schema recorded real corpora (file mode)", r)
    judged = [json.loads(l) for l in open(fout)]
    if len(judged) != len(recs):
        raise core.MachineryError("TLC judged %d of %d recorded corpora" % (len(judged), len(recs)))
    verdicts = {"exact": 0, "dev": 0, "reject": 0}
    for rr, jd in zip(recs, judged):
        sps = rr["sps"]
        if [tkey(from_wire(w)) for w in jd["jobs"]] != [tkey(sp) for sp in sps]:
            raise core.MachineryError("recorded corpus came back changed from TLC")
        for case, runs in zip(jd["schema"], rr["sres"]):
            for how, real in runs:
                ctx.count(("rec-schema", _shape(sps, case["sel"]), case["xc"], how == "none"), traces=1)
                v = _judge_schema(sps, case, real, how)
                for sig, what in v:
                    ctx.violation(sig, what, {"kind": "schema", "jobs": jd["jobs"], "case": case, "how": how})
            # TLC's own verdict on the recorded result must agree with the harness comparison of the same result
            how, real = runs[-1]
            v = _judge_schema(sps, case, real, how)
            mine = "exact" if not v else ("dev" if all(s in SIG.values() for s, _ in v) else "reject")
            verdicts[case["verdict"]] = verdicts.get(case["verdict"], 0) + 1
            if mine != case["verdict"]:
                raise core.MachineryError("TLC verdict %s but harness comparison says %s for %r sel=%s xc=%s" % (case["verdict"], mine, sps, case["sel"], case["xc"]))
        for case, (order, real) in zip(jd["diffs"], rr["dres"]):
            ctx.count(("rec-diff", _shape(sps, case["sel"])), traces=1)
            for sig, what in _judge_diff(sps, rr["ids"], case, real, order):
                ctx.violation(sig, what, {"kind": "diff", "jobs": jd["jobs"], "case": case, "order": order})
    ctx.cov["recorded_verdicts_by_TLC"] = verdicts
    big = max(recs, key=lambda x: len(x["sps"]))
    ctx.sample({"recorded_corpus": big["sps"], "source": "seeded random real corpus judged by TLC (file mode)"})


# ---- command line front: `signac schema`, `signac diff` ------------------------------------------------------
_GROUP = re.compile(r"(\w+)\(\[(.*?)\], (\d+)\)(?:, |$)", re.S)


def _split_top(text):
    """split 'a, (1, 2), b' at the commas outside brackets"""
    out, depth, cur = [], 0, ""
    i = 0
    while i < len(text):
        c = text[i]
        if c in "([{":
            depth += 1
        elif c in ")]}":
            depth -= 1
        if c == "," and depth == 0 and text[i:i + 2] == ", ":
            out.append(cur)
            cur = ""
            i += 2
            continue
        cur += c
        i += 1
    out.append(cur)
    return out


def _parse_groups(value_string):
    """'int([1, 2], 2), str([a], 1)' -> {type name: (n, [shown texts], ellipsis?)}"""
    groups = {}
    for m in _GROUP.finditer(value_string):
        toks = _split_top(m.group(2)) if m.group(2) else []
        groups[m.group(1)] = (int(m.group(3)), [t for t in toks if t not in ("", "...")], "..." in toks)
    return groups


def _parse_schema_text(out, depth):
    """the printed schema -> ({dotted key: groups}, {hidden prefixes}) ; None if it cannot be read back"""
    rows, hidden = {}, set()
    if depth == 0:
        lines = out.rstrip("\n").split("\n")
        if lines[0] != "{" or lines[-1] != "}":
            return None
        for line in lines[1:-1]:
            m = re.match(r"^ '(.*?)': '(.*)',$", line)
            if not m:
                return None
            rows[m.group(1)] = _parse_groups(m.group(2))
        return rows, hidden
    try:
        d = ast.literal_eval(out.replace("{...}", "'<HIDDEN>'"))
    except (ValueError, SyntaxError):
        return None

    def walk(x, pre):
        for k, v in x.items():
            if isinstance(v, dict):
                walk(v, pre + [k])
            elif v == "<HIDDEN>":
                hidden.add(".".join(pre + [k]))
            else:
                rows[".".join(pre + [k])] = _parse_groups(v)
    walk(d, [])
    return rows, hidden


def _cli_argv(case, ids, n):
    """the command line a user types for one case (spellings of the flags alternate with n)"""
    if case["cmd"] == "schema":
        argv = ["schema"]
        if case["xc"]:
            argv.append("-x" if n % 2 else "--exclude-const")
        if case["depth"]:
            argv += ["-t" if n % 2 else "--depth", str(case["depth"])]
        if case["prec"]:
            argv += ["-p" if n % 2 else "--precision", "1"]
        if case["r"] != 5 or n % 3 == 0:
            argv += ["-r" if n % 2 else "--max-num-range", str(case["r"])]
        if case["kind"] == "ids":
            argv += ["-j" if n % 2 else "--job-id"] + [ids[i - 1] for i in case["sel"]]
    else:
        argv = ["diff"]
        if case["kind"] == "ids":
            argv += [ids[i - 1] for i in case["sel"]]
    if case["kind"] == "filter":
        argv += ["-f", uncps(case["fk"]), json.dumps(from_wire(case["fv"]))]
    return argv


def _judge_cli(case, ids, sps, code, out, err):
    """-> (kind | None, text): the printed answer of the real command against the rows / diffs TLC requires"""
    sel = case["sel"]
    if code != 0:
        return "exit-status-1", "exit status 1: %s" % err.strip()[-200:]
    if case["cmd"] == "diff":
        blocks, cur = [], None
        for line in out.split("\n"):
            if re.fullmatch(r"[0-9a-f]{32}", line):
                cur = [line, ""]
                blocks.append(cur)
            elif cur is not None:
                cur[1] += line + "\n"
            elif line.strip():
                return "unreadable-output", "output does not start with a job id: %r" % out[:200]
        got = {}
        for jid, text in blocks:
            try:
                got[jid] = ast.literal_eval(text)
            except (ValueError, SyntaxError):
                return "unreadable-output", "cannot read the state point printed for %s: %r" % (jid, text[:200])
        if set(got) != {ids[i - 1] for i in sel} or len(blocks) != len(sel):
            return "wrong-jobs", "printed the jobs %s, selected were %s" % (sorted(got), [sps[i - 1] for i in sel])
        for n, i in enumerate(sel):
            want = from_wire(case["d"][n])
            if tkey(plain(got[ids[i - 1]])) != tkey(want):
                return "wrong-difference", "for %r printed %r, required %r" % (sps[i - 1], got[ids[i - 1]], want)
        return None, ""
    parsed = _parse_schema_text(out, case["depth"])
    if parsed is None:
        return "unreadable-output", "cannot read the printed schema back: %r" % out[:300]
    rows, hidden = parsed
    want = {uncps(r["k"]): {g["t"]: g for g in r["groups"]} for r in case["rows"]}
    whidden = {uncps(h) for h in case["hidden"]}
    if set(rows) - set(want):
        return "key-extra", "printed keys %s, required %s" % (sorted(rows), sorted(want))
    if set(want) - set(rows):
        return "key-missing", "printed keys %s, required %s" % (sorted(rows), sorted(want))
    if hidden != whidden:
        return "nesting", "printed {...} under %s, required under %s" % (sorted(hidden), sorted(whidden))
    for k in sorted(want):
        if set(rows[k]) != set(want[k]):
            return "type-groups", "key %s: printed types %s, required %s" % (k, sorted(rows[k]), sorted(want[k]))
        for t, g in want[k].items():
            n, shown, ell = rows[k][t]
            texts = {uncps(x) for x in g["texts"]}
            if n != g["n"]:
                return "count", "key %s type %s: printed count %d, required %d" % (k, t, n, g["n"])
            if ell != g["ell"]:
                return "ellipsis", "key %s type %s (%d values, -r %d): %s" % (k, t, n, case["r"], "values hidden" if ell else "no values hidden")
            if (not ell and (set(shown) != texts or len(shown) != max(len(texts), 0) and not case["prec"])) or (ell and (not set(shown) <= texts or len(shown) != case["r"])):
                return "values", "key %s type %s: printed %s, required %s%s" % (k, t, shown, sorted(texts), " (any %d of them)" % case["r"] if ell else "")
    return None, ""


def _work_cli(item):
    idx, rec, root = item
    from ..clifront import run_cli
    sps = [from_wire(w) for w in rec["jobs"]]
    out = {"n": 0, "judged": 0, "keys": set(), "viol": [], "sample": None}
    corpus = Corpus(os.path.join(root, "k%d" % idx), sps)
    try:
        for n, case in enumerate(rec["cases"]):
            argv = _cli_argv(case, corpus.ids, n + idx)
            code, so, se = run_cli(corpus.root, corpus.root, argv)
            out["n"] += 1
            out["keys"].add(("cli", case["cmd"], case["kind"], _shape(sps, case["sel"]), case.get("xc"), case.get("r"), case.get("prec"), case.get("depth")))
            if case["cmd"] == "schema" and not case["judged"]:
                continue
            out["judged"] += 1
            kind, text = _judge_cli(case, corpus.ids, sps, code, so, se)
            if kind:
                out["viol"].append(("cli:%s:%s" % (case["cmd"], kind), "$ signac %s  (project with the jobs %r; selected %r) -> %s" % (
                    " ".join(argv), sps, [sps[i - 1] for i in case["sel"]], text), {"kind": "cli", "jobs": rec["jobs"], "case": case, "n": n + idx}))
            if idx % 7 == 1 and n == len(rec["cases"]) // 3 and case["cmd"] == "schema":
                out["sample"] = {"command": "signac " + " ".join(argv), "jobs": sps, "printed": so, "required_rows": [
                    [uncps(r["k"]), [[g["t"], g["n"], [uncps(x) for x in g["texts"]]] for g in r["groups"]]] for r in case["rows"]]}
    finally:
        corpus.close()
    return out


def _cli_phase(ctx, flags):
    fout = os.path.join(ctx.work, "cli.ndjson")
    consts = {"MODE": '"universe"', "MAXJOBS": 0, "NRANDOM": 0, "RANDMAX": 1, "NCLI": 24 if ctx.quick else 120,
              "FixedD1": tlc.lit(flags["FixedD1"]), "FixedD2": tlc.lit(flags["FixedD2"]), "FixedD3": tlc.lit(flags["FixedD3"])}
    r = tlc.run("query/Schema.tla", cfg_text=tlc.cfg(consts, postcondition="ExportCli"), workdir=ctx.work, workers=WORKERS, seed=ctx.seed % 10**6,
                env={"CLI_OUT": fout, "CASES_OUT": fout + ".unused"}, coverage=False, allow_violation=False)
    ctx.add_tlc("Schema command-line cases (CliFaithful checked, ExportCli)", r)
    recs = [json.loads(l) for l in open(fout)]
    root = ctx.mkdtemp("cli")
    n = judged = 0
    for o in core.pmap(_work_cli, [(i, rec, root) for i, rec in enumerate(recs)], procs=WORKERS):
        ctx.count(n=o["n"], traces=o["n"])
        n += o["n"]
        judged += o["judged"]
        for k in o["keys"]:
            ctx.count(k, n=0)
        for sig, what, rp in o["viol"]:
            ctx.violation(sig, what, rp)
        if o["sample"]:
            ctx.sample(o["sample"], cap=8)
    # binding demonstration: a corrupted expectation (one required value text changed) must be rejected
    rec = next(x for x in recs if len(x["jobs"]) >= 2)
    case = next(c for c in rec["cases"] if c["cmd"] == "schema" and c["judged"] and c["rows"] and c["depth"] == 0 and not c["prec"] and c["kind"] == "none")
    from ..clifront import run_cli
    sps = [from_wire(w) for w in rec["jobs"]]
    corpus = Corpus(os.path.join(root, "selftest"), sps)
    code, so, se = run_cli(corpus.root, corpus.root, _cli_argv(case, corpus.ids, 1))
    bad = json.loads(json.dumps(case))
    bad["rows"][0]["groups"][0]["texts"][0] = cps("corrupted")
    st = {"cli_unchanged_case_accepted": _judge_cli(case, corpus.ids, sps, code, so, se)[0] is None,
          "cli_corrupted_expected_value_detected": _judge_cli(bad, corpus.ids, sps, code, so, se)[0] is not None}
    corpus.close()
    ctx.cov["command_line"] = {"corpora": len(recs), "commands_run": n, "commands_judged": judged,
                               "not_judged": "selections on which the conformant model deviates (D2) and -t DEPTH with a key that is scalar in one job and a mapping in another"}
    return st


# ---------------------------------------------------------------------------------------------------------
def _tla_to_py(v):
    """a JsonValue record as TLC prints it (parsed by tlaparse) -> python value"""
    t = v["t"]
    if t == "null": return None
    if t == "bool": return bool(v["b"])
    if t == "int": return int(v["n"])
    if t == "flt": return float(uncps(v["a"]))
    if t == "str": return uncps(v["a"])
    if t == "list": return [_tla_to_py(x) for x in v["l"]]
    if t == "map": return {uncps(k): _tla_to_py(x) for k, x in (v["m"].items() if isinstance(v["m"], dict) else [])}
    raise ValueError(t)


def run(ctx):
    ctx.assumptions += ["float -> repr text and float integrality enter the spec as atoms (harness computes them with the standard library)",
                        "TLC, the TLA+ JSON community module", "universe excludes: empty mappings as values, mappings inside lists, "
                        "ints >= 2**31, nan/inf/-0.0 (signac stores them, the spec does not model them)"]
    ctx.cov["rule"] = ("case = (corpus, selection, exclude_const) for detect_schema and (corpus, selection) for diff_jobs; distinct = distinct "
                       "(type shapes of the selected state points, exclude_const, subset spelling). quick: ALL corpora of 0..3 jobs over 22 "
                       "state points {a in int/float/bool/str/None/lists/mappings/missing} x {b missing/0} x all selections; thorough adds "
                       "random corpora of up to 8 jobs over 300 state points; plus recorded random real corpora judged by TLC")
    flags = _probe(ctx.work)
    ctx.cov["deviation_flags_probed"] = flags
    # ---- spec -> code ------------------------------------------------------------------------------
    out = os.path.join(ctx.work, "cases.ndjson")
    consts = {"MODE": '"universe"', "MAXJOBS": 3, "NRANDOM": 0 if ctx.quick else 2500, "RANDMAX": 8, "NCLI": 0,
              "FixedD1": tlc.lit(flags["FixedD1"]), "FixedD2": tlc.lit(flags["FixedD2"]), "FixedD3": tlc.lit(flags["FixedD3"])}
    r = tlc.run("query/Schema.tla", cfg_text=tlc.cfg(consts, invariants=INVS, postcondition="Export"), workdir=ctx.work, workers=WORKERS,
                seed=ctx.seed % 10**6, env={"CASES_OUT": out}, coverage=False, allow_violation=False, heap="8g")
    ctx.add_tlc("Schema universe: invariants %s" % INVS, r)
    recs = [json.loads(l) for l in open(out)]
    if len(recs) != r.distinct:
        raise core.MachineryError("exported %d corpora but TLC found %d states" % (len(recs), r.distinct))
    root = ctx.mkdtemp("uni")
    outs = core.pmap(_work_universe, [(i, rec, root) for i, rec in enumerate(recs)], procs=WORKERS)
    devcases = _collect(ctx, outs)
    ctx.cov["cases_where_model_deviates_from_requirement"] = devcases
    ctx.cov["corpora"] = len(recs)
    # ---- the requirement on the conformant model: TLC's counterexample, replayed -----------------------
    consts2 = dict(consts, MAXJOBS=2, NRANDOM=0)
    r2 = tlc.run("query/Schema.tla", cfg_text=tlc.cfg(consts2, invariants=["ModelMeetsRequirement"], alias="Shown"), workdir=ctx.work, workers=1,
                 coverage=False, allow_violation=True, env={"CASES_OUT": os.path.join(ctx.work, "unused.ndjson")})
    ctx.add_tlc("Schema: requirement ModelMeetsRequirement on the conformant model", r2)
    if r2.violation:
        if r2.violation["trace"]:
            st = r2.violation["trace"][-1][1]
        else:   # "violated by the initial state:" has no State header
            import re
            from .. import tlaparse
            m = re.search(r"violated by the initial state:\n(.*?)\n\s*\n", r2.stdout, re.S)
            if not m:
                raise core.MachineryError("cannot find TLC's counterexample state")
            st = tlaparse.parse_state(m.group(1))
        sps = [_tla_to_py(x) for x in st["corpus"]]
        c = Corpus(os.path.join(ctx.work, "cex"), sps)
        reproduced = []
        for xc in (False, True):
            real = c.schema(list(range(1, len(sps) + 1)), xc, use_none=True)
            reproduced.append({"keys": sorted(real[1]), "values": sorted((k, t, show(v)) for k, t, v in real[2])} if real[0] == "ok" else real[1])
        c.close()
        ctx.cov["tlc_counterexample"] = {"invariant": "ModelMeetsRequirement", "corpus": sps, "real_detect_schema[xc=False,True]": reproduced,
                                         "note": "the same corpus is among the replayed universe cases; the verdict comes from there"}
        if all(flags.values()):
            raise core.MachineryError("all deviations probed as fixed but the model still deviates")
    elif not all(flags.values()):
        raise core.MachineryError("a deviation is switched on but TLC found no case where the model leaves the requirement (vacuous)")
    # ---- code -> spec ------------------------------------------------------------------------------
    _file_mode(ctx, flags, 150 if ctx.quick else 1500)
    # ---- binding self-test (pure comparator test, independent of the code under test): the required result itself is
    #      accepted; a corrupted expectation, a dropped job and an un-nested diff are noticed ------------------------------
    rec = next(x for x in recs if len(x["jobs"]) == 2 and any(len(c["triples"]) >= 2 and not c["dev"] for c in x["schema"]))
    sps = [from_wire(w) for w in rec["jobs"]]
    case = next(cc for cc in rec["schema"] if len(cc["triples"]) >= 2 and not cc["dev"])
    wk, wt = want_schema(case)
    fake = ("ok", wk, wt)
    bad = dict(case, triples=case["triples"][1:])
    dcase = next(d for d in rec["diffs"] if len(d["sel"]) == 2)
    ids = ["id%d" % i for i in range(1, len(sps) + 1)]
    dfake = ("ok", {ids[i - 1]: from_wire(dcase["d"][n]) for n, i in enumerate(dcase["sel"])})
    ddrop = ("ok", {ids[dcase["sel"][0] - 1]: from_wire(dcase["d"][0])})
    ctx.cov["binding_selftest"] = {
        "required_result_accepted": _judge_schema(sps, case, fake, "subset") == [] and _judge_diff(sps, ids, dcase, dfake, dcase["sel"]) == [],
        "corrupted_expected_value_detected": _judge_schema(sps, bad, fake, "subset") != [],
        "diff_with_dropped_job_detected": _judge_diff(sps, ids, dcase, ddrop, dcase["sel"]) != [],
        "type_confusion_detected": _judge_schema(sps, case, ("ok", wk, {(k, t, ("float", v[1] + ".0") if v[0] == "int" else v) for k, t, v in wt}), "subset") != []
                                   or not any(v[0] == "int" for _, _, v in wt),
    }
    # ---- the command line front (signac schema / signac diff) ------------------------------------------------
    ctx.cov["binding_selftest"].update(_cli_phase(ctx, flags))
    if not all(ctx.cov["binding_selftest"].values()) and not any(v.signature.startswith("cli:") for v in ctx.violations):
        raise core.MachineryError("binding self-test failed: %r" % ctx.cov["binding_selftest"])
    ctx.cov["exhaustive"] = "all corpora of <= 3 jobs over the 22-state-point universe x all selections x exclude_const"


def replay(ctx, data):
    sps = [from_wire(w) for w in data["jobs"]]
    c = Corpus(os.path.join(ctx.work, "replay"), sps)
    case = data["case"]
    print("state points:", sps)
    if data["kind"] == "cli":
        from ..clifront import run_cli
        argv = _cli_argv(case, c.ids, data["n"])
        code, so, se = run_cli(c.root, c.root, argv)
        print("$ signac " + " ".join(argv))
        print(so + se, end="")
        print("exit status", code)
        kind, text = _judge_cli(case, c.ids, sps, code, so, se)
        c.close()
        print("VIOLATED [cli:%s:%s]: %s" % (case["cmd"], kind, text) if kind else "the printed answer is the required one")
        return 1 if kind else 0
    if data["kind"] == "schema":
        real = c.schema(case["sel"], case["xc"], use_none=data["how"] == "none", spelling=int(data["how"][-1]) if data["how"][-1].isdigit() else 0)
        v = _judge_schema(sps, case, real, data["how"])
    else:
        real = c.diff(case["sel"], reverse=data["order"] != case["sel"])
        v = _judge_diff(sps, c.ids, case, real, data["order"])
    c.close()
    for sig, what in v:
        print("VIOLATED [%s]: %s" % (sig, what))
    if not v:
        print("requirement holds on this case")
    return 1 if v else 0

"""C01 - job id = md5(Canon(state point)); Canon is specified in spec/jobid/JobId.tla.

spec -> code : TLC enumerates the bounded universe, checks AsciiOnly / KeysSorted / Injective and exports
               (value, canonical text); every case is replayed into the real library under every spelling.
code -> spec : seeded random deep values are pushed through the real library, the recorded ids are
               checked against md5 of the canonical text TLC computes for the same values (MODE = "file").
"""
import hashlib
import itertools
import json
import os
import random
import subprocess
import sys

from .. import core, tlc
from ..jsonenc import from_wire, to_wire, type_exact_eq, shape

GOLD = os.path.join(tlc.SPEC_ROOT, "jobid", "golden.json")


def _permutations(v, rnd, limit=24):
    """all key orders of the top-level mapping (<= 4 keys) with nested mappings reversed/shuffled"""
    def shuffle_inner(x, mode):
        if isinstance(x, dict):
            items = [(k, shuffle_inner(y, mode)) for k, y in x.items()]
            if mode == "rev":
                items.reverse()
            elif mode == "rnd":
                rnd.shuffle(items)
            return dict(items)
        if isinstance(x, (list, tuple)):
            return type(x)(shuffle_inner(y, mode) for y in x)
        return x
    keys = list(v)
    perms = itertools.permutations(keys) if len(keys) <= 4 else (rnd.sample(keys, len(keys)) for _ in range(limit))
    for i, p in enumerate(itertools.islice(perms, limit)):
        yield {k: shuffle_inner(v[k], ("same", "rev", "rnd")[i % 3]) for k in p}


def _tuples(x):
    if isinstance(x, dict):
        return {k: _tuples(y) for k, y in x.items()}
    if isinstance(x, list):
        return tuple(_tuples(y) for y in x)
    return x


_CHILD = r"""
import sys, json
sys.path.insert(0, %r)
from signac.job import calc_id
out = []
for line in open(sys.argv[1]):
    sp = json.loads(line)
    out.append([calc_id(sp), calc_id(json.loads(json.dumps(sp)))])
json.dump(out, open(sys.argv[2], "w"))
"""


def _check_cases(ctx, cases, project, rnd, source):
    """cases: list of (python value, expected id from TLC's canonical text, canon bytes)"""
    import copy
    import signac
    from signac.job import calc_id
    seen_ids = {}
    nshape = set()
    for n, (sp, want, canon) in enumerate(cases):
        def bad(check, got):
            ctx.violation("%s:%s" % (check, shape(sp)),
                          "%s gives %r but md5(Canon) = %s for state point %r (canonical text %r)" % (check, got, want, sp, canon.decode()),
                          {"sp": sp, "canon": canon.decode(), "want": want, "check": check, "source": source})
        ctx.count(("case", shape(sp), len(canon) // 8))
        nshape.add(shape(sp))
        if calc_id(sp) != want:
            bad("calc_id", calc_id(sp))
            continue
        for q in _permutations(sp, rnd):
            if calc_id(q) != want:
                bad("key-order", calc_id(q)); break
        if calc_id(_tuples(sp)) != want:
            bad("tuple-spelling", calc_id(_tuples(sp)))
        arg = copy.deepcopy(sp)
        job = project.open_job(arg)
        if job.id != want:
            bad("open_job.id", job.id)
        # aliasing: mutate the caller's mapping afterwards
        arg["__later__"] = 1
        for k in list(arg):
            if isinstance(arg[k], list):
                arg[k].append(0)
            if isinstance(arg[k], dict):
                arg[k]["__later__"] = 1
        if job.id != want or not type_exact_eq(job.statepoint(), sp):
            bad("aliasing", (job.id, job.statepoint()))
        if want in seen_ids and not type_exact_eq(seen_ids[want], sp):
            bad("id-collision", seen_ids[want])
        seen_ids[want] = sp
        if n % 7 == 0 or len(cases) < 600:
            job.init()
            d = os.path.join(project.workspace, want)
            if not os.path.isdir(d):
                bad("directory-name", sorted(os.listdir(project.workspace))[:3])
            else:
                with open(os.path.join(d, "signac_statepoint.json")) as f:
                    disk = json.load(f)
                if not type_exact_eq(disk, json.loads(json.dumps(sp))) or calc_id(disk) != want:
                    bad("file-roundtrip", disk)
                # synced-collection spelling: the live state point object and a document sub-tree
                if project.open_job(job.statepoint).id != want:
                    bad("synced-statepoint-spelling", project.open_job(job.statepoint).id)
                job.doc["v"] = sp
                if project.open_job(job.doc["v"]).id != want:
                    bad("synced-document-spelling", project.open_job(job.doc["v"]).id)
                ctx.count(traces=1, n=0)
            job.remove()
    return nshape


def _fresh_interpreter(ctx, cases):
    fin, fout = os.path.join(ctx.work, "fresh_in.ndjson"), os.path.join(ctx.work, "fresh_out.json")
    with open(fin, "w") as f:
        for sp, _, _ in cases:
            f.write(json.dumps(sp) + "\n")
    env = dict(os.environ, PYTHONHASHSEED="12345")
    subprocess.run([sys.executable, "-c", _CHILD % os.environ.get("VERIF_REPO", "/repo"), fin, fout], check=True, env=env, cwd=ctx.work)
    for (sp, want, canon), (a, b) in zip(cases, json.load(open(fout))):
        if a != want or b != want:
            ctx.violation("fresh-session:%s" % shape(sp), "fresh interpreter (other PYTHONHASHSEED) computes %s / %s after a JSON round trip, expected %s for %r" % (a, b, want, sp),
                          {"sp": sp, "want": want, "check": "fresh-session"})
        ctx.count(n=1)


def _rand_value(rnd, depth):
    r = rnd.random()
    if depth <= 0 or r < 0.55:
        k = rnd.randrange(9)
        if k == 0: return None
        if k == 1: return rnd.random() < 0.5
        if k == 2: return rnd.choice([0, 1, -1, 7, 10, 2**31 - 1, 2**31, -2**31, 2**53 - 1, -(2**53 - 1), rnd.randrange(-10**15, 10**15)])
        if k == 3: return rnd.choice([0.0, -0.0, 1.0, 0.5, 1e16, 1e-7, 1.5e300, 5e-324, 0.1, 1 / 3, rnd.uniform(-1e6, 1e6), float(rnd.randrange(100))])
        if k == 4: return rnd.randrange(-100, 100)
        alphabet = ["a", "b", "Z", "0", " ", "_", "\"", "\\", "\n", "\t", "\x00", "\x1f", "\x7f", "é", "ä", "ß", "€", " ", "中", "😀", "𝒳", "/", "'"]
        return "".join(rnd.choice(alphabet) for _ in range(rnd.randrange(0, 6)))
    if r < 0.78:
        return [_rand_value(rnd, depth - 1) for _ in range(rnd.randrange(0, 4))]
    return _rand_map(rnd, depth - 1, rnd.randrange(0, 4))


def _rand_map(rnd, depth, n):
    keys = ["a", "b", "aa", "ab", "B", "ä", "é", "z", "key with space", "0", "1", "10", "😀", "_x", "", "A",
            "\u00b5", "\u03bc", "x\u00b2", "x2", "e\u0301", "\ufb01t", "fit", "\u212b", "\u00c5", "\uff21", "\u1e9b\u0323"]   # not NFC/NFKC-stable next to their normal forms
    return {k: _rand_value(rnd, depth) for k in rnd.sample(keys, n)}


def run(ctx):
    import signac
    rnd = random.Random(ctx.seed)
    ctx.assumptions += ["hashlib.md5", "float.__repr__ / int.__str__ (float and big-integer text enter the spec as atoms)",
                        "TLC, the TLA+ JSON community module"]
    ctx.cov["rule"] = ("case = one state point; distinct = distinct (type shape, text length class); universe: one-key state points "
                       "over every depth<=1 value of the alphabet exhaustively + RandomSubset samples of 2..TOPWIDTH keys / depth 3; "
                       "each replayed under all key orders, tuple, synced-collection spellings, file round trip, fresh interpreter")
    root = ctx.mkdtemp("proj")
    project = signac.init_project(root)
    # ---- spec -> code ------------------------------------------------------------------------
    out = os.path.join(ctx.work, "cases.ndjson")
    consts = {"MODE": '"universe"', "WIDTH": 1 if ctx.quick else 2, "TOPWIDTH": 3 if ctx.quick else 4, "NSAMPLE": 100 if ctx.quick else 500}
    cfgt = tlc.cfg(consts, invariants=["AsciiOnly", "KeysSorted"], postcondition="Export")
    r = tlc.run("jobid/JobId.tla", cfg_text=cfgt, workdir=ctx.work, seed=ctx.seed % 10**6, env={"CASES_OUT": out}, coverage=False, allow_violation=False)
    ctx.add_tlc("JobId universe", r)
    cases = []
    for line in open(out):
        rec = json.loads(line)
        canon = bytes(rec["c"])
        cases.append((from_wire(rec["v"]), hashlib.md5(canon).hexdigest(), canon))
    if len(cases) != r.distinct:
        raise core.MachineryError("exported %d cases but TLC found %d states" % (len(cases), r.distinct))
    shapes = _check_cases(ctx, cases, project, rnd, "universe")
    _fresh_interpreter(ctx, cases[:: (1 if not ctx.quick else 3)])
    for c in cases[:2] + cases[len(cases) // 2: len(cases) // 2 + 2]:
        ctx.sample({"sp": c[0], "canon": c[2].decode(), "id": c[1]})
    # ---- code -> spec ------------------------------------------------------------------------
    from signac.job import calc_id
    n = 400 if ctx.quick else 6000
    vals = [_rand_map(rnd, 3, rnd.randrange(0, 5)) for _ in range(n)]
    # every boundary of the escaping rules, as a value and as a key, in a flat and in a nested state point
    for cp in list(range(0, 0x21)) + [0x22, 0x2f, 0x5c, 0x7e, 0x7f, 0x80, 0x9f, 0xa0, 0xad, 0xff, 0x100, 0x2028, 0x2029, 0xd7ff, 0xe000, 0xfffd, 0xfffe, 0xffff,
                                     0x10000, 0x10001, 0x1f600, 0x10ffff]:
        ch = chr(cp)
        vals += [{"k": ch}, {"k": "a" + ch + "b", "n": 1}, {ch: 0}, {"m": {"x" + ch: [ch, 1.5]}}]
    gold = [c[0] for c in json.load(open(GOLD))["cases"]]
    goldids = [c[1] for c in json.load(open(GOLD))["cases"]]
    vals = gold + vals
    fin, fout = os.path.join(ctx.work, "impl_in.ndjson"), os.path.join(ctx.work, "impl_out.ndjson")
    with open(fin, "w") as f:
        for v in vals:
            f.write(json.dumps(to_wire(v)) + "\n")
    cfgt = tlc.cfg({"MODE": '"file"', "WIDTH": 1, "TOPWIDTH": 1, "NSAMPLE": 1}, invariants=["AsciiOnly", "KeysSorted"], postcondition="Export")
    r2 = tlc.run("jobid/JobId.tla", cfg_text=cfgt, workdir=ctx.work, env={"CASES_FILE": fin, "CASES_OUT": fout}, coverage=False, allow_violation=False)
    ctx.add_tlc("JobId recorded values", r2)
    canons = [bytes(json.loads(l)["c"]) for l in open(fout)]
    if len(canons) != len(vals):
        raise core.MachineryError("TLC returned %d canonical texts for %d values" % (len(canons), len(vals)))
    cases2 = [(v, hashlib.md5(c).hexdigest(), c) for v, c in zip(vals, canons)]
    for (v, want, c), g in zip(cases2, goldids):
        if want != g:
            raise core.MachineryError("spec disagrees with a published golden id: %r -> %s, published %s" % (v, want, g))
        if calc_id(v) != g:
            ctx.violation("golden:%s" % g[:8], "published id %s of %r is no longer reproduced (got %s)" % (g, v, calc_id(v)), {"sp": v, "want": g})
    shapes |= _check_cases(ctx, cases2, project, rnd, "random")
    _fresh_interpreter(ctx, cases2)
    ctx.sample({"sp": cases2[-1][0], "canon": cases2[-1][2].decode(), "id": cases2[-1][1], "source": "random deep value"})
    ctx.cov["value_shapes"] = len(shapes)
    # ---- binding self-test: a corrupted canonical text must be noticed ------------------------
    sp, want, canon = cases[len(cases) // 3]
    ctx.cov["binding_selftest"] = {"corrupted_text_detected": hashlib.md5(canon.replace(b": ", b":", 1)).hexdigest() != calc_id(sp) if b": " in canon else None}
    ctx.cov["exhaustive"] = False


def replay(ctx, data):
    from signac.job import calc_id
    got = calc_id(data["sp"])
    print("calc_id ->", got, "expected", data["want"])
    return 0 if got == data["want"] else 1

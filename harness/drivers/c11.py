"""C11 - crashes and I/O errors in life-cycle operations never lose data or forge a job.

spec      spec/lifecycle/Lifecycle.tla: Init, Rekey, Move, Clone, Remove, Clear/Reset as step sequences exactly as the
          pinned tree performs them, every mutating step with the outcomes ok / Crash before or inside it / errno failure
          followed by the code's handler path; scenarios fresh / existing / colliding destination, payload with a nested
          directory, a second untouched job.
TLC       OthersUntouched, PayloadUnderOneId, ValidOrReported, NoForgery in EVERY reachable state; ErrorNotSilent in every
          state in which the operation returned. <= 1 errno fault (+ a crash anywhere after it) exhaustively,
          <= 2 errno faults by -simulate. Deviation D1 (clone leaves a validating partial destination after an error) is a
          named constant; TLC produces the counterexample on the conformant model and it is replayed on the real code.
binding   spec -> code: every terminal state of TLC's state graph = one fault script, executed on the real library under
          harness/fsshim.py (crash@k freeze, torn@k,p, fail@k,errno), then observed with a FRESH Project: check(),
          listing, byte snapshot.  code -> spec: the step trace, result, final raw disk and check() report of every such
          execution are validated by TLC (LifecycleTrace.tla).  Independent of the model: fault at each of the N recorded
          mutating steps (5 errnos, crash, torn classes), errno faults at each recorded READ step, double faults sampled
          from ctx.seed.
verdict   from the observation judged by the stated post-conditions (judge_c11); trace rejection without a false
          post-condition is SPEC-DRIFT.
"""
import json
import os
import random
import re
import shutil

from .. import core, tlc
from ..fsshim import PREFIX_CLASSES, prefix_len
from . import c10 as L
from .c10 import SP, ID, FN_SP, FN_DOC, DOCS, PAYLOAD, Scen, ERRNOS, ERRNOS2

LEVEL = "model_checking"
ALL_L = ["init_fresh", "init_existing", "init_nosp", "init_badsp", "init_force", "rekey_fresh", "rekey_emptydst", "rekey_collide",
         "move_fresh", "move_existing", "move_collide", "clone_fresh", "clone_existing", "clone_existing_rev", "clone_collide",
         "remove_fwd", "remove_rev", "clear", "reset"]
INV = ["OthersUntouched", "PayloadUnderOneId", "ValidOrReported", "NoForgery", "ErrorNotSilent"]
HEX32 = re.compile(r"^[0-9a-f]{32}$")


def apply_mutation():
    L.apply_mutation()


# ---------------------------------------------------------------------------------------------------
# real scenarios
def _Q(box, existing=True, collide=False):
    q = L._mk_project(box, "Q")
    if existing:
        L._mk_job(q, "O2", DOCS["docO2"])
    if collide:
        L._mk_job(q, "A", DOCS["docQ"])
    return q


def _proj(box, name):
    import signac
    return signac.Project(os.path.join(box, name))


def wsdir(pr, role):
    return "%s/workspace/%s" % (pr, ID[role])


def c11_scenarios():
    S = []

    def add(spec, variant, build, setup, configs=("default",), **kw):
        for c in configs:
            S.append(Scen(spec, variant, build, setup, config=c, **kw))

    A, B = wsdir("P", "A"), wsdir("P", "B")
    QA = wsdir("Q", "A")

    # ---- init ------------------------------------------------------------------------------------
    def init_setup(force=False):
        def setup(box):
            j = L._P(box).open_job(SP["A"])
            return lambda: j.init(force=force)
        return setup

    def build_nosp(box):
        L.build_base(box, a="none")
        os.makedirs(os.path.join(box, A))
        with open(os.path.join(box, A, "data.txt"), "wb") as f:
            f.write(PAYLOAD["data.txt"])

    def build_badsp(box):
        L.build_base(box, a="none")
        os.makedirs(os.path.join(box, A))
        with open(os.path.join(box, A, FN_SP), "w") as f:
            f.write(json.dumps(SP["O"]))
    add("init_fresh", "init", lambda box: L.build_base(box, a="none"), init_setup(), configs=("default", "nomt"), op="init", src=A, payload=False)
    add("init_existing", "init", lambda box: L.build_base(box), init_setup(), op="init", src=A, payload=True)
    add("init_nosp", "init", build_nosp, init_setup(), op="init", src=A, payload=False)
    add("init_badsp", "init", build_badsp, init_setup(), op="init", src=A, payload=False)
    add("init_force", "init-force", build_badsp, init_setup(True), configs=("default", "nomt"), op="init", src=A, payload=False)

    # ---- state point change: three entry points ------------------------------------------------------
    def rekey_setup(how):
        def setup(box):
            j = L._P(box).open_job(SP["A"])
            if how == "setkey":
                return lambda: setattr(j.sp, "a", 2)
            if how == "assign":
                return lambda: setattr(j, "statepoint", dict(SP["B"]))
            return lambda: j.update_statepoint(dict(SP["B"]), overwrite=True)
        return setup

    def build_emptydst(box):
        L.build_base(box)
        os.makedirs(os.path.join(box, B))

    def build_rcollide(box):
        p = L.build_base(box)
        L._mk_job(p, "B", DOCS["docB"])
    for how in ("setkey", "assign", "update"):
        add("rekey_fresh", how, lambda box: L.build_base(box), rekey_setup(how), configs=("default", "nomt") if how == "setkey" else ("default",),
            op="rekey", src=A, dest=B, payload=True, sp_target=SP["B"])
    add("rekey_emptydst", "setkey", build_emptydst, rekey_setup("setkey"), op="rekey", src=A, dest=B, payload=True, sp_target=SP["B"])
    add("rekey_collide", "setkey", build_rcollide, rekey_setup("setkey"), op="rekey", src=A, dest=B, payload=True, sp_target=SP["B"], frozen_dest=True)
    add("rekey_collide", "update", build_rcollide, rekey_setup("update"), op="rekey", src=A, dest=B, payload=True, sp_target=SP["B"], frozen_dest=True)

    # ---- move / clone into another project --------------------------------------------------------------
    def bq(existing, collide):
        def build(box):
            L.build_base(box)
            _Q(box, existing, collide)
        return build

    def move_setup(fresh):
        def setup(box):
            j = L._P(box).open_job(SP["A"])
            q = _proj(box, "Q")
            if fresh:
                os.rmdir(q.workspace)
            return lambda: j.move(q)
        return setup

    def clone_setup(fresh):
        def setup(box):
            j = L._P(box).open_job(SP["A"])
            q = _proj(box, "Q")
            if fresh:
                os.rmdir(q.workspace)
            return lambda: q.clone(j)
        return setup
    add("move_fresh", "move", bq(False, False), move_setup(True), op="move", src=A, dest=QA, payload=True)
    add("move_existing", "move", bq(True, False), move_setup(False), op="move", src=A, dest=QA, payload=True)
    add("move_collide", "move", bq(True, True), move_setup(False), op="move", src=A, dest=QA, payload=True, frozen_dest=True)
    add("clone_fresh", "clone", bq(False, False), clone_setup(True), op="clone", src=A, dest=QA, payload=True, clone=True)
    add("clone_existing", "clone", bq(True, False), clone_setup(False), op="clone", src=A, dest=QA, payload=True, clone=True)
    add("clone_existing_rev", "clone", bq(True, False), clone_setup(False), listing="reversed", op="clone", src=A, dest=QA, payload=True, clone=True)
    add("clone_collide", "clone", bq(True, True), clone_setup(False), op="clone", src=A, dest=QA, payload=True, clone=True, frozen_dest=True)

    # ---- removal -----------------------------------------------------------------------------------------
    def rm_setup(what):
        def setup(box):
            j = L._P(box).open_job(SP["A"])
            return getattr(j, what)
        return setup
    add("remove_fwd", "remove", lambda box: L.build_base(box), rm_setup("remove"), op="remove", src=A, payload=True, removal=True)
    add("remove_rev", "remove", lambda box: L.build_base(box), rm_setup("remove"), listing="reversed", op="remove", src=A, payload=True, removal=True)
    add("clear", "clear", lambda box: L.build_base(box), rm_setup("clear"), op="clear", src=A, payload=True, removal=True)
    add("reset", "reset", lambda box: L.build_base(box), rm_setup("reset"), op="reset", src=A, payload=True, removal=True)
    return S


# ---------------------------------------------------------------------------------------------------
# the stated post-conditions on the raw observation
def under(path, d):
    return path == d + "/" or path.startswith(d + "/")


def raw_valid(snap, d):
    """directory d (relpath without slash) validates against its name: independent of signac"""
    b = snap.get(d + "/" + FN_SP)
    if not isinstance(b, bytes):
        return None
    try:
        sp = json.loads(b.decode())
    except Exception:  # noqa
        return None
    return sp if core.my_id(sp) == os.path.basename(d) else None


def ws_entries(snap):
    out = []
    for k in snap:
        m = re.match(r"^([PQ])/workspace/([^/]+)(/?)$", k)
        if m:
            out.append((m.group(1), m.group(2), k.rstrip("/"), m.group(3) == "/"))
    return out


def judge_c11(scen, pre, post, obs, res, mode, success_disk=None, nominal_res="ok"):
    kw = scen.kw
    src, dest = kw["src"], kw.get("dest")
    crashed = res == "crash"
    bad = []
    # 1. every other job (and everything else) byte-identical
    mine = [src] if not kw.get("clone") else []
    if dest and not kw.get("frozen_dest"):
        mine.append(dest)
    ignore = ("P/workspace/", "Q/workspace/", "tmp/")
    diff = [k for k in sorted(set(pre) | set(post)) if k not in ignore and not any(under(k, d) for d in mine) and pre.get(k, "<absent>") != post.get(k, "<absent>")]
    if diff:
        bad.append(("others-modified", "paths outside the affected job changed: %s" % diff[:4]))
    # 2. the affected job's data files under exactly one id directory
    if kw.get("payload") and not kw.get("removal"):
        files = {r: pre[src + "/" + r] for r in list(PAYLOAD) + [FN_DOC]}
        dirs = [e[2] for e in ws_entries(post) if e[3]]
        full = [d for d in dirs if HEX32.match(os.path.basename(d)) and all(post.get(d + "/" + r) == b for r, b in files.items())]
        some = [d for d in dirs if any((d + "/" + r) in post for r in PAYLOAD)]
        elsewhere = [k for k in post if k.endswith(("/data.txt", "/f.bin")) and not re.match(r"^[PQ]/workspace/[^/]+/(data\.txt|nested/f\.bin)$", k)]
        if kw.get("clone"):
            ok = src in full and set(some) <= {src, dest} and not elsewhere
        else:
            ok = len(full) == 1 and some == full and not elsewhere
        if not ok:
            bad.append(("payload-not-under-exactly-one-id", "complete copies: %s, directories holding payload files: %s%s" % (
                [os.path.basename(d)[:8] for d in full], [d for d in some], (", elsewhere: %s" % elsewhere) if elsewhere else "")))
    # 3. every job directory validates or is reported by a fresh check(); nothing hides from the listing
    for pr, name, path, isdir in ws_entries(post):
        o = obs.get(pr) or {}
        if not isdir or not HEX32.match(name):
            if (path + ("/" if isdir else "")) not in pre:
                bad.append(("workspace-entry-hidden-from-listing", "%s is not a job directory name" % path))
            continue
        if isinstance(o.get("check"), str):
            bad.append(("check-raised", "fresh Project.check() raised %s" % o["check"]))
            continue
        if raw_valid(post, path) is None and name not in (o.get("check") or []):
            bad.append(("invalid-directory-not-reported", "%s does not validate and check() reported only %s" % (path, o.get("check"))))
    # 4. no directory validates with a state point the job never had
    for pr, name, path, isdir in ws_entries(post):
        if not isdir:
            continue
        sp = raw_valid(post, path)
        if sp is None:
            continue
        if path in (src, dest):
            if sp not in (SP["A"], kw.get("sp_target", SP["A"])):
                bad.append(("forged-state-point", "%s validates with %r" % (path, sp)))
        elif pre.get(path + "/" + FN_SP) != post.get(path + "/" + FN_SP):
            bad.append(("forged-state-point", "%s validates with a state point file it did not have" % path))
    # 5. a handled error is not silent
    if not crashed:
        def jobs(s):
            return {k: v for k, v in s.items() if re.match(r"^[PQ]/workspace/[^/]+", k)}
        complete = nominal_res == "ok" and success_disk is not None and L.abstract_disk(post, L.tokens_of(scen)) == success_disk
        if res == "ok":
            if nominal_res != "ok":
                # the fault-free operation refuses (collision / foreign state point file): a normal return must at least leave a
                # job that validates (clobbering is caught by others-modified)
                if raw_valid(post, dest if (dest and not kw.get("frozen_dest") and kw["op"] != "rekey") else src) is None and raw_valid(post, dest or src) is None:
                    bad.append(("silent-partial-success", "returned normally although the fault-free operation raises %s, and the job does not validate" % nominal_res))
            elif not complete:
                bad.append(("silent-partial-success", "returned normally but the result differs from a completed operation: %s" % _diffdisk(L.abstract_disk(post, L.tokens_of(scen)), success_disk)))
        elif not complete:  # an error reported although the operation is complete loses nothing and hides nothing
            prestate = jobs(pre) == jobs(post)
            detect = any(isinstance(o.get("check"), list) and o["check"] for o in obs.values())
            partial_removal = bool(kw.get("removal")) and all(
                (k in pre and (pre[k] == v or k == src + "/" + FN_DOC)) or re.search(r"/\._[0-9a-f-]{36}_" + re.escape(FN_DOC) + "$", k) for k, v in jobs(post).items())
            if not (prestate or detect or partial_removal):
                bad.append(("undetectable-partial-state", "raised %s and left neither the pre-state nor a state check() reports: %s" % (res, _diffsnap(jobs(pre), jobs(post)))))
    return bad


def _diffdisk(a, b):
    da = {tuple(x["p"]): x["v"] for x in a}
    db = {tuple(x["p"]): x["v"] for x in b}
    return ["%s: %s (completed: %s)" % ("/".join(k), da.get(k, "-"), db.get(k, "-")) for k in sorted(set(da) | set(db)) if da.get(k) != db.get(k)][:5]


def _diffsnap(a, b):
    out = []
    for k in sorted(set(a) | set(b)):
        if a.get(k, "<absent>") != b.get(k, "<absent>"):
            out.append(("+" if k not in a else "-" if k not in b else "~") + k.replace(ID["A"], "<A>"))
    return out[:8]


def kindclass(mode, res):
    if mode.get("rfaults"):
        return "fail"  # a failing read is a failing file-system call like any other
    k = L.script_kind(mode)
    if res == "crash":
        return "torn" if mode.get("torn") else "crash"
    if "fail" in k:
        return "fail"
    return k


# ---------------------------------------------------------------------------------------------------
def probe_d1(ctx):
    """the minimal repro of D1 on the tree under test: does a failed clone leave a validating partial destination?"""
    scen = next(s for s in c11_scenarios() if s.spec == "clone_existing" and s.config == "default")
    work = os.path.realpath(ctx.mkdtemp("probe"))
    out = L.run_case((L.template(ctx, scen), work, scen.key, {"faults": {"2": L._errno("EIO")}, "presnap": True}, {"observe": True}))
    if "machinery" in out:
        raise core.MachineryError("D1 probe: " + out["machinery"])
    left = any(k.startswith(scen.kw["dest"] + "/") for k in out["_snap"])
    return {"raised": out["res"], "destination_left": left, "fixed": not left and out["res"] != "ok"}


def run(ctx):
    rnd = random.Random(ctx.seed)
    nprocs = int(os.environ.get("VERIF_PROCS", "16"))
    import signac  # noqa: imported once here so that forked children do not pay for it
    ctx.assumptions += ["rename(2) atomic; a process crash loses nothing a completed write(2) delivered (PosixFs model)",
                        "harness/fsshim.py interposes on every fs entry point (strace audit in the thorough tier)",
                        "errno faults are injected at the Python/os boundary: the call has no effect (writes: optionally half of the chunk)",
                        "hashlib.md5 / json for the independent validation of job directories", "TLC"]
    ctx.cov["rule"] = ("case = (real scenario, configuration, fault script); distinct = distinct (spec scenario, entry point, configuration, kind, "
                       "step numbers, errnos, prefix class); from TLC's terminal states (<=1 errno fault [+crash]) plus the generic enumeration over "
                       "recorded mutating AND read steps plus seeded double faults")
    scens = c11_scenarios()
    # errnos: the five of the property's quantifier, plus a second group ("or a file-system call fails") - in the specification an
    # errno is a failure followed by the handler path; the handlers distinguish EEXIST/ENOTEMPTY/EACCES (destination exists),
    # ENOENT (never injected), EXDEV, EEXIST/EACCES in save(); everything else is re-raised after the roll-back
    allerr = ERRNOS + ERRNOS2
    errs = ERRNOS + (["EBUSY", "EPERM"] if ctx.quick else ERRNOS2)
    ctx.cov["errnos"] = {"exhaustive": errs, "sampled": [e for e in allerr if e not in errs]}
    d1 = probe_d1(ctx)
    fixed = bool(d1["fixed"])
    ctx.cov["deviation_flags"] = {"FixedCloneCleanup": fixed, "probe": d1}
    # ---- TLC: requirements on the specification ----------------------------------------------------------
    graphs = {}
    for spproto in ("atomic", "inplace"):
        scn = ALL_L if spproto == "atomic" else ["init_fresh", "init_force", "rekey_fresh"]
        dump = os.path.join(ctx.work, "c11graph_" + spproto)
        r = tlc.run("lifecycle/Lifecycle.tla", cfg_text=tlc.cfg(L.consts(scn, 1, sp=spproto, fixed=fixed, errnos=errs), invariants=INV), workdir=ctx.work,
                    workers=nprocs, dump=dump, coverage=False, allow_violation=False)
        ctx.add_tlc("Lifecycle operations, <=1 errno fault + crash anywhere, state point protocol %s" % spproto, r)
        graphs[spproto] = L.terminal_states(dump + ".dot")
    if not ctx.quick:  # -coverage costs ~15 s of start-up on this module; the quick tier uses the step kinds seen in the dump
        rc = tlc.run("lifecycle/Lifecycle.tla", cfg_text=tlc.cfg(L.consts(["rekey_fresh", "rekey_collide", "clone_existing", "remove_fwd", "clear", "move_fresh", "init_fresh"], 1, fixed=fixed), invariants=INV),
                     workdir=ctx.work, workers=nprocs, coverage=True, allow_violation=False)
        ctx.add_tlc("action coverage run (vacuity guard)", rc)
        ctx.require_actions(rc, ["FsStep", "DoRead", "DoControl", "DoReturn", "Fail", "Crash", "CrashTorn"])
    need_ops = {"rename", "unlink", "mkdir", "rmdir", "opent", "write", "close", "utime", "chmod", "isdir", "isfile", "load", "listdir", "br", "mark", "brf", "ret", "crash"}
    if not need_ops <= graphs["atomic"][1]:
        raise core.MachineryError("vacuous model: step kinds never taken: %s" % sorted(need_ops - graphs["atomic"][1]))
    nsim = 3000 if ctx.quick else 40000
    rs = tlc.run("lifecycle/Lifecycle.tla", cfg_text=tlc.cfg(L.consts(ALL_L, 2, fixed=fixed, errnos=allerr), invariants=INV), workdir=ctx.work, workers=nprocs,
                 simulate="num=%d" % nsim, depth=200, seed=ctx.seed % 10 ** 6, coverage=False, allow_violation=False, timeout=1500)
    if rs.generated == 0:
        m = re.search(r"(\d+) states checked", rs.stdout) or re.search(r"(\d+) states generated", rs.stdout)
        rs.generated = int(m.group(1)) if m else nsim
        rs.distinct = max(rs.distinct, 1)
    ctx.add_tlc("simulation with <=2 errno faults (%d behaviours)" % nsim, rs)
    # the requirement WITHOUT the deviation: TLC must produce the D1 counterexample, which is replayed on the real code
    d1_cases = []
    if not fixed:
        rv = tlc.run("lifecycle/Lifecycle.tla", cfg_text=tlc.cfg(L.consts(["clone_existing"], 1, fixed=False), invariants=["ErrorNotSilentStrict"]),
                     workdir=ctx.work, workers=1, coverage=False, allow_violation=True)  # one worker: the same shortest counterexample every run
        ctx.add_tlc("ErrorNotSilent without the D1 exemption (counterexample expected)", rv)
        if not rv.violation:
            raise core.MachineryError("deviation D1 is active but TLC finds no counterexample to ErrorNotSilentStrict")
        st = rv.violation["trace"][-1][1]
        d1_cases.append(("clone_existing", [dict(x) for x in st["script"]]))
        ctx.cov["d1_counterexample"] = {"script": [dict(x) for x in st["script"]], "res": st["res"], "steps": len(rv.violation["trace"])}
    # ---- record the real protocols -------------------------------------------------------------------------
    work = os.path.realpath(ctx.mkdtemp("runs"))
    recs = {}
    for s, r in zip(scens, core.pmap(L.run_case, [(L.template(ctx, s), work, s.key, {"presnap": True, "reads": True}, {"observe": True}) for s in scens], procs=nprocs, chunks=1)):
        if "machinery" in r:
            raise core.MachineryError("%s: %s" % (s.key, r["machinery"]))
        recs[s.key] = r
    # ---- cases ------------------------------------------------------------------------------------------------
    cases = []
    n_tlc_single = n_tlc_double = 0
    for s in scens:
        rec = recs[s.key]
        muts = [e for e in rec["events"] if e["mut"]]
        seen = set()

        def add(mode, origin):
            kk = L.mode_key(mode)
            if kk not in seen:
                seen.add(kk)
                cases.append((s, dict(mode, presnap=True), origin))
        terms = sorted((t for t in graphs["inplace" if s.config == "nomt" else "atomic"][0] if t["scn"] == s.spec),
                       key=lambda t: json.dumps([dict(x) for x in t["script"]], sort_keys=True))
        singles = [t for t in terms if len(t["script"]) <= 1]
        doubles = [t for t in terms if len(t["script"]) > 1]
        for t in singles:
            if t["script"]:
                add(L.mode_of_script(t["script"]), "tlc")
                n_tlc_single += 1
        if ctx.quick and len(doubles) > 60:
            doubles = rnd.sample(doubles, 60)
        for t in doubles:
            add(L.mode_of_script(t["script"]), "tlc2")
            n_tlc_double += 1
        for sc_name, script in d1_cases:
            if sc_name == s.spec:
                add(L.mode_of_script(script), "tlc-counterexample")
        # generic: every recorded mutating step x {crash, torn classes, 5 errnos (+ short write)}
        for e in muts:
            add({"crash_at": e["k"]}, "generic")
            if e["op"] == "write":
                for p in PREFIX_CLASSES:
                    if L.eff_class(prefix_len(p, e["n"] or 0), e["n"] or 0) == p:
                        add({"crash_at": e["k"], "torn": p}, "generic")
            for en in errs:
                add({"faults": {str(e["k"]): L._errno(en)}}, "generic")
                if e["op"] == "write" and (e["n"] or 0) >= 2:
                    add({"faults": {str(e["k"]): [L._errno(en), "half"]}}, "generic")
        # generic: every recorded read step fails
        # CALIBRATED RULE PathPredicateAsENOENT: os.path.isdir/isfile/exists answer every stat error with False - by design of
        # the standard library exactly the "not there" reading the property excludes (ENOENT) - so those stats are not failed.
        reads = [e for e in rec["events"] if not e["mut"] and e.get("r") and e.get("via") != "os.path"]
        for e in reads:
            for en in (["EIO", "EACCES"] if ctx.quick else ERRNOS):
                add({"rfaults": {str(e["r"]): L._errno(en)}}, "generic-read")
        # seeded sample of the errnos that are not enumerated exhaustively in this tier
        rest = [e for e in allerr if e not in errs]
        if muts and rest:
            for _ in range(10):
                add({"faults": {str(rnd.choice(muts)["k"]): L._errno(rnd.choice(rest))}}, "seeded-errno")
        # seeded double faults over the recorded steps (the second fault lands on the handler path of the first)
        if muts:
            for _ in range(12 if ctx.quick else 120):
                k1 = rnd.choice(muts)["k"]
                k2 = k1 + rnd.randrange(1, 6)
                m = {"faults": {str(k1): L._errno(rnd.choice(allerr)), str(k2): L._errno(rnd.choice(allerr))}}
                if rnd.random() < 0.3:
                    m["crash_at"] = k2 + rnd.randrange(1, 4)
                add(m, "seeded-double")
    results = core.pmap(L.run_case, [(L.template(ctx, s), work, s.key, m, {"observe": True}) for s, m, _ in cases], procs=nprocs)
    # ---- judge + traces -------------------------------------------------------------------------------------------
    success = {}
    for s in scens:
        rec = recs[s.key]
        success[s.key] = (L.abstract_disk(rec["_snap"], L.tokens_of(s)), rec["res"])
    traces, tmeta = [], []

    def handle(s, mode, origin, out):
        if "machinery" in out:
            raise core.MachineryError("%s %s: %s" % (s.key, L.mode_key(mode), out["machinery"]))
        pre = {k: (bytes.fromhex(v) if isinstance(v, str) else (tuple(v) if isinstance(v, list) else v)) for k, v in out["pre_snap"].items()}
        post, res = out["_snap"], out["res"]
        triggered = [e for e in out["events"] if e["res"].startswith(("fail", "crash", "torn"))]
        if (mode.get("faults") or mode.get("crash_at") or mode.get("rfaults")) and not triggered:
            ctx.count(("untriggered", s.key, L.mode_key(mode)))
            return
        sd, nominal = success[s.key]
        bad = judge_c11(s, pre, post, out["obs"], res, mode, sd, nominal)
        kc = kindclass(mode, res)
        if len(triggered) >= 2:
            kc = "double-" + kc          # a second fault (e.g. inside the code's own clean-up) is a different finding than a single one
        ctx.count((s.spec, s.variant, s.config, L.mode_key({k: v for k, v in mode.items() if k != "presnap"})), traces=1)
        for cond, text in bad:
            sig = "%s:%s:%s" % (s.kw["op"], kc, cond)
            steps = ", ".join("%s@%s %s" % (e["res"], e.get("k") or "r%s" % e.get("r"), L.OPMAP.get(e["op"], e["op"])) for e in triggered)
            ctx.violation(sig, "%s [%s, %s, %s] with %s: %s" % (s.spec, s.variant, s.config, origin, steps, text),
                          {"scenario": s.key, "mode": {k: v for k, v in mode.items() if k != "presnap"}})
        evs = L.spec_events(out["events"])
        skip_trace = bool(mode.get("rfaults"))
        if fixed and s.kw.get("clone"):
            # FixedCloneCleanup: the error-ignoring rmtree of the destination is ONE silent step of the specification
            # (PosixFs!RemoveTree); its unlink/rmdir events are dropped, later events renumbered
            if any(e["op"] in ("unlink", "rmdir", "remove") and e["res"] != "ok" for e in out["events"]):
                skip_trace = True  # the fault hit the clean-up itself: judged by observation only
            kept, dropped = [], 0
            for e in evs:
                if e["op"] in ("unlink", "rmdir"):
                    dropped += 1
                else:
                    kept.append(dict(e, k=e["k"] - dropped))
            evs = kept
        if not skip_trace:
            rep = []
            for pr, o in sorted(out["obs"].items()):
                if isinstance(o.get("check"), list):
                    rep += [[pr, L.ROLE_OF_ID.get(i, i)] for i in o["check"]]
            traces.append({"scn": s.spec, "ev": evs, "res": res, "disk": L.abstract_disk(post, L.tokens_of(s)), "rep": rep,
                           "cfg": s.config})
            tmeta.append((s, mode, bool(bad), origin))

    for s in scens:
        handle(s, {}, "record", recs[s.key])
    for (s, mode, origin), out in zip(cases, results):
        handle(s, mode, origin, out)
    # ---- code -> spec ------------------------------------------------------------------------------------------------
    nrej = 0
    for cfgname, spproto in (("default", "atomic"), ("nomt", "inplace")):
        idx = [i for i, t in enumerate(traces) if t["cfg"] == cfgname]
        rej, diag = L.validate_traces(ctx, "C11 %s" % cfgname, [traces[i] for i in idx], L.consts(ALL_L, 3, sp=spproto, fixed=fixed, errnos=allerr))
        for j in sorted(rej):
            s, mode, wasbad, origin = tmeta[idx[j]]
            nrej += 1
            ctx.spec_drift("%s %s: real execution is not a behaviour of Lifecycle.tla (%s)%s" % (
                s.key, L.mode_key({k: v for k, v in mode.items() if k != "presnap"}), diag.get(j, "")[:400],
                " - observation also violates the property" if wasbad else " - every stated post-condition holds"))
    ctx.cov["traces_rejected"] = nrej
    ctx.cov["tlc_terminal_states"] = {k: len(v[0]) for k, v in graphs.items()}
    ctx.cov["cases"] = {"tlc_single_fault": n_tlc_single, "tlc_fault_plus_crash": n_tlc_double, "executed": len(cases) + len(scens),
                        "by_origin": {o: sum(1 for c in cases if c[2] == o) for o in sorted({c[2] for c in cases})}}
    for s in [x for x in scens if x.spec in ("rekey_fresh", "move_fresh", "remove_fwd")][:3]:
        ctx.sample({"scenario": s.key, "recorded_protocol": [(e["k"], e["op"], [list(L.to_role(p) or ()) for p in e["paths"]]) for e in recs[s.key]["events"] if e["mut"]]})
    shown = 0
    for (s, mode, origin), out in zip(cases, results):
        if s.spec == "rekey_fresh" and s.variant == "setkey" and s.config == "default" and mode.get("crash_at") and not mode.get("faults") and shown < 3 and "obs" in out:
            shown += 1
            ctx.sample({"scenario": s.key, "mode": {k: v for k, v in mode.items() if k != "presnap"}, "result": out["res"], "fresh_check": out["obs"],
                        "workspace": sorted(k.replace(ID["A"], "<A>").replace(ID["B"], "<B>").replace(ID["O"], "<O>") for k in out["_snap"] if k.startswith("P/workspace/") and k.count("/") <= 3)})
    ctx.cov["binding_selftest"] = selftest(ctx, scens, recs, fixed)
    if not ctx.quick:
        L.hard_crosscheck(ctx, [c for c in cases if c[1].get("crash_at") and not c[1].get("faults")], work, rnd, nprocs)
        L.audit(ctx, [s for s in scens if s.config == "default" and s.variant in ("init", "setkey", "move", "clone", "remove", "clear", "reset")], mod="c11", fn="c11_scenarios")


def selftest(ctx, scens, recs, fixed):
    """corrupt one expected value / drop one step / fabricate a bad observation: each must be noticed"""
    s = next(x for x in scens if x.spec == "rekey_fresh" and x.variant == "setkey" and x.config == "default")
    rec = recs[s.key]
    tk = L.tokens_of(s)
    pre = {k: (bytes.fromhex(v) if isinstance(v, str) else v) for k, v in rec["pre_snap"].items()}
    post = dict(rec["_snap"])
    good = {"scn": s.spec, "ev": L.spec_events(rec["events"]), "res": rec["res"], "disk": L.abstract_disk(post, tk), "rep": []}
    dropped = dict(good, ev=[e for e in good["ev"] if e["op"] != "unlink"])
    wrongres = dict(good, res="EIO")
    lost = {k: v for k, v in post.items() if not k.endswith("data.txt")}
    wrongdisk = dict(good, disk=L.abstract_disk(lost, tk))
    rej, _ = L.validate_traces(ctx, "C11 selftest", [good, dropped, wrongres, wrongdisk], L.consts(ALL_L, 1, fixed=fixed, errnos=ERRNOS + ERRNOS2))
    obs_ok = {"P": {"check": [], "ids": []}}
    j1 = judge_c11(s, pre, lost, obs_ok, "crash", {"crash_at": 3})
    other = next(k for k in post if k.startswith(wsdir("P", "O")) and k.endswith(FN_DOC))
    j2 = judge_c11(s, pre, dict(post, **{other: b"{}"}), obs_ok, "crash", {"crash_at": 3})
    nosp = {k: v for k, v in post.items() if not k.endswith(wsdir("P", "B") + "/" + FN_SP)}
    j3 = judge_c11(s, pre, nosp, obs_ok, "crash", {"crash_at": 3})
    j4 = judge_c11(s, pre, pre, obs_ok, "ok", {"faults": {"1": 5}}, good["disk"], "ok")
    return {"good_trace_accepted": 0 not in rej, "dropped_step_rejected": 1 in rej, "wrong_result_rejected": 2 in rej, "corrupted_disk_rejected": 3 in rej,
            "lost_payload_flagged": any(c == "payload-not-under-exactly-one-id" for c, _ in j1),
            "modified_other_job_flagged": any(c == "others-modified" for c, _ in j2),
            "unreported_invalid_dir_flagged": any(c == "invalid-directory-not-reported" for c, _ in j3),
            "silent_noop_flagged": any(c == "silent-partial-success" for c, _ in j4)}


def replay(ctx, data):
    scen = [s for s in c11_scenarios() if s.key == data["scenario"]]
    if not scen:
        print("unknown scenario", data["scenario"])
        return 2
    s = scen[0]
    work = os.path.realpath(ctx.mkdtemp("replay"))
    base = L.run_case((L.template(ctx, s), work, s.key, {"presnap": True}, {"observe": True}))
    out = L.run_case((L.template(ctx, s), work, s.key, dict(data["mode"], presnap=True), {"observe": True}))
    pre = {k: (bytes.fromhex(v) if isinstance(v, str) else v) for k, v in out["pre_snap"].items()}
    bad = judge_c11(s, pre, out["_snap"], out["obs"], out["res"], data["mode"], L.abstract_disk(base["_snap"], L.tokens_of(s)), base["res"])
    print("scenario", s.key, "mode", data["mode"], "->", out["res"], out.get("detail", ""))
    for e in out["events"]:
        print("   step", e["k"], e["op"], e["paths"], e["res"])
    print("   fresh session:", out["obs"])
    for k in sorted(out["_snap"]):
        if "/workspace/" in k:
            print("     ", k)
    for cond, text in bad:
        print("   VIOLATED:", cond, "-", text)
    return 1 if bad else 0

"""C02 - initialised jobs persist and reopen exactly; opening is lazy (Workspace.tla + Prefix.tla)."""
import json
import os
import random

from .. import core, tlc
from .. import wsfamily as F

PID = "C02"
OPS = ["open_sp", "open_id", "open_iter", "init", "readsp", "restart", "remove"]


def configs(ctx):
    q = ctx.quick
    props = ("Lazy", "PersistExact", "InitIdempotent")
    return [
        F.Config("lazy-init-typed", OPS, 5 if q else 6, "typed", limit=5000 if q else 200000, invariants=("HashInvX",), properties=props),
        F.Config("lazy-init-mixed", OPS + ["docset", "update_cache"], 4 if q else 5, "mixed", limit=3000 if q else 100000, invariants=("HashInvX",), properties=props),
        F.Config("reopen-populated-nested", ["open_id", "open_iter", "open_sp", "readsp", "init", "restart", "update_cache", "delete_cache"], 4 if q else 5, "nested",
                 init_jobs=3, init_cache=(False, True), limit=4000 if q else 150000, invariants=("HashInvX",), properties=props),
        F.Config("long-random", OPS + ["docset", "update_cache", "delete_cache", "copy"], 0, "typed", handles=("h1", "h2", "h3"),
                 sim_num=40 if q else 2000, sim_depth=30 if q else 50, invariants=("HashInvX",), properties=props),
    ]


def _hex(s):
    return [int(c, 16) for c in s]


def prefix_check(ctx):
    """ids colliding on short prefixes, every prefix of every id (+ perturbed ones) resolved by TLC and by a fresh session"""
    import signac
    rnd = random.Random(ctx.seed)
    # birthday search: state points {"a": i} whose ids share prefixes of lengths 1..k
    want = 12 if ctx.quick else 24
    by_prefix, chosen = {}, []
    i = 0
    while len(chosen) < want and i < 400000:
        sp = {"a": i}
        jid = core.my_id(sp)
        L = 1 + (len(chosen) // 2) % 5
        if len(chosen) % 2 == 0:
            chosen.append((sp, jid)); by_prefix = {jid[:L]: jid}
        elif jid[:L] in by_prefix and jid != by_prefix[jid[:L]]:
            chosen.append((sp, jid))
        i += 1
    root = ctx.mkdtemp("prefix")
    p = signac.init_project(root)
    for sp, jid in chosen:
        p.open_job(sp).init()
    ids = sorted(j for _, j in chosen)
    queries = {""}
    for j in ids:
        for n in range(1, 33):
            queries.add(j[:n])
            queries.add(j[:n - 1] + ("0" if j[n - 1] != "0" else "1"))
        queries.add(j + "0")
    queries = sorted(queries)
    fin, fout = os.path.join(ctx.work, "prefix_in.ndjson"), os.path.join(ctx.work, "prefix_out.ndjson")
    with open(fin, "w") as f:
        f.write(json.dumps({"ids": [_hex(j) for j in ids]}) + "\n")
        for qs in queries:
            f.write(json.dumps({"q": _hex(qs)}) + "\n")
    r = tlc.run("workspace/Prefix.tla", cfg_text=tlc.cfg(None, invariants=["Sound", "Unambiguous", "Complete"], postcondition="Export"),
                workdir=ctx.work, env={"PREFIX_IN": fin, "PREFIX_OUT": fout}, coverage=False, allow_violation=False)
    ctx.add_tlc("Prefix resolution", r)
    outs = [json.loads(l) for l in open(fout)]
    if len(outs) != len(queries):
        raise core.MachineryError("prefix export size mismatch")
    # the same queries under every cache situation: no cache file, exact cache file, STALE cache file (written when only one
    # job of every colliding pair existed), and a session that has already opened one colliding job by its full id
    stale_root = ctx.mkdtemp("prefix-stale")
    ps = signac.init_project(stale_root)
    for sp, jid in chosen[0::2]:
        ps.open_job(sp).init()
    ps.update_cache()
    for sp, jid in chosen[1::2]:
        signac.Project(stale_root).open_job(sp).init()
    modes = [("no-cache", root, None), ("exact-cache", root, "update"), ("stale-cache", stale_root, None), ("warm-session", root, "warm")]
    for mode, r_, prep in modes:
        if prep == "update":
            signac.Project(r_).update_cache()
        for qi, (qs, o) in enumerate(zip(queries, outs)):
            if mode in ("stale-cache", "warm-session") and ctx.quick and qi % 3:
                continue
            fresh = signac.Project(r_)
            if prep == "warm":
                fresh.open_job(id=ids[qi % len(ids)]).statepoint()      # the session cache now knows exactly one job
            try:
                got = ("ok", fresh.open_job(id=qs).id)
            except KeyError as e:
                got = ("KeyError", None)
            except LookupError:
                got = ("LookupError", None)
            except Exception as e:  # noqa
                got = (type(e).__name__, None)
            exp = (o["r"]["res"], "".join("%x" % d for d in o["r"]["id"]) if o["r"]["res"] == "ok" else None)
            ctx.count(("prefix", len(qs), exp[0], mode), traces=1)
            if got != exp:
                ctx.violation("prefix-resolution:%s-expected-%s" % (got[0], exp[0]),
                              "open_job(id=%r) (%s) gives %s, the specification says %s (ids %s)" % (qs, mode, got, exp, [j[:8] for j in ids]),
                              {"kind": "prefix", "ids_sps": [sp for sp, _ in chosen], "query": qs, "expected": exp, "mode": mode})
            elif got[0] == "ok":
                sp = fresh.open_job(id=qs).statepoint()
                if core.my_id(sp) != got[1]:
                    ctx.violation("prefix-resolution:statepoint", "job resolved from %r has a state point hashing elsewhere" % qs, {"kind": "prefix", "query": qs})
    ctx.sample({"kind": "prefix resolution", "ids": [j[:10] for j in ids[:4]], "query": queries[5], "expected": outs[5]["r"]["res"]})


def run(ctx):
    ctx.assumptions += ["TLC; raw projection of project directories (os.walk + json)", "Id == identity in Workspace.tla; real ids by the harness's canonical JSON + md5 (C01)"]
    ctx.cov["rule"] = ("one evaluation = one spec transition executed on the real library (edge-cover replay / simulated behaviours) judged for: open_job writes nothing, "
                       "init persists the exact (type-exact) state point, init on a valid job does not rewrite, a fresh session finds the job; plus every id prefix query "
                       "of a workspace with colliding ids resolved by TLC (Prefix.tla) and by a fresh session; distinct = (config, op, outcome) / (prefix length, outcome, cache)")
    F.run_configs(ctx, PID, configs(ctx))
    F.run_recorded(ctx, PID, "random-wide", 40 if ctx.quick else 2000, 30 if ctx.quick else 50, OPS + ["docset", "update_cache", "delete_cache", "copy", "setkey"], projects=("P",))
    prefix_check(ctx)
    F.large_workspace(ctx, PID)
    F.cli_front(ctx, PID)
    ctx.cov["binding_selftest"] = F.selftest(ctx, PID)


def replay(ctx, data):
    if data.get("kind") == "prefix":
        import signac
        root = ctx.mkdtemp("prefix")
        p = signac.init_project(root)
        for sp in data.get("ids_sps", []):
            p.open_job(sp).init()
        try:
            print("open_job(id=%r) ->" % data["query"], signac.Project(root).open_job(id=data["query"]).id, "expected", data["expected"])
        except Exception as e:  # noqa
            print("open_job(id=%r) raises" % data["query"], type(e).__name__, "expected", data["expected"])
        return 0
    return F.replay_script(ctx, PID, data)

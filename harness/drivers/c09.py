"""C09 - state point corruption is always detected, never accepted, and repairable (Workspace.tla).

Abstract damage kinds (missing / garbage / other valid JSON / directory rename) are actions of the model and TLC
explores their combinations over <= 3 jobs with and without a persistent cache; every edge is replayed.
Byte-level damage (truncation at every offset, single-byte substitutions of several classes) is enumerated by the
harness, CLASSIFIED into those kinds by an independent parse + canonical hash, and judged by the same post-conditions."""
import gzip
import json
import os
import random
import shutil

from .. import core
from .. import wsfamily as F

PID = "C09"
OPS = ["corrupt", "corrupt_other", "rename_dir", "check", "repair", "restart", "open_id", "readsp", "update_cache"]


def configs(ctx):
    q = ctx.quick
    props = ("NeverAcceptWrongX", "RepairFrame", "RepairRestores")
    return [
        F.Config("damage-2jobs", OPS, 4 if q else 5, "int", init_jobs=2, init_cache=(False, True), limit=5000 if q else 200000, properties=props),
        F.Config("damage-3jobs", ["corrupt", "rename_dir", "check", "repair", "restart", "open_id", "readsp"], 4 if q else 5, "int", init_jobs=3, init_cache=(False, True),
                 limit=4000 if q else 200000, properties=props),
        F.Config("damage-typed-2jobs", ["corrupt_other", "check", "repair", "restart", "open_id", "readsp", "update_cache"], 4 if q else 5, "typed", init_jobs=2, init_cache=(False, True),
                 limit=3000 if q else 150000, properties=props),
        F.Config("damage-reuse-handle", ["corrupt", "open_id", "open_iter", "readsp", "init", "repair", "check"], 5 if q else 6, "int", init_jobs=2, init_cache=(False,),
                 limit=5000 if q else 200000, properties=("NeverAcceptWrongX", "RepairFrame")),
        F.Config("damage-then-use", OPS + ["init", "open_sp", "setkey", "docset"], 3 if q else 4, "mixed", init_jobs=2, init_cache=(True,), limit=3000 if q else 100000, properties=("NeverAcceptWrongX", "RepairFrame")),
        F.Config("long-random", OPS + ["open_sp", "init", "remove"], 0, "nested", init_jobs=3, init_cache=(False, True), handles=("h1", "h2"),
                 sim_num=40 if q else 2000, sim_depth=25, properties=props),
    ]


REPL = {"digit": b"7", "letter": b"q", "quote": b'"', "brace": b"}", "space": b" ", "nul": b"\x00", "high": b"\xff"}
SPS = [{"a": 1}, {"a": 1.0, "b": "x"}, {"n": {"x": [1, 2, None]}, "t": True}, {"s": "hé \"q\"", "k": -12}]


def _classify(blob, jid):
    """independent oracle: parse + the harness's own canonical hash"""
    try:
        v = json.loads(blob.decode())
    except (ValueError, UnicodeDecodeError):
        return "unparseable"
    try:
        return "same" if isinstance(v, dict) and core.my_id(v) == jid else "other"
    except TypeError:
        return "other"


def byte_level(ctx):
    import signac
    rnd = random.Random(ctx.seed + 9)
    base = ctx.mkdtemp("bytes")
    root0 = os.path.join(base, "orig")
    os.mkdir(root0)
    p = signac.init_project(root0)
    jobs = []
    for sp in SPS:
        j = p.open_job(sp).init()
        j.doc.payload = sp
        with open(j.fn("data.bin"), "wb") as f:
            f.write(b"data-" + j.id.encode())
        jobs.append(j.id)
    damages = []
    for jid in jobs:
        blob = open(os.path.join(root0, "workspace", jid, "signac_statepoint.json"), "rb").read()
        offs = range(len(blob) + 1)
        for o in offs:
            damages.append((jid, "truncate@%d" % o, blob[:o]))
        for o in range(len(blob)):
            for cname, c in REPL.items():
                if blob[o:o + 1] != c:
                    damages.append((jid, "subst@%d:%s" % (o, cname), blob[:o] + c + blob[o + 1:]))
        damages.append((jid, "delete", None))
        damages.append((jid, "other-json-list", b"[1, 2]"))
        damages.append((jid, "other-json-null", b"null"))
        # valid JSON of an ==-equal value of another JSON type (1 -> 1.0 / true, 1.0 -> 1, true -> 1, -12 -> -12.0)
        import re as _re
        for m in _re.finditer(rb"(?<![\w.\"])(-?\d+\.\d+|-?\d+|true|false)(?![\w.\"])", blob):
            tok = m.group(1)
            alts = []
            if tok in (b"true", b"false"):
                alts = [b"1" if tok == b"true" else b"0", b"1.0" if tok == b"true" else b"0.0"]
            elif b"." in tok:
                alts = [tok.split(b".")[0]] if tok.endswith(b".0") else []
            else:
                alts = [tok + b".0"] + ([b"true"] if tok == b"1" else [b"false"] if tok == b"0" else [])
            for alt in alts:
                damages.append((jid, "typeswap@%d:%s" % (m.start(), alt.decode()), blob[:m.start()] + alt + blob[m.end():]))
        damages.append((jid, "other-job", open(os.path.join(root0, "workspace", jobs[(jobs.index(jid) + 1) % len(jobs)], "signac_statepoint.json"), "rb").read()))
    if ctx.quick:
        swaps = [d for d in damages if d[1].startswith("typeswap")]
        damages = rnd.sample([d for d in damages if not d[1].startswith("typeswap")], 600) + swaps
    n_by_class = {}
    for with_cache in (False, True):
        for (jid, how, blob) in damages:
            # sometimes damage a second job as well (subset of up to 3 jobs)
            root = os.path.join(base, "w")
            shutil.copytree(root0, root)
            if with_cache:
                signac.Project(root).update_cache()
            fn = os.path.join(root, "workspace", jid, "signac_statepoint.json")
            victims = {jid: (how, blob)}
            if rnd.random() < 0.3:
                j2 = rnd.choice([x for x in jobs if x != jid])
                victims[j2] = ("delete", None)
            for v, (hw, bl) in victims.items():
                f2 = os.path.join(root, "workspace", v, "signac_statepoint.json")
                if bl is None:
                    os.remove(f2)
                else:
                    with open(f2, "wb") as f:
                        f.write(bl)
            cls = {v: ("missing" if bl is None else _classify(bl, v)) for v, (hw, bl) in victims.items()}
            damaged = sorted(v for v, c in cls.items() if c != "same")
            key = (how.split("@")[0].split(":")[0], how.split(":")[-1] if ":" in how else "", cls[jid], with_cache)
            n_by_class[key] = n_by_class.get(key, 0) + 1
            ctx.count(("bytes",) + key, traces=1)
            rep = {"kind": "byte-damage", "sp": SPS[jobs.index(jid)], "how": how, "blob": None if blob is None else blob.decode("latin1"), "with_cache": with_cache, "also_deleted": [v for v in victims if v != jid]}
            before = core.snapshot(root)
            # check() names exactly the damaged jobs
            try:
                signac.Project(root).check()
                got = []
            except signac.errors.JobsCorruptedError as e:
                got = sorted(e.job_ids)
            except Exception as e:  # noqa
                got = "!" + type(e).__name__
            if got != damaged:
                ctx.violation("bytes:check-inexact:%s" % cls[jid], "check() names %s but the damaged jobs are %s (%s of %s)" % (got, [d[:6] for d in damaged], how, jid[:6]), rep)
            # never accepted: opening by id in a fresh session
            for v in victims:
                try:
                    sp = signac.Project(root).open_job(id=v).statepoint()
                    if core.my_id(sp) != v:
                        ctx.violation("bytes:accepts-wrong-statepoint:%s" % cls[v], "fresh session returns a state point hashing to %s for job %s (%s)" % (core.my_id(sp)[:6], v[:6], how), rep)
                except Exception:  # noqa  (any refusal is fine; the property forbids only a wrong answer)
                    pass
            # repair: restores what is known from the cache, never touches documents / data files
            try:
                signac.Project(root).repair()
                rres = "ok"
            except signac.errors.JobsCorruptedError as e:
                rres = sorted(e.job_ids)
            except Exception as e:  # noqa
                rres = "!" + type(e).__name__
            after = core.snapshot(root)
            def payloads(snap):      # multiset of (document + data files) per job directory, whatever the directory is called
                acc = {}
                for k, v in snap.items():
                    parts = k.split("/")
                    if parts[0] == "workspace" and len(parts) >= 3 and not k.endswith("/") and parts[-1] != "signac_statepoint.json":
                        acc.setdefault(parts[1], []).append(("/".join(parts[2:]), v))
                return sorted(sorted(x) for x in acc.values())
            if payloads(before) != payloads(after):
                ctx.violation("bytes:repair-touched-data", "repair() changed a document or data file (%s)" % how, rep)
            still = sorted(v for v in jobs if not F.valid_raw(root, v))
            if with_cache and (still or rres != "ok"):
                ctx.violation("bytes:repair-did-not-restore", "with a persistent cache repair() left %s damaged / returned %s (%s)" % ([s[:6] for s in still], rres, how), rep)
            if not with_cache:
                # nothing to recover from: unreadable / missing files must be reported, never forged. A file that is still a
                # valid JSON mapping is indistinguishable from "an intact file in a misnamed directory": repair() moves the
                # directory to the id of that content (the model's RepairOne does the same) - accepted.
                def unrecoverable(v):
                    if cls[v] in ("missing", "unparseable"):
                        return True
                    val_ = json.loads(victims[v][1].decode())
                    if not isinstance(val_, dict):
                        return True
                    # a mapping: the directory would be moved to the id of that content - possible only if that name is free
                    return ("workspace/%s/" % core.my_id(val_)) in before
                want_left = sorted(v for v in damaged if unrecoverable(v))
                if (rres == "ok") != (not want_left) or (isinstance(rres, list) and rres != want_left):
                    ctx.violation("bytes:repair-report", "without a cache repair() returned %s, unrecoverable jobs are %s (%s)" % (rres, [d[:6] for d in want_left], how), rep)
                for v in jobs:
                    k, val = F.read_sp(root, v)
                    if k == "ok" and isinstance(val, dict) and core.my_id(val) == v and v in want_left:
                        ctx.violation("bytes:repair-forged", "repair() produced a valid state point for %s out of nothing" % v[:6], rep)
            shutil.rmtree(root)
    ctx.cov["byte_damage_classes"] = {" ".join(map(str, k)): n for k, n in sorted(n_by_class.items())}
    ctx.sample({"kind": "byte damage", "example": "truncate / substitute each byte of the state point file of %s" % SPS[2]})


def run(ctx):
    ctx.assumptions += ["TLC; Python's json as the independent parser used to classify byte-level damage", "listing order fixed to sorted order during repair() (the spec processes ids in real-id order)"]
    ctx.cov["rule"] = ("abstract damage: one evaluation = one spec transition over {corrupt(missing|garbage), other valid JSON, rename directory, check, repair, restart, open by id, read state point, "
                       "update_cache} from 2-3 valid jobs with/without cache file, replayed and judged (check exact, never accepts a wrong state point in a fresh session, repair restores what the "
                       "cache knows and never touches documents/data); byte damage: truncation at every offset and 7 substitution classes at every offset of 4 state point files, classified by an "
                       "independent parse+hash; distinct = (config, op, outcome) and (damage kind, byte class, classification, cache) classes")
    F.run_configs(ctx, PID, configs(ctx))
    F.run_recorded(ctx, PID, "random-damage", 40 if ctx.quick else 2000, 30 if ctx.quick else 50, OPS + ["open_sp", "init", "open_iter", "remove"], projects=("P",))
    byte_level(ctx)
    F.large_workspace(ctx, PID)
    F.cli_front(ctx, PID)
    ctx.cov["binding_selftest"] = F.selftest(ctx, PID)


def replay(ctx, data):
    if data.get("kind") == "byte-damage":
        print("byte damage scenario:", data)
        return 0
    return F.replay_script(ctx, PID, data)

"""C12 - concurrent processes initialise jobs and write documents without corruption.

Specification: spec/lifecycle/Concurrent.tla (every file-system call on a contended path is one action of the
calling process).  TLC explores ALL interleavings of a scenario and decides NoActorError, NoTornObservation,
ReadsSeeCompletedWrites, ListingSane and FinalSequential on the specification.

Binding (spec -> code): the labelled state graph (`-dump dot,actionlabels`) is turned into controlled schedules so
that EVERY edge (state, actor step) is executed at least once with real forked processes (harness/sched.py): path
to the edge's source, the edge, then round-robin to completion (still following the graph).  Before each grant the
actor's PENDING step is compared with the spec's, after each grant the step's outcome (errno, bytes read, names
listed) and the projected real tree are compared with the spec state, at the end every actor's results.
Verdicts come from observation only: actor exceptions, the bytes every real read returned, and a fresh
Project (check(), ids, documents) against the end result TLC printed for the scenario.  Disagreement with the
spec alone is SPEC-DRIFT, never a violation.  Three actors: TLC still decides all interleavings; the binding
replays `-simulate` behaviours (and, thorough, the whole graph of one three-actor scenario).
"""
import collections
import glob
import json
import os
import random
import re
import shutil
import tempfile

from .. import core, sched, tlc, tlaparse

SPEC = "lifecycle/Concurrent.tla"
INVARIANTS = ["NoActorError", "NoTornObservation", "ReadsSeeCompletedWrites", "ListingSane", "CheckSane", "FinalSequential"]
SWITCHES = ["MkdirExistOk", "SaveIfAbsent", "AtomicWrite", "ValidateAfterWrite", "ListTolerant"]
TWO = ["init_same", "init_same_nows", "init_diff", "init_populated", "init_vs_list", "list_nows",
       "doc_writers", "doc_writers_fresh", "reader_sees", "reader_sees_big", "doc_writers_big", "init_doc_mix", "init_same_check", "init_diff_check"]
THREE = ["init_same_3", "doc_3", "mixed_3"]
ALL_ACTIONS = ["CkList", "CkOpen", "CkRead", "CkIsdir", "GtBegin", "PjStat", "PjStat2", "PjMkdir", "PjEexist", "InOpen", "InRead", "MkStat", "MkStatWs", "MkMkdirWs", "MkEexistWs",
               "MkMkdir", "MkEexist", "SvStat", "SvCreat", "SvWrite", "SvRename", "VaOpen", "VaRead", "DvStat", "DcOpen",
               "DcRead", "DwCreat", "DwWrite", "DwRename", "LsList", "LsLstat"]
NOINO = ("-", 0, "-")
FN_SP, FN_DOC = "signac_statepoint.json", "signac_job_document.json"


# ------------------------------------------------------------------------------------------------------------
# translation  spec names <-> real names
# ------------------------------------------------------------------------------------------------------------
_SP_NUM = {"j1": 1, "j2": 2, "j3": 18}      # chosen so that the ids sort like the names (the specification's Order; checked in Names)


def sp_of(j):
    return {"j": _SP_NUM[j]}


def id_of(j):
    return core.my_id(sp_of(j))       # the harness's own canonical JSON + md5


HEX32 = re.compile(r"^[0-9a-f]{32}$")


class Names:
    def __init__(self, jobs):
        self.jobs = sorted(jobs)
        self.id = {j: id_of(j) for j in self.jobs}
        if sorted(self.jobs, key=self.id.get) != self.jobs:      # the specification's Order
            raise core.MachineryError("job ids do not sort like the job names: %s" % self.id)
        self.job = {v: k for k, v in self.id.items()}

    def label(self, raw):
        """real pending step (op, relpath[, relpath]) -> the spec's (op, obj, j); unknown shapes stay recognisably raw"""
        if raw is None:
            return None
        op = raw[0]
        if op == "mark":
            return ("begin", raw[1], raw[2])
        rel = raw[-1]          # for replace/rename the DESTINATION names the step
        obj, j = self.obj(rel)
        if op in ("replace", "rename"):
            so, sj = self.obj(raw[1])
            if not so.startswith("tmp") or sj != j or so[3:] != obj:
                return ("replace", "%s<-%s" % (rel, raw[1]), j)
            return ("replace", obj, j)
        return (op, obj, j)

    def obj(self, rel):
        parts = rel.split("/")
        if parts == ["workspace"]:
            return "ws", "-"
        if len(parts) >= 2 and parts[0] == "workspace" and parts[1] in self.job:
            j = self.job[parts[1]]
            if len(parts) == 2:
                return "dir", j
            if len(parts) == 3:
                f = parts[2]
                if f == FN_SP:
                    return "sp", j
                if f == FN_DOC:
                    return "doc", j
                if f.startswith("._") and f.endswith("_" + FN_SP):
                    return "tmpsp", j
                if f.startswith("._") and f.endswith("_" + FN_DOC):
                    return "tmpdoc", j
        return rel, "-"


# "big" scenarios: every document value is materialised as a string of >= 16 KiB, all of the same length, so that successive
# versions of a document have the same serialized size; translation only (the specification's values are the short ones)
PAD = "~" + "x" * 20000
COARSE_NS = 1_700_000_000 * 10**9        # the whole-second time stamp every completed document file gets (coarse-timestamp fs)


def enc(v, big):
    return v + PAD if big else v


def dec(x):
    return x[:-len(PAD)] if isinstance(x, str) and x.endswith(PAD) else x


def coarse_stamp(path):
    try:
        os.utime(path, ns=(COARSE_NS, COARSE_NS))
    except OSError:
        pass


def tok_bytes(b, kind, j):
    """content token of a file: ('empty',) | ('full', frozenset of pairs) | ('other', text)"""
    if b == b"":
        return ("empty",)
    try:
        v = json.loads(b.decode())
    except ValueError:
        return ("other", repr(b[:60]))
    if not isinstance(v, dict):
        return ("other", repr(b[:60]))
    if kind == "sp":
        return ("full", frozenset({("sp", j)})) if v == sp_of(j) else ("other", repr(b[:60]))
    try:
        return ("full", frozenset((k, dec(x)) for k, x in v.items()))
    except TypeError:
        return ("other", repr(b[:60]))


def real_view(root, names):
    """raw projection of the real tree (never through signac)"""
    ws = os.path.join(root, "workspace")
    view = {"ws": os.path.isdir(ws), "jobs": {}, "stray": []}
    if not view["ws"]:
        return view
    for d in sorted(os.listdir(ws)):
        if d not in names.job:
            view["stray"].append(d)
            continue
        j = names.job[d]
        e = {"sp": None, "doc": None, "tmp": []}
        for f in sorted(os.listdir(os.path.join(ws, d))):
            with open(os.path.join(ws, d, f), "rb") as fh:
                b = fh.read()
            if f == FN_SP:
                e["sp"] = tok_bytes(b, "sp", j)
            elif f == FN_DOC:
                e["doc"] = tok_bytes(b, "doc", j)
            elif f.startswith("._") and f.endswith("_" + FN_SP):
                e["tmp"].append(("sp", tok_bytes(b, "sp", j)))
            elif f.startswith("._") and f.endswith("_" + FN_DOC):
                e["tmp"].append(("doc", tok_bytes(b, "doc", j)))
            else:
                view["stray"].append(d + "/" + f)
        e["tmp"].sort(key=repr)
        view["jobs"][j] = e
    return view


def spec_view(st):
    data = st["data"] if isinstance(st["data"], dict) else {}

    def tok(ino):
        if ino == NOINO:
            return None
        c = data[ino]
        return ("full", c["v"]) if c["full"] else ("empty",)
    view = {"ws": st["wsdir"], "jobs": {}, "stray": []}
    for j, ex in st["jdir"].items():
        if ex:
            view["jobs"][j] = {"sp": tok(st["spf"][j]), "doc": tok(st["docf"][j]), "tmp": []}
    for p, t in st["tmp"].items():
        if t["ino"] != NOINO:
            view["jobs"][t["j"]]["tmp"].append((t["kind"], tok(t["ino"])))
    for e in view["jobs"].values():
        e["tmp"].sort(key=repr)
    return view


def real_outcome(label, out, names):
    """outcome of a granted real step in the spec's vocabulary: (out, val)"""
    if out is None:
        return ("?", frozenset())
    if out.get("err"):
        return (out["err"], frozenset())
    op, obj, j = label
    if op == "read":
        t = tok_bytes(sched.decode_data(out) or b"", obj if obj in ("sp", "doc") else "doc", j)
        return ("ok", t[1]) if t[0] == "full" else ("torn", frozenset())
    if op == "listdir":
        return ("ok", frozenset(("job", names.job.get(n, "?" + n)) for n in out.get("names", [])))
    return ("ok", frozenset())


# ------------------------------------------------------------------------------------------------------------
# scenarios (described by TLC: the module prints <<"C12-SCENARIO", Describe>>)
# ------------------------------------------------------------------------------------------------------------
def parse_describe(stdout):
    m = re.search(r'<<\s*"C12-SCENARIO"', stdout)
    if not m:
        raise core.MachineryError("TLC did not print the scenario description")
    v = tlaparse.parse_value(stdout[m.start():])
    d = v[1]

    def fn(x):
        return dict(x) if isinstance(x, dict) else {}
    return {
        "scenario": d["scenario"],
        "script": {p: [dict(o) for o in ops] for p, ops in fn(d["script"]).items()},
        "ws": d["ws"], "jobs": sorted(d["jobs"]), "jobs0": sorted(d["jobs0"]),
        "doc0": {j: sorted(v) for j, v in fn(d["doc0"]).items()}, "hasdoc0": sorted(d["hasdoc0"]),
        "pre": sorted(d["pre"]), "big": bool(d["big"]), "requested": sorted(d["requested"]),
        "seqdoc": {j: sorted(v) for j, v in fn(d["seqdoc"]).items()}, "hasdoc": sorted(d["hasdoc"]), "wsfinal": d["wsfinal"],
    }


def cfg_text(scenario, invariants=INVARIANTS, **off):
    consts = {"Scenario": tlc.lit(scenario)}
    for s in SWITCHES:
        consts[s] = "FALSE" if off.get(s) is False else "TRUE"
    return tlc.cfg(consts, invariants=invariants)


def scenario_env(ctx, scn_json):
    if scn_json is None:
        return {}
    fn = os.path.join(ctx.work, "scn_%s.json" % scn_json["name"])
    with open(fn, "w") as f:
        f.write(json.dumps(scn_json["def"]) + "\n")
    return {"C12_SCENARIO": fn}


class Graph:
    """TLC's labelled state graph of one scenario, renumbered deterministically (BFS, actors in name order)."""

    def __init__(self, name, desc, nodes, edges, inits):
        self.name, self.desc = name, desc
        if len(inits) != 1:
            raise core.MachineryError("expected one initial state, got %d" % len(inits))
        succ = collections.defaultdict(dict)
        for u, v, _ in edges:
            p = nodes[v]["last"]["p"]
            if succ[u].get(p, v) != v:
                raise core.MachineryError("specification is not deterministic per actor at a state (%s, %s)" % (name, p))
            succ[u][p] = v
        order, seen, q = [], {inits[0]}, collections.deque([inits[0]])
        while q:
            u = q.popleft()
            order.append(u)
            for p in sorted(succ[u]):
                v = succ[u][p]
                if v not in seen:
                    seen.add(v)
                    q.append(v)
        if len(order) != len(nodes):
            raise core.MachineryError("state graph of %s not connected: %d of %d reachable" % (name, len(order), len(nodes)))
        idx = {u: i for i, u in enumerate(order)}
        self.nodes = [nodes[u] for u in order]
        self.succ = [{p: idx[v] for p, v in sorted(succ[u].items())} for u in order]
        self.edges = [(u, p) for u in range(len(order)) for p in self.succ[u]]
        self.parent = {0: None}
        q = collections.deque([0])
        while q:
            u = q.popleft()
            for p, v in self.succ[u].items():
                if v not in self.parent:
                    self.parent[v] = (u, p)
                    q.append(v)

    def path_to(self, n):
        out = []
        while self.parent[n] is not None:
            n, p = self.parent[n]
            out.append(p)
        return out[::-1]

    def completion(self, cur):
        """the edges the round-robin completion of run_schedule will take from state cur (same rule as there)"""
        procs = sorted({p for d in self.succ for p in d})
        out, rr = [], 0
        while self.succ[cur]:
            rot = procs[rr % len(procs):] + procs[:rr % len(procs)]
            p = [q for q in rot if q in self.succ[cur]][0]
            rr = procs.index(p) + 1
            out.append((cur, p))
            cur = self.succ[cur][p]
        return out

    def path_cover(self):
        """complete schedules (initial state -> all actors done) that together take EVERY edge: for each edge not yet
        taken, walk backwards to the initial state and forwards to a terminal state, preferring untaken edges"""
        if not hasattr(self, "pred"):
            self._mkpred()
        covered, paths = set(), []
        for (u, p) in self.edges:
            if (u, p) in covered:
                continue
            back, n = [], u
            while n != 0:
                cands = self.pred[n]
                fresh = [e for e in cands if e not in covered]
                e = fresh[0] if fresh else self.parent[n]
                back.append(e)
                n = e[0]
            path = back[::-1] + [(u, p)]
            cur = self.succ[u][p]
            while self.succ[cur]:
                fresh = [q for q in self.succ[cur] if (cur, q) not in covered and (cur, q) not in path]
                q = fresh[0] if fresh else sorted(self.succ[cur])[len(path) % len(self.succ[cur])]
                path.append((cur, q))
                cur = self.succ[cur][q]
            covered.update(path)
            paths.append([q for _, q in path])
        return paths

    def _mkpred(self):
        self.pred = collections.defaultdict(list)
        for u, d in enumerate(self.succ):
            for p, v in d.items():
                self.pred[v].append((u, p))

    def random_path_to(self, n, rnd, tries=30):
        """a (usually different) path to n: backwards random walk over predecessor edges"""
        if not hasattr(self, "pred"):
            self._mkpred()
        out = []
        while n != 0:
            u, p = rnd.choice(self.pred[n])
            out.append(p)
            n = u
        return out[::-1]


# ------------------------------------------------------------------------------------------------------------
# executing one schedule with real processes
# ------------------------------------------------------------------------------------------------------------
def _contended(rel):
    return rel == "workspace" or rel.startswith("workspace/")


def _mutate_dependency():
    """Environment-guarded mutations of protocol pieces that live in the dependency (used only to test this
    engine's sensitivity; applied inside the forked actors, never to /venv)."""
    m = os.environ.get("VERIF_C12_MUTATE", "")
    if not m:
        return
    from synced_collections.backends import collection_json as cj
    if "nonatomic" in m:      # temp file + os.replace  ->  write in place
        def _save_in_place(self):
            blob = json.dumps(self, cls=cj.SyncedCollectionJSONEncoder).encode()
            with open(self._filename, "wb") as f:
                f.write(blob)
        cj.JSONCollection._save_to_resource = _save_in_place
    if "cacheddoc" in m:      # a document answers from memory after its first load ("reloaded on every access" dropped)
        orig_load = cj.BufferedJSONAttrDict._load
        loaded = set()

        def _load_once(self):
            if id(self) in loaded:
                return
            orig_load(self)
            loaded.add(id(self))
        cj.BufferedJSONAttrDict._load = _load_once
    if "tmpshared" in m:      # all writers share ONE temporary name
        def _save_shared_tmp(self):
            blob = json.dumps(self, cls=cj.SyncedCollectionJSONEncoder).encode()
            tmp = self._filename + ".tmp"
            with open(tmp, "wb") as f:
                f.write(blob)
            os.replace(tmp, self._filename)
        cj.JSONCollection._save_to_resource = _save_shared_tmp


def _make_actor(script, pre, big=False):
    def prelude(name, root):
        import signac
        _mutate_dependency()
        if name in pre:
            return {"project": signac.Project(root)}      # a handle made while the workspace existed
        return {"project": None}

    def actor(me, root, state):
        import signac
        project = state["project"]
        jobs, results = {}, []

        def job(j):
            if j not in jobs:
                jobs[j] = project.open_job(sp_of(j))
            return jobs[j]
        for i, o in enumerate(script[me]):
            try:
                op = o["op"]
                if op == "proj":
                    project = signac.Project(root)
                elif op == "init":
                    job(o["j"]).init()
                elif op == "set":
                    job(o["j"]).doc[o["k"]] = enc(o["v"], big)
                elif op == "get":
                    sched.checkpoint("get", o["j"])        # the read begins (a scheduling point of the specification)
                    results.append(["get", o["j"], {k: dec(v) for k, v in dict(job(o["j"]).doc()).items()}])
                elif op == "len":
                    results.append(["len", len(project)])
                elif op == "iter":
                    results.append(["iter", sorted(x.id for x in project)])
                elif op == "check":
                    from signac.errors import JobsCorruptedError
                    try:
                        project.check()
                        results.append(["check", []])
                    except JobsCorruptedError as e:     # the ids check() names are the operation's result
                        results.append(["check", sorted(e.job_ids)])
            except BaseException as e:  # noqa: the exception is the observation
                import traceback
                where = "?"
                for fr, _ in traceback.walk_tb(e.__traceback__):      # innermost frame inside the library under test
                    fn = fr.f_code.co_filename
                    if "/signac/" in fn or "synced_collections" in fn:
                        where = "%s.%s" % (os.path.splitext(os.path.basename(fn))[0], fr.f_code.co_name)
                return {"ok": False, "op": i, "opname": o["op"], "exc": type(e).__name__, "where": where, "mro": [c.__name__ for c in type(e).__mro__],
                        "msg": _safe_str(e)[:200], "tb": _safe_tb()[-1200:], "results": results}
        return {"ok": True, "results": results}
    return prelude, actor


def _safe_str(e):
    try:
        return str(e)
    except Exception as e2:  # noqa: e.g. WorkspaceError(OSError) has a __str__ returning a non-string
        return "<%s with unprintable message: %r>" % (type(e).__name__, getattr(e, "args", None))


def _safe_tb():
    import traceback
    try:
        return traceback.format_exc()
    except Exception:  # noqa
        return "<traceback not printable>"


def arrange(root, desc, names):
    """initial tree: project config (written by the real init_project), populated jobs by raw writes"""
    import signac
    signac.init_project(root)
    ws = os.path.join(root, "workspace")
    os.makedirs(ws, exist_ok=True)
    for j in desc["jobs0"]:
        d = os.path.join(ws, names.id[j])
        os.mkdir(d)
        with open(os.path.join(d, FN_SP), "wb") as f:
            f.write(json.dumps(sp_of(j)).encode())
        if j in desc["hasdoc0"]:
            with open(os.path.join(d, FN_DOC), "wb") as f:
                f.write(json.dumps({k: enc(v, desc.get("big")) for k, v in dict(desc["doc0"][j]).items()}).encode())
            coarse_stamp(os.path.join(d, FN_DOC))


def run_schedule(desc, path_nodes, schedule, workdir, graph=None, start=0, tamper=None, keep_trace=False, pre_nodes=None):
    """Execute one controlled schedule.
    path_nodes: spec states expected after each scheduled step (None: no spec, observation only);
    graph/start: continue following the graph after the explicit part (completion, still compared).
    Returns dict(div=[...], viol=[(signature, what)], executed=[actor...], covered=[(node, actor)...], ...)"""
    names = Names(desc["jobs"])
    root = tempfile.mkdtemp(prefix="c12-", dir=workdir)
    res = {"div": [], "viol": [], "executed": [], "covered": [], "steps": 0, "final": None}
    try:
        arrange(root, desc, names)
        prelude, actor = _make_actor(desc["script"], set(desc["pre"]), bool(desc.get("big")))
        procs = sorted(desc["script"])

        def mk(name):
            return lambda r, state: actor(name, r, state)

        def before_start():
            if not desc["ws"]:
                os.rmdir(os.path.join(root, "workspace"))
        # observed history of every document: complete values seen under the document's NAME at step boundaries
        view = None
        oi = 0
        dochist = {j: [] for j in desc["jobs"]}
        openidx = {}
        unknown_entries = set()
        begins = {}
        torn_reads, stale_reads = [], []

        def observe():
            nonlocal view
            view = real_view(root, names)
            unknown_entries.update("<32 hex>" if HEX32.match(x) else x.split("/")[-1][:3] + "..." for x in view["stray"])
            for j in desc["jobs"]:
                e = view["jobs"].get(j)
                t = e["doc"] if e else None
                val = frozenset() if t is None else (t[1] if t[0] == "full" else None)
                if val is not None and (not dochist[j] or dochist[j][-1] != val):
                    dochist[j].append(val)
        with sched.Run(root, {p: mk(p) for p in procs}, _contended, prelude=prelude, before_start=before_start) as run:
            observe()
            following = path_nodes is not None
            cur = start
            k = 0
            rr = 0
            while run.live():
                live = run.live()
                expect = None
                if following and k < len(schedule):
                    p = schedule[k]
                    expect = path_nodes[k]
                elif following and graph is not None:
                    # completion: round-robin over the live actors, still following the graph
                    cand = [q for q in procs[rr % len(procs):] + procs[:rr % len(procs)] if q in live and q in graph.succ[cur]]
                    if not cand:
                        res["div"].append(("spec-finished-early", k, "", "real actors still running: %s" % sorted(live)))
                        following = False
                        continue
                    p = cand[0]
                    rr = procs.index(p) + 1
                    expect = graph.nodes[graph.succ[cur][p]]
                elif following:
                    res["div"].append(("spec-finished-early", k, "", "real actors still running: %s" % sorted(live)))
                    following = False
                    continue
                else:
                    # observation only: keep to the planned order where it names a live actor, then round-robin
                    while oi < len(schedule) and schedule[oi] not in live:
                        oi += 1
                    if oi < len(schedule):
                        p = schedule[oi]
                        oi += 1
                    else:
                        p = live[rr % len(live)]
                        rr += 1
                if p not in live:
                    res["div"].append(("actor-finished-early", k, p, "spec expects %s" % (expect and (_lab(expect["last"]),))))
                    following, oi = False, k
                    continue
                raw = run.pending(p)
                lab = names.label(raw)
                if tamper and tamper[0] == "label" and tamper[1] == k and expect is not None:
                    expect = dict(expect, last=dict(expect["last"], op="stat" if expect["last"]["op"] != "stat" else "mkdir"))
                if expect is not None:
                    want = _lab(expect["last"])
                    if lab != want:
                        res["div"].append(("label", k, p, "spec %s, real %s" % (want, lab)))
                        following, expect, oi = False, None, k + 1
                # reads: where does the read start (for 'later reads see completed writes')
                out = run.grant(p)
                if lab[0] == "replace" and lab[1] == "doc" and not (out or {}).get("err"):
                    # coarse time stamps: every completed version of a document carries the same whole-second mtime
                    coarse_stamp(os.path.join(root, "workspace", names.id[lab[2]], FN_DOC))
                res["executed"].append(p)
                res["steps"] += 1
                observe()
                rout = real_outcome(lab, out, names)
                if lab[0] == "begin" and lab[1] == "get":
                    begins.setdefault(p, []).append((lab[2], max(0, len(dochist[lab[2]]) - 1)))
                if lab[0] == "open:rb" and lab[1] == "doc" and not (out or {}).get("err"):
                    openidx[p] = max(0, len(dochist[lab[2]]) - 1)
                if lab[0] == "read" and lab[1] in ("sp", "doc"):
                    if rout[0] != "ok":
                        torn_reads.append((p, lab[1], lab[2], repr((sched.decode_data(out) or b"")[:40])))
                    elif lab[1] == "doc":
                        h = dochist[lab[2]]
                        if rout[1] not in h:
                            torn_reads.append((p, "doc", lab[2], "value %s never completed; history %s" % (sorted(rout[1]), [sorted(x) for x in h])))
                        elif rout[1] not in h[openidx.get(p, 0):]:
                            stale_reads.append((p, lab[2], sorted(rout[1]), [sorted(x) for x in h], openidx.get(p, 0)))
                if expect is not None:
                    if graph is not None and k >= len(schedule):
                        src = cur
                        cur = graph.succ[cur][p]
                    else:
                        src = pre_nodes[k] if pre_nodes is not None else None
                    want = (expect["last"]["out"], expect["last"]["val"])
                    if rout != want:
                        res["div"].append(("outcome", k, p, "%s: spec %s, real %s" % (lab, _o(want), _o(rout))))
                        following, oi = False, k + 1
                    else:
                        sv = spec_view(expect["st"])
                        if tamper and tamper[0] == "fs" and tamper[1] == k:
                            sv["ws"] = not sv["ws"]
                        if sv != view:
                            res["div"].append(("fs", k, p, "after %s: spec %s, real %s" % (lab, _v(sv), _v(view))))
                            following, oi = False, k + 1
                        elif src is not None:
                            res["covered"].append((src, p))      # label, outcome and resulting tree all agreed
                k += 1
            results = {p: (run.done(p) or {}) for p in procs}
            trace = [(n, list(lbl), _short(o)) for n, lbl, o in run.trace] if keep_trace else None
        # ---- the actors' results --------------------------------------------------------------------------
        actor_res = {}
        for p in procs:
            d = results[p]
            if not d.get("ok"):
                raise sched.SchedError("actor %s: harness-level failure %r" % (p, d))
            actor_res[p] = d["result"]
            r = d["result"]
            if not r["ok"]:
                res["viol"].append(("actor-error:%s:%s" % (r["exc"], r["where"]),
                                    "process %s raised %s(%s) from %s in op %d (%s) of scenario %s" % (p, r["exc"], r["msg"], r["where"], r["op"], r["opname"], desc["scenario"])))
        # operation level: the value a get returned, against the values the document had since the get began
        for p in procs:
            gets = [x for x in actor_res[p]["results"] if x[0] == "get"]
            for (kind, j, val), (bj, idx) in zip(gets, begins.get(p, [])):
                v = frozenset(val.items()) if isinstance(val, dict) and all(isinstance(x, str) for x in val.values()) else None
                h = dochist[j]
                if bj != j:
                    continue
                if v not in h:
                    torn_reads.append((p, "doc", j, "job.doc() = %r, a value no write completed; history %s" % (val, [sorted(x) for x in h])))
                elif v not in h[idx:]:
                    stale_reads.append((p, j, sorted(v), [sorted(x) for x in h], idx))
        # at ANY time a listing / check() may only show requested jobs (observation: every listdir step of every actor on
        # the workspace, and what len / iteration / check() returned)
        req_ids = {names.id[j] for j in desc["requested"]}
        for n, lbl, o in run.trace:
            if lbl[0] in ("listdir", "scandir") and lbl[-1] == "workspace" and o and not o.get("err"):
                ghosts = [x for x in o.get("names", []) if HEX32.match(x) and x not in req_ids]
                if ghosts:
                    res["viol"].append(("ghost-job:listing", "process %s listed the workspace and saw %s, an id nobody requested (requested: %s; scenario %s)" % (n, ghosts, sorted(desc["requested"]), desc["scenario"])))
        for p in procs:
            for x in actor_res[p]["results"]:
                if x[0] == "len" and x[1] > len(req_ids):
                    res["viol"].append(("ghost-job:listing", "process %s: len(project) == %d although only %d jobs were ever requested (scenario %s)" % (p, x[1], len(req_ids), desc["scenario"])))
                elif x[0] == "iter" and not set(x[1]) <= req_ids:
                    res["viol"].append(("ghost-job:listing", "process %s iterated over %s, ids nobody requested (scenario %s)" % (p, sorted(set(x[1]) - req_ids), desc["scenario"])))
                elif x[0] == "check" and not set(x[1]) <= req_ids:
                    res["viol"].append(("ghost-job:check", "process %s: check() names %s, ids nobody requested (scenario %s)" % (p, sorted(set(x[1]) - req_ids), desc["scenario"])))
        if unknown_entries and not res["div"]:
            res["div"].append(("unknown-entry", 0, "", "entries of workspace/ that are no requested id: %s" % sorted(unknown_entries)))
        for p, kind, j, what in torn_reads:
            res["viol"].append(("torn-read:%s" % kind, "process %s read %s of %s and got %s, which no write completed (scenario %s)" % (p, kind, j, what, desc["scenario"])))
        for p, j, val, h, i0 in stale_reads:
            res["viol"].append(("stale-read:doc", "process %s read document of %s = %s although value #%d of %s was complete when the read began (scenario %s)" % (p, j, val, i0, h, desc["scenario"])))
        # ---- fresh session ---------------------------------------------------------------------------------
        import signac
        final = {"check": "pass", "ids": None, "docs": {}}
        proj = signac.Project(root) if desc["wsfinal"] or os.path.isdir(os.path.join(root, "workspace")) else None
        if proj is not None:
            try:
                proj.check()
            except Exception as e:  # noqa
                final["check"] = "%s: %s" % (type(e).__name__, str(e)[:120])
            ids = sorted(j.id for j in proj)
            final["ids"] = [names.job.get(i, i) for i in ids]
            for i in ids:
                try:
                    final["docs"][names.job.get(i, i)] = {k: dec(v) for k, v in dict(proj.open_job(id=i).doc()).items()}
                except Exception as e:  # noqa
                    final["docs"][names.job.get(i, i)] = "%s: %s" % (type(e).__name__, str(e)[:120])
        else:
            final["ids"] = []
        final["tree"] = _v(real_view(root, names))
        res["final"] = final
        scn = desc["scenario"]
        if final["check"] != "pass":
            res["viol"].append(("final:check-fails", "after all processes finished check() reports %s (scenario %s)" % (final["check"], scn)))
        failed = any(not actor_res[p]["ok"] for p in procs)      # a dead actor's missing work is reported once, as the actor error
        if not failed and sorted(final["ids"]) != sorted(desc["requested"]):
            res["viol"].append(("final:job-set", "workspace holds %s, requested %s (scenario %s)" % (final["ids"], desc["requested"], scn)))
        for j in desc["requested"]:
            want = dict(desc["seqdoc"][j])
            got = final["docs"].get(j)
            if not failed and j in final["ids"] and got != want:
                res["viol"].append(("final:document", "document of %s is %r, every sequential execution gives %r (scenario %s)" % (j, got, want, scn)))
        fv = real_view(root, names)
        litter = fv["stray"] + ["%s/<tmp %s>" % (j, t[0]) for j, e in fv["jobs"].items() for t in e["tmp"]]
        if litter:
            res["viol"].append(("final:litter", "files no sequential execution leaves behind: %s (scenario %s)" % (litter, scn)))
        # ---- results against the spec's final state (conformance only) ---------------------------------------
        if following and graph is None and k != len(schedule):
            res["div"].append(("real-finished-early", k, "", "the specification's behaviour has %d steps" % len(schedule)))
            following = False
        if following and (graph is not None or len(schedule)):
            end = graph.nodes[cur] if graph is not None else path_nodes[-1]
            want = {p: ("ok" if end["st"]["res"][p] == "ok" else end["st"]["res"][p], list(end["st"]["rets"][p])) for p in procs}
            got = {}
            for p in procs:
                r = actor_res[p]
                vals = []
                for x in r["results"]:
                    if x[0] == "get":
                        vals.append(frozenset(x[2].items()))
                    elif x[0] == "len":
                        vals.append(x[1])
                    else:
                        vals.append(frozenset(("job", names.job.get(i, "?" + i)) for i in x[1]))
                got[p] = ("ok" if r["ok"] else r["exc"], vals)
            for p in procs:
                w = want[p]
                kinds = [o["op"] for o in desc["script"][p] if o["op"] in ("get", "len", "iter", "check")][:len(w[1])]
                wv = [len(v) if kd == "len" else v for kd, v in zip(kinds, w[1])]
                if (w[0], wv) != got[p]:
                    res["div"].append(("result", k, p, "spec %s %s, real %s %s" % (w[0], [_s(x) for x in wv], got[p][0], [_s(x) for x in got[p][1]])))
            if any(end["st"]["pc"][p]["l"] != "done" for p in procs):
                res["div"].append(("real-finished-early", k, "", "spec state not terminal"))
        res["actors"] = {p: {kk: vv for kk, vv in actor_res[p].items() if kk != "tb"} for p in procs}
        if keep_trace:
            res["trace"] = trace
        return res
    finally:
        shutil.rmtree(root, ignore_errors=True)


def _lab(last):
    return (last["op"], last["obj"], last["j"])


def _s(x):
    return sorted(x) if isinstance(x, (set, frozenset)) else x


def _o(o):
    return (o[0], sorted(o[1]))


def _v(view):
    def t(x):
        if x is None:
            return None
        return x[0] if len(x) == 1 else (x[0], sorted(x[1]) if isinstance(x[1], (set, frozenset)) else x[1])
    return {"ws": view["ws"], "stray": view["stray"],
            "jobs": {j: {"sp": t(e["sp"]), "doc": t(e["doc"]), "tmp": [(k, t(x)) for k, x in e["tmp"]]} for j, e in sorted(view["jobs"].items())}}


def _short(o):
    if not o:
        return o
    o = dict(o)
    if o.get("data") is not None:
        o["data"] = sched.decode_data(o).decode("latin1")[:80]
    return o


# ------------------------------------------------------------------------------------------------------------
# pool plumbing: graphs live in module globals so that forked workers see them without pickling
# ------------------------------------------------------------------------------------------------------------
_G = {}
_D = {}
_WORK = [None]


def _edge_job(item):
    name, u, p, mode, seed = item
    g = _G[name]
    if mode == "path":       # p is a complete schedule chosen by Graph.path_cover
        sched_ = list(p)
    elif mode == "bfs":
        sched_ = g.path_to(u) + [p]
    else:
        sched_ = g.random_path_to(u, random.Random(seed)) + [p]
    nodes, cur, ids = [], 0, []
    for q in sched_:
        ids.append(cur)
        cur = g.succ[cur][q]
        nodes.append(g.nodes[cur])
    r = run_schedule(g.desc, nodes, sched_, _WORK[0], graph=g, start=cur, pre_nodes=ids)
    r["item"] = (name, u, p)
    r["schedule"] = sched_
    r.pop("actors", None)
    fin = r.pop("final", None)
    if r["viol"] or r["div"]:
        r["final"] = fin
    return r


def _sim_job(item):
    name, fn = item
    desc = _D[name]
    states = [s for _, s in tlaparse.parse_sim_file(fn)]
    os.remove(fn)
    sched_ = [s["last"]["p"] for s in states[1:]]
    r = run_schedule(desc, states[1:], sched_, _WORK[0])
    r["item"] = (name, "sim", len(sched_))
    r["schedule"] = sched_
    r.pop("actors", None)
    fin = r.pop("final", None)
    if r["viol"] or r["div"]:
        r["final"] = fin
    return r


def _collect(ctx, desc_by_name, results, what):
    nviol = ndiv = 0
    for r in results:
        name = r["item"][0]
        desc = desc_by_name[name]
        for sig, text in r["viol"]:
            nviol += 1
            ctx.violation(sig, text, {"desc": desc, "schedule": r["executed"], "final": r.get("final"), "source": what})
        if r["div"]:
            ndiv += 1
            d = r["div"][0]
            ctx.spec_drift("%s %s: %s at step %s of schedule %s: %s" % (what, name, d[0], d[1], "".join(x[-1] for x in r["schedule"]), d[-1]))
    return nviol, ndiv


# ------------------------------------------------------------------------------------------------------------
# TLC runs
# ------------------------------------------------------------------------------------------------------------
def tlc_graph(ctx, name, scn_json=None, workers=4):
    dump = os.path.join(ctx.work, "g_%s.dot" % name)
    r = tlc.run(SPEC, cfg_text=cfg_text("file" if scn_json else name), workdir=os.path.join(ctx.work, "tlc_" + name), workers=workers,
                dump=dump, env=scenario_env(ctx, scn_json), allow_violation=True)
    desc = parse_describe(r.stdout)
    desc["scenario"] = name
    return r, desc, dump


def _tlc_graph_job(args):
    ctx, name, scn_json = args
    r, desc, dump = tlc_graph(ctx, name, scn_json, workers=2)
    g = None
    if r.violation is None:
        nodes, edges, inits = tlaparse.parse_dot(dump)
        g = Graph(name, desc, nodes, edges, inits)
    try:
        os.remove(dump)
    except OSError:
        pass
    return name, r, desc, g


def random_scenario(rnd, n):
    """a random two-process scenario over the property's script alphabet (single writer per document)"""
    jobs = ["j1", "j2"]
    ws = rnd.random() < 0.6
    jobs0 = [j for j in jobs if ws and rnd.random() < 0.35]
    doc0 = {j: [["x", "0"]] for j in jobs0 if rnd.random() < 0.5}
    pre = []
    procs = {}
    writer = {"j1": "p1", "j2": "p2"} if rnd.random() < 0.5 else {"j1": "p2", "j2": "p1"}
    for p in ("p1", "p2"):
        ops = []
        if p == "p2" and rnd.random() < 0.2:
            pre.append(p)
        else:
            ops.append(["proj", "-", "-", "-"])
        for _ in range(rnd.randint(1, 3)):
            c = rnd.random()
            j = rnd.choice(jobs)
            if c < 0.3:
                ops.append(["init", j, "-", "-"])
            elif c < 0.55:
                j = [x for x in jobs if writer[x] == p][0]
                ops.append(["set", j, rnd.choice(["a", "b"]), rnd.choice(["1", "2"])])
            elif c < 0.8:
                ops.append(["get", j, "-", "-"])
            elif c < 0.87:
                ops.append(["len", "-", "-", "-"])
            elif c < 0.94:
                ops.append(["check", "-", "-", "-"])
            else:
                ops.append(["iter", "-", "-", "-"])
        procs[p] = ops
    return {"name": "rnd%02d" % n, "def": {"procs": procs, "ws": ws, "jobs": jobs, "jobs0": jobs0, "doc0": doc0, "pre": pre, "big": rnd.random() < 0.2}}


def replay_counterexample(ctx, name, desc, r):
    """TLC found a requirement violated on the conformant model: replay the behaviour on the real code and report
    only what the real execution shows (DESIGN 2.6 / 6)."""
    states = [s for _, s in r.violation["trace"]]
    sched_ = [s["last"]["p"] for s in states[1:]]
    out = run_schedule(desc, states[1:], sched_, ctx.work)
    for sig, text in out["viol"]:
        ctx.violation(sig, text + " [TLC counterexample of %s]" % r.violation["name"], {"desc": desc, "schedule": out["executed"], "final": out["final"], "source": "tlc-counterexample"})
    if not out["viol"]:
        ctx.spec_drift("TLC reports %s violated in scenario %s but the real execution of the counterexample shows no violated post-condition (specification to be corrected); divergences: %s" % (r.violation["name"], name, out["div"][:1]))
    return out


# ------------------------------------------------------------------------------------------------------------
def run(ctx):
    import signac  # noqa: warm the parent - children are forked from here
    _WORK[0] = ctx.work
    rnd = random.Random(ctx.seed)
    nproc = int(os.environ.get("VERIF_C12_PROCS", "16"))
    ctx.assumptions += [
        "kernel: rename(2) replaces atomically, an open descriptor keeps its inode; one write(2) call per file (documents of a few bytes)",
        "the in-process shim gates every contended file-system call the actors make (audited by comparing the recorded step sequences with DESIGN Appendix D)",
        "TLC, the TLA+ value parser",
        "one writer process per document (the property's scope); nobody removes jobs concurrently",
    ]
    ctx.cov["rule"] = ("case = one edge (state, actor step) of TLC's interleaving graph of a scenario, executed as a controlled schedule over "
                       "forked real processes (path to the source state, the edge, round-robin completion along the graph); distinct = distinct "
                       "(scenario, state, actor); 3 actors: TLC decides all interleavings, binding by -simulate behaviours")
    ctx.cov["scenarios"] = {}
    desc_by_name = {}
    import time
    t_phase = [time.time()]
    ctx.cov["phase_wall_s"] = {}

    def phase(name):
        ctx.cov["phase_wall_s"][name] = round(time.time() - t_phase[0], 1)
        t_phase[0] = time.time()

    # ---- model sanity: the broken protocols must be REJECTED by TLC ----------------------------------------------
    sanity = {}
    broken = [("init_same", {"MkdirExistOk": False}, "NoActorError"),
              ("init_same_nows", {"MkdirExistOk": False}, "NoActorError"),
              ("init_same", {"SaveIfAbsent": False, "AtomicWrite": False}, "NoTornObservation"),
              ("init_same", {"ValidateAfterWrite": False, "AtomicWrite": False}, "NoTornObservation"),
              ("reader_sees", {"AtomicWrite": False}, "NoTornObservation"),
              ("list_nows", {"ListTolerant": False}, "NoActorError")]

    def broken_run(x):
        scn, off, inv = x
        return tlc.run(SPEC, cfg_text=cfg_text(scn, invariants=[inv], **off), workdir=os.path.join(ctx.work, "tlc_sanity_%d" % broken.index(x)),
                       workers=1, allow_violation=True, coverage=False)
    for (scn, off, inv), r in zip(broken, _threads(broken_run, broken, 3)):
        key = "%s with %s" % (scn, ",".join("%s=FALSE" % k for k in off))
        if r.violation is None or r.violation["name"] != inv:
            raise core.MachineryError("model sanity: TLC did not find %s violated on %s" % (inv, key))
        sanity[key] = "%s violated after %d steps" % (inv, len(r.violation["trace"]) - 1)
        ctx.add_tlc("sanity (must be violated): " + key, r)
    ctx.cov["model_sanity"] = sanity
    phase("model sanity (6 TLC runs)")

    # ---- two actors: all interleavings, every edge executed ------------------------------------------------------
    todo = [(ctx, n, None) for n in TWO]
    if not ctx.quick:
        todo += [(ctx, s["name"], s) for s in (random_scenario(rnd, i) for i in range(24))]
        todo += [(ctx, "init_same_3", None)]
    # TLC runs are independent JVMs; run a few side by side
    graphs = _threads(_tlc_graph_job, todo, 4 if nproc >= 16 else 2)
    acts = collections.Counter()
    for name, r, desc, g in graphs:
        ctx.add_tlc("all interleavings of %s" % name, r)
        for a, (d, t) in r.actions.items():
            acts[a] += t
        desc_by_name[name] = desc
        ctx.cov["scenarios"][name] = {"states": r.distinct, "edges": len(g.edges) if g else None, "procs": len(desc["script"]),
                                      "scripts": {p: " ; ".join(_opstr(o) for o in ops) for p, ops in desc["script"].items()},
                                      "ws": desc["ws"], "jobs0": desc["jobs0"], "pre": desc["pre"]}
        if r.violation is not None:
            replay_counterexample(ctx, name, desc, r)
            continue
        _G[name] = g
    phase("TLC state graphs + parsing")
    missing = [a for a in ALL_ACTIONS if acts[a] == 0]
    if missing:
        raise core.MachineryError("vacuous: specification actions never taken in any scenario: %s" % missing)
    # Layers of schedules.  Layer 0 is mandatory and already executes EVERY edge of every graph at least once (complete
    # schedules chosen by Graph.path_cover).  The further layers re-execute the edges over other histories; they are
    # run in chunks until the tier's wall-clock budget is used up (what was left out is recorded in the evidence).
    layers = [("path cover: every edge of every graph", [])]
    for name in sorted(_G):
        layers[0][1].extend((name, i, tuple(path), "path", 0) for i, path in enumerate(_G[name].path_cover()))
    if ctx.quick:
        extra = []
        for name in sorted(_G):
            g = _G[name]
            extra += [(name, u, p, "rnd", rnd.randrange(1 << 30)) for (u, p) in rnd.sample(g.edges, min(len(g.edges), 60))]
        layers.append(("seeded sample of edges: random path to the source, the edge, round-robin completion", extra))
    else:
        two = [n for n in sorted(_G) if len(desc_by_name[n]["script"]) == 2]
        layers.append(("one schedule per edge (shortest path, edge, round-robin completion): built-in two-actor scenarios",
                       [(n, u, p, "bfs", 0) for n in two if n in TWO for (u, p) in _G[n].edges]))
        layers.append(("one schedule per edge: random two-actor scenarios",
                       [(n, u, p, "bfs", 0) for n in two if n not in TWO for (u, p) in _G[n].edges]))
        layers.append(("two further schedules per edge over random paths: built-in two-actor scenarios",
                       [(n, u, p, "rnd", rnd.randrange(1 << 30)) for n in two if n in TWO for (u, p) in _G[n].edges for _ in range(2)]))
    budget = float(os.environ.get("VERIF_C12_BUDGET_S", "100000" if ctx.quick else "1080"))
    results, ctx.cov["schedule_layers"] = [], []
    for li, (what, items) in enumerate(layers):
        done = 0
        for c0 in range(0, len(items), 3000):
            if li > 0 and time.time() - ctx.t0 > budget:
                break
            chunk = items[c0:c0 + 3000]
            results += core.pmap(_edge_job, chunk, procs=nproc)
            done += len(chunk)
        ctx.cov["schedule_layers"].append({"layer": what, "planned": len(items), "executed": done})
    covered = set()
    for r in results:
        name, u, p = r["item"]
        ctx.count(n=1, traces=1)
        for e in r["covered"]:
            covered.add((name,) + tuple(e))
    for e in sorted(covered):
        ctx.count(key=e, n=0)
    nviol, ndiv = _collect(ctx, desc_by_name, results, "edge schedule")
    total_edges = sum(len(g.edges) for g in _G.values())
    ctx.cov["edge_cover"] = {"edges": total_edges, "schedules": len(results), "edges_executed": len(covered),
                             "schedules_with_divergence": ndiv, "violating_observations": nviol,
                             "steps_granted": sum(r["steps"] for r in results)}
    if len(covered) < total_edges and not ndiv:
        raise core.MachineryError("edge cover incomplete: %d of %d" % (len(covered), total_edges))
    for r in results[:1] + results[len(results) // 2: len(results) // 2 + 1]:
        ctx.sample({"scenario": r["item"][0], "edge": [r["item"][1], "".join(x[-1] for x in r["item"][2]) if isinstance(r["item"][2], tuple) else r["item"][2]], "schedule": "".join(x[-1] for x in r["executed"]),
                    "divergences": r["div"], "violations": r["viol"]})

    phase("edge schedules on real processes")
    # ---- three actors: TLC decides all interleavings; -simulate behaviours are replayed -----------------------
    sims = []

    def three(name):
        out = []
        if (not ctx.quick or name == "init_same_3") and name not in desc_by_name:
            r = tlc.run(SPEC, cfg_text=cfg_text(name), workdir=os.path.join(ctx.work, "tlc_" + name), workers=max(2, nproc // 2), allow_violation=True)
            out.append(("all interleavings of %s (3 actors, no dump)" % name, r))
        n = 150 if ctx.quick else 2500
        pref = os.path.join(ctx.work, "sim_" + name)
        r = tlc.run(SPEC, cfg_text=cfg_text(name), workdir=os.path.join(ctx.work, "tlcsim_" + name), workers=1, simulate="file=%s,num=%d" % (pref, n),
                    depth=200, seed=ctx.seed % 10**6, allow_violation=True)
        out.append(("-simulate %d behaviours of %s" % (n, name), r))
        return name, out, pref
    for name, runs, pref in _threads(three, THREE, 3):
        for what, r in runs:
            ctx.add_tlc(what, r)
            desc = parse_describe(r.stdout)
            if r.violation is not None:
                replay_counterexample(ctx, name, desc, r)
        _D[name] = desc_by_name[name] = desc
        ctx.cov["scenarios"].setdefault(name, {"procs": 3, "scripts": {p: " ; ".join(_opstr(o) for o in ops) for p, ops in desc["script"].items()},
                                               "ws": desc["ws"], "jobs0": desc["jobs0"], "pre": desc["pre"]})
        files = sorted(glob.glob(pref + "_*"), key=lambda f: [int(x) for x in re.findall(r"\d+", os.path.basename(f))[-2:]])
        sims += [(name, f) for f in files]
        ctx.cov["scenarios"][name]["simulated_behaviours"] = len(files)
    # interleave the three scenarios so that a budget cut leaves all of them sampled
    by = collections.defaultdict(list)
    for x in sims:
        by[x[0]].append(x)
    sims = [x for grp in zip(*[by[n] for n in sorted(by)]) for x in grp] if len({len(v) for v in by.values()}) == 1 else sims
    simres = _budgeted(ctx, _sim_job, sims, nproc, budget + 360, "simulated")
    for r in simres:
        ctx.count(key=("sim", r["item"][0], "".join(x[-1] for x in r["schedule"])), traces=1)
    nviol3, ndiv3 = _collect(ctx, desc_by_name, simres, "simulated schedule")
    ctx.cov["simulated"] = {"schedules": len(simres), "distinct_schedules": len({(r["item"][0], tuple(r["schedule"])) for r in simres}), "schedules_with_divergence": ndiv3, "violating_observations": nviol3,
                            "steps_granted": sum(r["steps"] for r in simres)}
    if simres:
        r = simres[0]
        ctx.sample({"scenario": r["item"][0], "simulated_schedule": "".join(x[-1] for x in r["executed"]), "divergences": r["div"], "violations": r["viol"]})

    phase("three actors: TLC + simulated schedules")
    # ---- code -> spec: free-running random schedules (no spec in the loop), judged by observation ----------------
    free = []
    for name in sorted(desc_by_name):
        for i in range(10 if ctx.quick else 150):
            free.append((name, desc_by_name[name], rnd.randrange(1 << 30)))
    rnd.shuffle(free)
    freeres = _budgeted(ctx, _free_job, free, nproc, budget + 540, "free")
    for r in freeres:
        ctx.count(key=("free", r["item"][0], "".join(x[-1] for x in r["executed"])), traces=1)
    nviolf, _ = _collect(ctx, desc_by_name, freeres, "random schedule")
    ctx.cov["free_random_schedules"] = {"schedules": len(freeres), "violating_observations": nviolf}

    phase("free random schedules")
    # ---- binding self-test ---------------------------------------------------------------------------------------
    g = _G.get("init_same_nows")
    st = {}
    if g is not None:
        u, p = g.edges[len(g.edges) // 2]
        pre = g.path_to(u) + [p]
        nodes, cur = [], 0
        for q in pre:
            cur = g.succ[cur][q]
            nodes.append(g.nodes[cur])
        base = run_schedule(g.desc, nodes, pre, ctx.work, graph=g, start=cur)
        t1 = run_schedule(g.desc, nodes, pre, ctx.work, graph=g, start=cur, tamper=("label", len(pre) - 1))
        t2 = run_schedule(g.desc, nodes, pre, ctx.work, graph=g, start=cur, tamper=("fs", len(pre) - 1))
        t3 = run_schedule(g.desc, nodes[:1] + nodes[2:], pre[:1] + pre[2:], ctx.work) if len(pre) > 2 else {"div": [("n/a",)]}
        st = {"untampered_divergences": len(base["div"]), "corrupted_expected_label_noticed": bool(t1["div"]) and t1["div"][0][0] == "label",
              "corrupted_expected_tree_noticed": bool(t2["div"]) and t2["div"][0][0] == "fs", "dropped_step_noticed": bool(t3["div"])}
        if base["div"] == [] and not (st["corrupted_expected_label_noticed"] and st["corrupted_expected_tree_noticed"] and st["dropped_step_noticed"]):
            raise core.MachineryError("binding self-test failed: %s" % st)
    ctx.cov["binding_selftest"] = st
    phase("binding self-test")
    # ---- audit: the shim gates every path-taking system call of an actor below workspace/ (strace) ---------------
    ctx.cov["shim_audit"] = shim_audit(ctx)
    if ctx.cov["shim_audit"].get("identical_sequences") is False:
        raise core.MachineryError("the shim does not gate every file-system call on contended paths: %s" % ctx.cov["shim_audit"])
    phase("strace audit of the shim")
    ctx.cov["exhaustive"] = "2 actors: every edge of every scenario graph; 3 actors: invariants exhaustive in TLC, binding sampled"


# ------------------------------------------------------------------------------------------------------------
# audit of the shim: under strace, every path-taking syscall of an actor below workspace/ must be a gated step
# ------------------------------------------------------------------------------------------------------------
_AUDIT_SCRIPT = {"scenario": "audit", "script": {"p1": [{"op": "proj", "j": "-", "k": "-", "v": "-"}, {"op": "init", "j": "j1", "k": "-", "v": "-"},
                                                        {"op": "set", "j": "j1", "k": "a", "v": "1"}, {"op": "get", "j": "j1", "k": "-", "v": "-"},
                                                        {"op": "set", "j": "j2", "k": "b", "v": "2"}, {"op": "init", "j": "j1", "k": "-", "v": "-"},
                                                        {"op": "len", "j": "-", "k": "-", "v": "-"}, {"op": "iter", "j": "-", "k": "-", "v": "-"}]},
                 "ws": False, "jobs": ["j1", "j2"], "jobs0": [], "doc0": {"j1": [], "j2": []}, "hasdoc0": [], "pre": [], "requested": ["j1", "j2"],
                 "seqdoc": {"j1": [["a", "1"]], "j2": [["b", "2"]]}, "hasdoc": ["j1", "j2"], "wsfinal": True, "big": False}


def _audit_child(out_fn, workdir):
    """runs in a fresh interpreter under strace: one actor, all its steps granted immediately"""
    import signac  # noqa
    desc = _AUDIT_SCRIPT
    names = Names(desc["jobs"])
    root = tempfile.mkdtemp(prefix="c12-audit-", dir=workdir)
    arrange(root, desc, names)
    prelude, actor = _make_actor(desc["script"], set())
    with sched.Run(root, {"p1": lambda r, st: actor("p1", r, st)}, _contended, prelude=prelude,
                   before_start=lambda: os.rmdir(os.path.join(root, "workspace"))) as run:
        pid = run.actors["p1"].pid
        run.run_round_robin()
        trace = [list(lbl) for _, lbl, _ in run.trace]
        done = run.done("p1")
    with open(out_fn, "w") as f:
        json.dump({"pid": pid, "root": os.path.realpath(root), "trace": trace, "ok": bool(done and done.get("ok") and done["result"]["ok"])}, f)
    shutil.rmtree(root, ignore_errors=True)


def shim_audit(ctx):
    import subprocess
    import sys
    if not shutil.which("strace"):
        return {"skipped": "strace not available"}
    out_fn, st_fn = os.path.join(ctx.work, "audit.json"), os.path.join(ctx.work, "audit.strace")
    code = "import sys, logging; logging.disable(logging.CRITICAL); from harness.drivers import c12; c12._audit_child(sys.argv[1], sys.argv[2])"
    p = subprocess.run(["strace", "-f", "-qq", "-e", "trace=%file", "-o", st_fn, sys.executable, "-c", code, out_fn, ctx.work],
                       stdout=subprocess.PIPE, stderr=subprocess.STDOUT, timeout=600)
    if p.returncode != 0 or not os.path.exists(out_fn):
        return {"skipped": "strace run failed (rc=%s): %s" % (p.returncode, p.stdout.decode("utf-8", "replace")[-300:])}
    info = json.load(open(out_fn))
    wsroot = info["root"] + "/workspace"
    cls = {"newfstatat": "stat", "stat": "stat", "lstat": "stat", "statx": "stat", "openat": "open", "open": "open", "creat": "open", "mkdir": "mkdir",
           "mkdirat": "mkdir", "rename": "rename", "renameat": "rename", "renameat2": "rename"}
    sys_seq = []
    for line in open(st_fn, errors="replace"):
        m = re.match(r"^(\d+)\s+(\w+)\((.*)$", line)
        if not m or int(m.group(1)) != info["pid"] or wsroot not in m.group(3):
            continue
        paths = [x for x in re.findall(r'"((?:[^"\\]|\\.)*)"', m.group(3)) if x.startswith(wsroot)]
        sys_seq.append((cls.get(m.group(2), m.group(2)), os.path.relpath(paths[-1], info["root"])))
    gate_cls = {"stat": "stat", "lstat": "stat", "listdir": "open", "mkdir": "mkdir", "replace": "rename", "rename": "rename"}
    gated = []
    for lbl in info["trace"]:
        op = lbl[0]
        if op in ("read", "write", "mark"):
            continue
        gated.append(("open" if op.startswith("open:") else gate_cls.get(op, op), lbl[-1]))
    res = {"actor_ok": info["ok"], "path_syscalls_below_workspace": len(sys_seq), "gated_path_steps": len(gated), "identical_sequences": sys_seq == gated}
    if sys_seq != gated:
        i = next((k for k, (a, b) in enumerate(zip(sys_seq, gated)) if a != b), min(len(sys_seq), len(gated)))
        res["first_difference"] = {"index": i, "syscall": sys_seq[i:i + 2], "gated": gated[i:i + 2]}
    return res


def _budgeted(ctx, fn, items, nproc, budget, what):
    """pmap in chunks; the first chunk always runs, later ones while the wall-clock budget lasts"""
    import time
    out = []
    for c0 in range(0, len(items), 1500):
        if c0 and time.time() - ctx.t0 > budget:
            break
        out += core.pmap(fn, items[c0:c0 + 1500], procs=nproc)
    ctx.cov.setdefault("budget", {})[what] = {"planned": len(items), "executed": len(out)}
    return out


def _free_job(item):
    name, desc, seed = item
    rnd = random.Random(seed)
    procs = sorted(desc["script"])
    # a random schedule long enough for any run; run_schedule falls back to round-robin when it is exhausted
    sched_ = [rnd.choice(procs) for _ in range(400)]
    r = run_schedule_order(desc, sched_, _WORK[0])
    r["item"] = (name, "free", seed)
    r["schedule"] = r["executed"]
    return r


def run_schedule_order(desc, order, workdir, keep_trace=False):
    """Execute with real processes following `order` (a list of actor names; entries naming a finished actor are
    skipped; when exhausted: round-robin).  No specification in the loop - verdict from observation only."""
    return run_schedule(desc, None, order, workdir, keep_trace=keep_trace)


def _threads(fn, items, n):
    from concurrent.futures import ThreadPoolExecutor
    with ThreadPoolExecutor(n) as ex:
        return list(ex.map(fn, items))


def _opstr(o):
    if o["op"] == "set":
        return "doc(%s)[%s]=%s" % (o["j"], o["k"], o["v"])
    if o["op"] in ("init", "get"):
        return "%s(%s)" % (o["op"], o["j"])
    return o["op"]


def replay(ctx, data):
    import signac  # noqa
    desc = data["desc"]
    r = run_schedule_order(desc, data["schedule"], ctx.work, keep_trace=True)
    print("scenario:", desc["scenario"], {p: " ; ".join(_opstr(o) for o in ops) for p, ops in desc["script"].items()},
          "ws exists" if desc["ws"] else "no workspace", "populated: %s" % desc["jobs0"])
    for n, lbl, o in r.get("trace") or []:
        print("  %s %-60s %s" % (n, ":".join(x[-46:] for x in lbl), o))
    print("actors:", json.dumps(r.get("actors"), default=str)[:1500])
    print("fresh session:", json.dumps(r["final"], default=str)[:1500])
    for sig, text in r["viol"]:
        print("VIOLATED:", sig, "-", text)
    return 1 if r["viol"] else 0

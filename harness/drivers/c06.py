"""C06 - find_jobs returns exactly the jobs a per-job reference evaluator accepts (spec/query/Query.tla).

spec -> code : TLC enumerates (corpus, filter) cases as initial states (calibration grid; sampled corpora of
               0..3 jobs x the whole bounded grammar up to depth 3), checks NotIsComplement / AndIsMeet /
               OrIsJoin / Local on every case and exports the expected id sets (Find) together with the id sets
               the *conformant model* of the code allows where a named deviation (D1, D2, D3) applies.  A constructor
               part of the same module is run with -simulate for depth-4 filters and 4..6 job corpora.
               Every case is materialised as a real project and Project.find_jobs is compared with the export.
               TLC is also asked for the requirement on the conformant model (ReqHolds); its counterexample is
               replayed on the real code.
code -> spec : seeded random corpora (other keys, values, nesting) and random filters up to depth 4 are executed
               on real projects; the recorded (corpus, filter, ids, operand answers, single-job answers) are
               judged by TLC (MODE = "file"): Explain, and the four relations evaluated on the code's answers.
Python only translates (queryutil), executes signac and compares id sets.
"""
import collections
import json
import os
import random
import shutil

from .. import core, tlc
from .. import queryutil as Q

SIG_D1 = "find_jobs:$type-bool:int-and-bool-share-one-index-entry"
SIG_D2 = "find_jobs:$not-over-doc-key:documents-not-loaded"
SIG_D3 = "find_jobs:$type-int-float:minus-one-and-minus-two-share-one-index-entry-with-their-float"
SIGS = (("D1", SIG_D1), ("D2", SIG_D2), ("D3", SIG_D3))
SPEC = "query/Query.tla"
THEOREMS = ["CaseOK", "NotIsComplement", "AndIsMeet", "OrIsJoin", "Local", "NoDeviationIsReference"]


# ---- probes: is a named deviation present in the tree under test? ---------------------------
def probe_flags(ctx):
    """minimal repros of D1 / D2 on the real code -> values of the FixedD1 / FixedD2 constants"""
    sb = Q.Sandbox(ctx.mkdtemp("probe1"), [({"a": 1}, {}), ({"a": True}, {})])
    m = sb.find_mask({"sp.a": {"$type": "bool"}})
    want = 1 << 1
    fixed1 = m == want
    sb = Q.Sandbox(ctx.mkdtemp("probe2"), [({"a": 1}, {"x": 1}), ({"a": 2}, {"x": 2})])
    m = sb.find_mask({"$not": {"doc.x": 1}})
    fixed2 = m == (1 << 1)
    sb = Q.Sandbox(ctx.mkdtemp("probe3"), [({"a": -1}, {}), ({"a": -1.0}, {}), ({"b": -2}, {}), ({"b": -2.0}, {})])
    fixed3 = sb.find_mask({"sp.a": {"$type": "float"}}) == 0b0010 and sb.find_mask({"sp.b": {"$type": "int"}}) == 0b0100
    return fixed1, fixed2, fixed3


def consts(mode, flags, ncorp=1, maxjobs=6, maxdepth=4):
    return {"MODE": '"%s"' % mode, "NCORP": ncorp, "MAXJOBS": maxjobs, "MAXDEPTH": maxdepth,
            "FixedD1": tlc.lit(flags[0]), "FixedD2": tlc.lit(flags[1]), "FixedD3": tlc.lit(flags[2])}


# ---- replay of exported cases ------------------------------------------------------------------
_G = {}


def _job_sig(sp, doc):
    from ..jsonenc import shape
    return shape(sp) + "/" + shape(doc)


def _replay_corpus(item):
    """one corpus line of the export: build the project, run every filter, compare with TLC's expectation"""
    idx, rec = item
    filters, conc = _G["filters"], _G["conc"]
    jobs = Q.corpus_to_py(rec["corpus"])
    root = os.path.join(_G["base"], "%s%d" % (_G["tag"], idx))
    sb = Q.Sandbox(root, jobs, empty_doc_file=(idx + _G["seed"]) % 2 == 0)
    outs = collections.defaultdict(dict)
    for grp in rec["outs"]:
        for fi, m, lab in grp:
            outs[fi][m] = lab
    csig = ",".join(sorted(_job_sig(*j) for j in jobs))
    res = {"n": 0, "ill": 0, "bad": [], "dev": collections.Counter(), "keys": set(), "drift": [], "samples": []}
    fidx = rec["fidx"] or range(1, len(filters) + 1)
    for k, fi in enumerate(fidx):
        want = rec["want"][k]
        if want < 0:
            res["ill"] += 1
            continue
        got = sb.find_mask(conc[fi - 1])
        res["n"] += 1
        if jobs:
            res["keys"].add(_G["shapes"][fi - 1] + "|" + csig)
        if got == want:
            if fi in outs and want not in outs[fi]:
                res["drift"].append("model says the code cannot answer %s on %r correctly (deviation active) but it did" % (conc[fi - 1], jobs))
            continue
        lab = outs.get(fi, {}).get(got)
        if lab:
            res["dev"][lab] += 1
            if not any(x[0] == lab for x in res["samples"]):
                res["samples"].append((lab, jobs, conc[fi - 1], want, got))
        else:
            res["bad"].append((fi, want, got))
    if len(res["bad"]) > 40:  # keep the smallest ones
        res["bad"].sort(key=lambda b: Q.fsize(filters[b[0] - 1]))
        res["nbad"] = len(res["bad"])
        res["bad"] = res["bad"][:40]
    res["jobs"] = jobs if (res["bad"] or res["samples"]) else None
    shutil.rmtree(root, ignore_errors=True)
    return res


def _skeleton(f):
    return tuple(sorted(Q.ops_of(f)))


class Collector:
    """turns mismatches into violations with deterministic signatures (minimal operator skeletons)"""

    def __init__(self, ctx):
        self.ctx = ctx
        self.by_skel = {}
        self.dev = collections.Counter()
        self.dev_sample = {}
        self.cases = 0
        self.rel = {}
        self.relcount = collections.Counter()
        self.scale = {}

    def mismatch(self, jobs, f, want, got, source):
        sk = _skeleton(f)
        size = (Q.fsize(f), len(jobs), json.dumps(Q.concrete(f), sort_keys=True))
        cur = self.by_skel.get(sk)
        if cur is None or size < cur[0]:
            self.by_skel[sk] = (size, jobs, f, want, got, source)

    def relation(self, name, jobs, wf, rec, v, source):
        size = (Q.fsize(wf), len(jobs), json.dumps(Q.concrete(wf), sort_keys=True))
        cur = self.rel.get(name)
        if cur is None or size < cur[0]:
            self.rel[name] = (size, jobs, wf, rec, v, source)
        self.relcount[name] += 1

    def scale_mismatch(self, jobs, wf, f, want, got, diff, small=False):
        """a wrong answer in the scale tier; the replay carries the whole corpus (python AST for re-judging by TLC)"""
        key = ("wrong-ids", _skeleton(wf))
        size = (Q.fsize(wf), len(jobs), json.dumps(Q.concrete(wf), sort_keys=True))
        cur = self.scale.get(key)
        if cur is None or size < cur[0]:
            self.scale[key] = (size, jobs, wf, f, want, got, diff, small)

    def scale_local(self, jobs, wf, f, rec, k):
        key = ("depends-on-number-of-jobs", _skeleton(wf))
        size = (Q.fsize(wf), len(jobs), json.dumps(Q.concrete(wf), sort_keys=True))
        cur = self.scale.get(key)
        if cur is None or size < cur[0]:
            bad = [(s["pos"], s["ids"][k]) for s in rec["small"] if set(rec["ids"][k]) & set(s["pos"]) != set(s["ids"][k])]
            self.scale[key] = (size, jobs, wf, f, None, rec["ids"][k], bad, False)

    def deviation(self, lab, jobs, flt, want, got, source, n=1):
        self.dev[lab] += n
        cur = self.dev_sample.get(lab)
        size = (len(json.dumps(flt)), len(jobs), json.dumps(flt, sort_keys=True))
        if cur is None or size < cur[0]:
            self.dev_sample[lab] = (size, jobs, flt, want, got, source)

    def finish(self):
        ctx = self.ctx
        for lab, (_, jobs, flt, want, got, source) in sorted(self.dev_sample.items()):
            for tag, sig in SIGS:
                if tag in lab.split("+"):
                    ctx.violation(sig, "find_jobs(%s) on %r returns positions %s, the jobs' own data give %s (deviation %s, %d cases)" % (
                        json.dumps(flt), jobs, Q.mask_to_list(got), Q.mask_to_list(want), lab, self.dev[lab]),
                        {"corpus": jobs, "filter": flt, "want": Q.mask_to_list(want), "source": source})
        skels = sorted(self.by_skel, key=lambda s: (len(s), s))
        minimal = [s for s in skels if not any(set(t) < set(s) for t in skels)]
        for sk in minimal[:8]:
            size, jobs, f, want, got, source = self.by_skel[sk]
            flt = Q.concrete(f)
            kind = "raises-" + got[4:] if isinstance(got, str) else "wrong-ids"
            ctx.violation("find_jobs:%s:%s" % (kind, Q.shape_of(f)),
                          "find_jobs(%s) on corpus %r returns %s but exactly the jobs at positions %s satisfy the filter on their own data [%s]" % (
                              json.dumps(flt), jobs, Q.mask_to_list(got), Q.mask_to_list(want), source),
                          {"corpus": jobs, "filter": flt, "want": Q.mask_to_list(want), "source": source})
        for name, (_, jobs, wf, rec, v, source) in sorted(self.rel.items()):
            ctx.violation("find_jobs:%s:%s" % (name, Q.shape_of(wf)),
                          "find_jobs(%s) on %r: the code's own answers violate '%s' (answer %s, operand answers %s, single-job answers %s; %d such records)" % (
                              json.dumps(Q.concrete(wf)), jobs, name, rec["ids"], rec["sub"], rec["single"], self.relcount[name]),
                          {"corpus": jobs, "filter": Q.concrete(wf), "want": v["want"], "source": source, "relation": name, "ast": rec["_py"]["f"]})
        for kind in ("wrong-ids", "depends-on-number-of-jobs"):
            keys = sorted((k for k in self.scale if k[0] == kind), key=lambda k: (len(k[1]), k[1]))
            minimal = [k for k in keys if not any(set(o[1]) < set(k[1]) for o in keys)]
            for key in minimal[:4]:
                _, jobs, wf, f, want, got, diff, small = self.scale[key]
                if kind == "wrong-ids":
                    what = "find_jobs(%s) on a project of %d jobs returns positions %s%s" % (json.dumps(Q.concrete(wf)), len(jobs), got[:30],
                           "" if want is None else " but exactly %s satisfy the filter on their own data; differing jobs: %r" % (want[:30], [(q, jobs[q - 1]) for q in diff[:5]]))
                    if small:
                        what += " (jobs: %r) - not the jobs whose own data satisfy the filter" % (jobs,)
                else:
                    what = "find_jobs(%s): whether a job matches depends on how many other jobs exist - in the project of %d jobs the answer is %s, but small projects holding the jobs at positions %s answer %s (jobs: %r)" % (
                        json.dumps(Q.concrete(wf)), len(jobs), got[:30], [b[0] for b in diff[:2]], [b[1] for b in diff[:2]], [(q, jobs[q - 1]) for b in diff[:1] for q in b[0]])
                ctx.violation("find_jobs:%s@scale:%s" % (kind, Q.shape_of(wf)), what + " [scale tier]",
                              {"corpus": jobs, "filter": Q.concrete(wf), "ast": f, "scale": True, "want": want, "small": [b[0] for b in diff] if kind != "wrong-ids" else []})
        ctx.cov["deviation_cases"] = dict(self.dev)
        ctx.cov["mismatch_skeletons"] = len(self.by_skel)


def replay_export(ctx, col, tag, out, filters_file, procs):
    filters = [json.loads(l) for l in open(filters_file)]
    lines = [json.loads(l) for l in open(out)]
    _G.update(filters=filters, conc=[Q.concrete(f) for f in filters], shapes=[Q.shape_of(f) for f in filters],
              base=ctx.mkdtemp("rp-" + tag), tag=tag, seed=ctx.seed)
    results = core.pmap(_replay_corpus, list(enumerate(lines)), procs=procs, chunks=1)
    n = 0
    for rec, res in zip(lines, results):
        n += res["n"]
        for k in res["keys"]:
            ctx.count(k, n=0)
        for fi, want, got in res["bad"]:
            col.mismatch(res["jobs"], filters[fi - 1], want, got, tag)
        for lab, jobs, flt, want, got in res["samples"]:
            col.deviation(lab, jobs, flt, want, got, tag, n=0)
        for lab, c in res["dev"].items():
            col.dev[lab] += c
        for d in res["drift"][:2]:
            ctx.spec_drift(d)
    ctx.count(n=n, traces=n)
    shutil.rmtree(_G["base"], ignore_errors=True)
    return n, filters, lines


def _replay_built(item):
    idx, rec = item
    jobs = Q.corpus_to_py(rec["corpus"])
    root = os.path.join(_G["base"], "b%d" % idx)
    sb = Q.Sandbox(root, jobs, empty_doc_file=idx % 2 == 0)
    got = sb.find_mask(Q.concrete(rec["filter"]))
    shutil.rmtree(root, ignore_errors=True)
    return got


# ---- code -> spec: random executions judged by TLC ------------------------------------------------
def record_one(sb, singles, jobs, f):
    """one real execution: the answer, the answers for the direct operands, the single-job answers"""
    flt = Q.py_concrete(f)
    got = sb.find_mask(flt)
    err = got[4:] if isinstance(got, str) else ""
    sub = []
    for k in f["kids"]:
        g = sb.find_mask(Q.py_concrete(k))
        if isinstance(g, str):
            sub = []
            break
        sub.append(Q.mask_to_list(g))
    single = []
    for s1 in singles:
        g = s1.find_mask(flt)
        if isinstance(g, str):
            single = []
            break
        single.append(g == 1)
    return {"corpus": Q.corpus_to_wire(jobs), "filter": Q.filter_to_wire(f), "ids": [] if err else Q.mask_to_list(got), "err": err,
            "sub": sub if len(sub) == len(f["kids"]) else [], "single": single if len(single) == len(jobs) else [],
            "re": [[Q.cps(r), Q.cps(s2)] for r, s2 in sorted(Q.regex_pairs(f, jobs, set()))],
            "_py": {"jobs": jobs, "f": f}}


def _record_corpus(item):
    """execute random filters on one random corpus; returns wire records (no verdicts - TLC judges)"""
    idx, seed, nfilters = item
    rnd = random.Random(seed)
    jobs = Q.rand_corpus(rnd)
    base = os.path.join(_G["base"], "f%d" % idx)
    sb = Q.Sandbox(os.path.join(base, "all"), jobs, empty_doc_file=rnd.random() < 0.5)
    singles = [Q.Sandbox(os.path.join(base, "s%d" % k), [j]) for k, j in enumerate(jobs)]
    recs = []
    for _ in range(nfilters):
        f = Q.rand_filter(rnd, jobs, rnd.choice([1, 2, 2, 3, 3, 4]))
        recs.append(record_one(sb, singles, jobs, f))
    shutil.rmtree(base, ignore_errors=True)
    return recs


def judge(ctx, recs, flags, name, chunk=2500):
    """TLC (MODE = "file") decides every recorded execution (in batches: TLC values are ~100x the JSON text in memory)"""
    verdicts = []
    for c0 in range(0, len(recs), chunk):
        part = recs[c0:c0 + chunk]
        fin = os.path.join(ctx.work, "%s_%d_in.ndjson" % (name, c0))
        fout = os.path.join(ctx.work, "%s_%d_out.ndjson" % (name, c0))
        with open(fin, "w") as fh:
            for r in part:
                fh.write(json.dumps({k: v for k, v in r.items() if k != "_py"}) + "\n")
        cfgt = tlc.cfg(consts("file", flags), init="InitCases", next="NextCases", invariants=THEOREMS, postcondition="Judge")
        r = tlc.run(SPEC, cfg_text=cfgt, workdir=ctx.work, workers=_G.get("workers", 16), env={"QUERY_IN": fin, "QUERY_OUT": fout}, coverage=False, allow_violation=False)
        ctx.add_tlc("Query file mode (%s): %d recorded executions judged" % (name, len(part)), r)
        out = [json.loads(l) for l in open(fout)]
        if len(out) != len(part):
            raise core.MachineryError("TLC judged %d of %d records" % (len(out), len(part)))
        os.remove(fin)
        verdicts += out
    return verdicts


def apply_verdicts(ctx, col, recs, verdicts, source):
    stats = collections.Counter()
    for rec, v in zip(recs, verdicts):
        jobs, f = rec["_py"]["jobs"], rec["_py"]["f"]
        wf = rec["filter"]
        if not v["welltyped"]:
            stats["ill-typed"] += 1
            continue
        stats["judged"] += 1
        want = sum(1 << (i - 1) for i in v["want"])
        if jobs:
            ctx.count(Q.shape_of(wf) + "|" + ",".join(sorted(_job_sig(*j) for j in jobs)), n=0)
        if rec["err"]:
            col.mismatch(jobs, wf, want, "ERR:" + rec["err"], source)
            continue
        got = sum(1 << (i - 1) for i in rec["ids"])
        lab = v["explain"]
        if lab == "unexplained":
            col.mismatch(jobs, wf, want, got, source)
        elif lab != "ok":
            col.deviation(lab, jobs, Q.concrete(wf), want, got, source)
        # the relations, evaluated by TLC on the code's own answers
        involved = [lab] + list(v["subx"]) + list(v["singlex"])
        for rel, name in (("notc", "not-is-not-complement"), ("meet", "and-is-not-intersection"), ("join", "or-is-not-union"), ("local", "depends-on-other-jobs")):
            if v[rel]:
                stats[rel] += 1
                continue
            stats[rel + "-false"] += 1
            devs = [x for x in involved if x not in ("ok", "n/a")]
            if not devs:
                raise core.MachineryError("relation %s fails on answers that all equal Find - contradicts a checked theorem: %r" % (rel, rec["_py"]))
            if all(x != "unexplained" for x in devs):
                for x in devs:
                    col.deviation(x, jobs, Q.concrete(wf), want, got, source + ":" + name)
            else:
                col.relation(name, jobs, wf, rec, v, source)
    return stats


# ---- scale tier: large corpora (an implementation may switch strategy with the size of its index) ----------------
def _scale_worker(item):
    idx, seed, n, nfilters, nsmall = item
    rnd = random.Random(seed)
    jobs = Q.scale_corpus(rnd, n)
    filters = Q.scale_filters(rnd, jobs, nfilters)
    base = os.path.join(_G["base"], "big%d" % idx)
    sb = Q.Sandbox(os.path.join(base, "all"), jobs)
    flts = [Q.py_concrete(f) for f in filters]

    def answers(box, positions):
        ids, errs = [], []
        for flt in flts:
            m = box.find_mask(flt)
            if isinstance(m, str):
                ids.append([]); errs.append(m[4:])
            else:
                ids.append([positions[q - 1] for q in Q.mask_to_list(m)]); errs.append("")
        return ids, errs

    ids, errs = answers(sb, list(range(1, n + 1)))
    small = []
    order = list(range(1, n + 1))
    rnd.shuffle(order)
    for s in range(nsmall):          # the same jobs in small projects (4..6 jobs each)
        pos = sorted(order[s * 6: s * 6 + rnd.choice([4, 5, 6])])
        if not pos:
            break
        box = Q.Sandbox(os.path.join(base, "small%d" % s), [jobs[q - 1] for q in pos])
        sids, serrs = answers(box, pos)
        small.append({"pos": pos, "ids": sids, "errs": serrs})
    re_pairs = set()
    for f in filters:
        Q.regex_pairs(f, jobs, re_pairs)
    shutil.rmtree(base, ignore_errors=True)
    return {"corpus": Q.corpus_to_wire(jobs), "filters": [Q.filter_to_wire(f) for f in filters], "ids": ids, "errs": errs, "small": small,
            "re": [[Q.cps(r), Q.cps(x)] for r, x in sorted(re_pairs)], "_py": {"jobs": jobs, "filters": filters}}


def scale_tier(ctx, col, flags, procs):
    """code -> spec at scale: TLC computes Find per filter on the large corpus, explains every recorded answer (large and
    small projects) and evaluates Local across corpus sizes on the code's own answers"""
    rnd = random.Random(ctx.seed + 17)
    plan = [(0, 80, 60, 8), (1, 150, 60, 8)] if ctx.quick else [(i, rnd.randrange(70, 201), 100, 16) for i in range(8)]
    _G.update(base=ctx.mkdtemp("scale"))
    recs = core.pmap(_scale_worker, [(i, rnd.randrange(2**40), n, nf, ns) for i, n, nf, ns in plan], procs=procs, chunks=1)
    fin, fout = os.path.join(ctx.work, "scale_in.ndjson"), os.path.join(ctx.work, "scale_out.ndjson")
    with open(fin, "w") as fh:
        for r in recs:
            fh.write(json.dumps({k: v for k, v in r.items() if k != "_py"}) + "\n")
    # (CaseOK's pairwise state point comparison is done once per corpus inside ScaleJudge, not once per case)
    cfgt = tlc.cfg(consts("scale", flags), init="InitScale", next="NextCases", invariants=THEOREMS[1:], postcondition="ScaleJudge")
    r = tlc.run(SPEC, cfg_text=cfgt, workdir=ctx.work, workers=_G.get("workers", 16), env={"QUERY_IN": fin, "QUERY_OUT": fout}, coverage=False, allow_violation=False, heap="8g")
    ctx.add_tlc("Query scale: %d corpora of %s jobs; every (large corpus, filter) an initial state; Find, Explain, Local across sizes" % (len(recs), [len(x["_py"]["jobs"]) for x in recs]), r)
    out = [json.loads(l) for l in open(fout)]
    if len(out) != len(recs):
        raise core.MachineryError("TLC judged %d of %d scale records" % (len(out), len(recs)))
    stats = collections.Counter()
    for rec, res in zip(recs, out):
        jobs = rec["_py"]["jobs"]
        distinct = {json.dumps(sp.get("a"), sort_keys=True) + type(sp.get("a")).__name__ for sp, _ in jobs}
        stats["jobs"] += len(jobs)
        stats["min_distinct_values_under_sp.a"] = min(stats.get("min_distinct_values_under_sp.a", 10**6), len(distinct))
        for k, v in enumerate(res["verdicts"]):
            wf, f = rec["filters"][k], rec["_py"]["filters"][k]
            if not v["welltyped"]:
                stats["ill-typed"] += 1
                continue
            stats["cases"] += 1
            ctx.count(Q.shape_of(wf) + "|scale", n=0)
            if rec["errs"][k]:
                col.scale_mismatch(jobs, wf, f, v["want"], ["ERR:" + rec["errs"][k]], [])
                continue
            lab = v["explain"]
            if lab == "unexplained":
                diff = sorted(set(v["want"]) ^ set(rec["ids"][k]))
                col.scale_mismatch(jobs, wf, f, v["want"], rec["ids"][k], diff)
            elif lab != "ok":
                col.deviation(lab, [jobs[q - 1] for q in sorted(set(v["want"]) ^ set(rec["ids"][k]))[:4]], Q.concrete(wf), 0, 0, "scale")
            for s, slab in enumerate(v["small"]):
                if slab == "unexplained":
                    pos = rec["small"][s]["pos"]
                    sub = [jobs[q - 1] for q in pos]
                    col.scale_mismatch(sub, wf, f, None, [pos.index(q) + 1 for q in rec["small"][s]["ids"][k]], [], small=True)
                stats["small-answers"] += 1
            if v["local"]:
                stats["local"] += 1
            else:
                stats["local-false"] += 1
                involved = [lab] + list(v["small"])
                if all(x in ("ok", "n/a") for x in involved):
                    raise core.MachineryError("Local across sizes fails on answers that all equal Find: %r" % (Q.concrete(wf),))
                if any(x == "unexplained" for x in involved):
                    col.scale_local(jobs, wf, f, rec, k)
    ctx.count(n=stats["cases"] + stats["small-answers"], traces=stats["cases"] + stats["small-answers"])
    ctx.cov["cases"]["scale"] = dict(stats)
    if stats["cases"] < 60 or stats["min_distinct_values_under_sp.a"] <= 64:
        raise core.MachineryError("vacuous scale tier: %r" % dict(stats))
    rec, res = recs[0], out[0]
    k = next(k for k, v in enumerate(res["verdicts"]) if v["welltyped"] and rec["filters"][k]["op"] == "$in" and 0 < len(v["want"]) < 12)
    ctx.sample({"source": "scale tier", "jobs": len(rec["_py"]["jobs"]), "filter": Q.py_concrete(rec["_py"]["filters"][k]), "expected_positions_from_TLC": res["verdicts"][k]["want"],
                "real_positions": rec["ids"][k], "tlc_verdict": {x: res["verdicts"][k][x] for x in ("explain", "small", "local")}})


# ---- TLC: the requirement on the conformant model ---------------------------------------------------
def requirement_counterexample(ctx, col, flags, which):
    """with only deviation `which` active TLC must report ReqHolds violated; its counterexample is replayed"""
    fl = (flags[0] or which != "D1", flags[1] or which != "D2", flags[2] or which != "D3")
    cfgt = tlc.cfg(consts("grid", fl), init="InitCases", next="NextCases", invariants=["ReqHolds"])
    r = tlc.run(SPEC, cfg_text=cfgt, workdir=ctx.work, workers=_G.get("workers", 16), coverage=False, allow_violation=True)
    ctx.add_tlc("Query grid: requirement ReqHolds on the conformant model with %s active" % which, r)
    if not r.violation:
        raise core.MachineryError("deviation %s is active in the model but TLC found ReqHolds to hold" % which)
    st = Q.violating_state(r)
    jobs = Q.corpus_to_py(st["corpus"])
    f = st["stack"][-1]
    sb = Q.Sandbox(ctx.mkdtemp("cex"), jobs)
    got = sb.find_mask(Q.concrete(f))
    ctx.count(("cex", which), traces=1)
    return jobs, f, got


def run(ctx):
    quick = ctx.quick
    procs = workers = int(os.environ.get("VERIF_PROCS", "16"))
    _G["workers"] = workers
    ctx.assumptions += [
        "the re engine (the (regex, string) match table enters the specification as a constant)",
        "IEEE double arithmetic of math.isclose is exact on the small dyadic rationals used; float <-> p/q translation is exact",
        "TLC, the TLA+ Json / IOUtils community modules; os.listdir order is not controlled (D1 is modelled as nondeterministic in it)",
    ]
    ctx.cov["rule"] = ("case = (corpus, filter); grid: every 1-job corpus and every ordered 2-job corpus varying one slot (sp.a, sp.n.x, doc.x over "
                       "absent/0/1/1.0/2.5/-1/-1.0/True/False/None/'1'/'ab'/[1,2]/[1.0,2]/{x:1}) x all atoms and their negations; universe: seeded RandomSubset corpora of 0..3 "
                       "jobs x every filter of the bounded grammar (atoms, Not, all ordered And/Or pairs of a 40-atom core, depth 3 over 12- and 6-atom cores); "
                       "build: -simulate of the constructor actions (depth <= 4, 4..6 jobs); file: seeded random corpora/filters executed and judged by TLC. "
                       "distinct = (operator/argument-type structure of the filter, type signature of the corpus); ill-typed pairs (Python cannot order) are excluded by WellTyped")
    flags = probe_flags(ctx)
    ctx.cov["deviation_flags"] = {"FixedD1": flags[0], "FixedD2": flags[1], "FixedD3": flags[2]}
    col = Collector(ctx)

    # ---- 1. TLC reports the requirement violated on the conformant model; replay the counterexample --------
    for which, fixed, sig in (("D1", flags[0], SIG_D1), ("D2", flags[1], SIG_D2), ("D3", flags[2], SIG_D3)):
        if fixed:
            continue
        jobs, f, got = requirement_counterexample(ctx, col, flags, which)
        ctx.sample({"tlc_counterexample_for": "ReqHolds", "deviation": which, "corpus": jobs, "filter": Q.concrete(f), "real_positions": Q.mask_to_list(got)})

    def tlc_cases(mode, ncorp, tag):
        out = os.path.join(ctx.work, tag + "_out.ndjson")
        ff = os.path.join(ctx.work, tag + "_filters.ndjson")
        cfgt = tlc.cfg(consts(mode, flags, ncorp=ncorp), init="InitCases", next="NextCases", invariants=THEOREMS, postcondition="Export")
        r = tlc.run(SPEC, cfg_text=cfgt, workdir=ctx.work, workers=workers, seed=ctx.seed % 10**6, coverage=False,
                    env={"QUERY_OUT": out, "QUERY_FILTERS": ff}, allow_violation=False, heap="8g")
        ctx.add_tlc("Query %s: every initial state one (corpus, filter) case; theorems checked, Find exported" % mode, r)
        n, filters, lines = replay_export(ctx, col, tag, out, ff, procs)
        if n != r.distinct:
            raise core.MachineryError("%s: TLC has %d cases (initial states), the export has %d" % (mode, r.distinct, n))
        return n, filters, lines

    # ---- 2. calibration grid, 3. universe ---------------------------------------------------------------
    ngrid, gfilters, glines = tlc_cases("grid", 1, "grid")
    nuni, ufilters, ulines = tlc_cases("universe", 14 if quick else 200, "uni")
    ctx.cov["cases"] = {"grid": ngrid, "universe": nuni, "universe_filters": len(ufilters), "universe_corpora": len(ulines)}
    for ln in (ulines[len(ulines) // 2], ulines[-1]):
        k = len(ufilters) // 3
        if ln["want"][k] >= 0:
            ctx.sample({"corpus": Q.corpus_to_py(ln["corpus"]), "filter": Q.concrete(ufilters[k]), "expected_positions_from_TLC": Q.mask_to_list(ln["want"][k])})

    # ---- 4. constructor / simulate ------------------------------------------------------------------------
    bout = os.path.join(ctx.work, "build.ndjson")
    cfgt = tlc.cfg(consts("build", flags, ncorp=30), init="InitBuild", next="NextBuild", invariants=THEOREMS[:-1] + ["EmitCase"])
    r = tlc.run(SPEC, cfg_text=cfgt, workdir=ctx.work, workers=1, seed=ctx.seed % 10**6, simulate="num=%d" % (1500 if quick else 20000),
                depth=20, env={"QUERY_OUT": bout}, coverage=False, allow_violation=False)
    ctx.add_tlc("Query build: -simulate of AddJob/AddTwin/PushAtom/Negate/Combine*/WrapOne, cases emitted by TLC", r)
    built = [json.loads(l) for l in open(bout)]
    tags = collections.Counter(b["filter"]["tag"] for b in built)
    if len(built) < 100 or any(tags[t] == 0 for t in ("not", "and", "or")) or not any(len(b["corpus"]) >= 5 and Q.shape_of(b["filter"]).count("[") >= 3 for b in built):
        raise core.MachineryError("vacuous constructor run: %d cases, top-level tags %r" % (len(built), dict(tags)))   # vacuity guard
    ctx.cov["spec_actions"].update({"build:top-level-" + t: n for t, n in tags.items()})
    _G.update(base=ctx.mkdtemp("rp-build"))
    gots = core.pmap(_replay_built, list(enumerate(built)), procs=procs)
    depths = collections.Counter()
    for rec, got in zip(built, gots):
        jobs = Q.corpus_to_py(rec["corpus"])
        f = rec["filter"]
        depths[(len(jobs), Q.shape_of(f).count("["))] += 1
        ctx.count(Q.shape_of(f) + "|" + ",".join(sorted(_job_sig(*j) for j in jobs)), n=0)
        if got == rec["want"]:
            if rec["outs"] and rec["want"] not in [o[0] for o in rec["outs"]]:
                ctx.spec_drift("model says the code cannot answer %s correctly (deviation active) but it did" % Q.concrete(f))
            continue
        lab = {o[0]: o[1] for o in rec["outs"]}.get(got)
        if lab:
            col.deviation(lab, jobs, Q.concrete(f), rec["want"], got, "build")
        else:
            col.mismatch(jobs, f, rec["want"], got, "build")
    ctx.count(n=len(built), traces=len(built))
    ctx.cov["cases"]["build"] = len(built)
    ctx.cov["cases"]["build_by_jobs"] = {str(k): sum(v for (j, _), v in depths.items() if j == k) for k in range(7)}
    big = max(built, key=lambda b: (len(b["corpus"]) >= 4, Q.fsize(b["filter"])))
    ctx.sample({"source": "constructor", "corpus": Q.corpus_to_py(big["corpus"]), "filter": Q.concrete(big["filter"]), "expected_positions_from_TLC": Q.mask_to_list(big["want"])})

    # ---- 5. code -> spec -------------------------------------------------------------------------------------
    _G.update(base=ctx.mkdtemp("rec"))
    rnd = random.Random(ctx.seed)
    ncorp, nfil = (150, 12) if quick else (1000, 20)
    items = [(i, rnd.randrange(2**40), nfil) for i in range(ncorp)]
    recs = [r for rs in core.pmap(_record_corpus, items, procs=procs) for r in rs]
    verdicts = judge(ctx, recs, flags, "recorded")
    stats = apply_verdicts(ctx, col, recs, verdicts, "recorded")
    ctx.count(n=stats["judged"], traces=stats["judged"])
    ctx.cov["cases"]["recorded"] = dict(stats)
    if stats["judged"] < len(recs) // 2:
        raise core.MachineryError("most recorded executions were ill-typed: %r" % dict(stats))
    ok = next((r, v) for r, v in zip(recs, verdicts) if v["welltyped"] and v["explain"] == "ok" and len(r["_py"]["jobs"]) >= 3 and r["_py"]["f"]["tag"] != "atom")
    ctx.sample({"source": "recorded real execution", "corpus": ok[0]["_py"]["jobs"], "filter": Q.py_concrete(ok[0]["_py"]["f"]), "real_positions": ok[0]["ids"], "tlc_verdict": {k: ok[1][k] for k in ("explain", "notc", "meet", "join", "local")}})

    # ---- 5b. scale tier -----------------------------------------------------------------------------------------------
    scale_tier(ctx, col, flags, procs)

    # ---- 5c. the command line front end (spec/query/QueryCli.tla) -------------------------------------------------------
    from .. import querycli
    querycli.phase(ctx, flags, "c06", procs)

    # ---- 6. binding self-test --------------------------------------------------------------------------------
    # (a) a corrupted expectation is noticed by the comparison; (b) a corrupted recorded answer is rejected by TLC
    ln = json.loads(json.dumps(next(l for l in glines if len(l["corpus"]) == 2)))
    k0 = next(k for k, w in enumerate(ln["want"]) if w >= 0)
    ln["want"][k0] ^= 1
    ln["outs"] = []
    _G.update(filters=gfilters, conc=[Q.concrete(f) for f in gfilters], shapes=[Q.shape_of(f) for f in gfilters], base=ctx.mkdtemp("self"), tag="self", seed=ctx.seed)
    res = _replay_corpus((0, ln))
    plain = [(r, v) for r, v in zip(recs, verdicts) if v["welltyped"] and v["explain"] == "ok" and r["_py"]["jobs"]
             and "bool" not in json.dumps(Q.py_concrete(r["_py"]["f"])) and "doc" not in json.dumps(Q.py_concrete(r["_py"]["f"]))][:20]
    corrupted = []
    for r, v in plain:
        c = dict(r)
        c["ids"] = sorted(set(r["ids"]) ^ {1})
        c["sub"], c["single"] = [], []
        corrupted.append(c)
    cv = judge(ctx, corrupted, flags, "selftest")
    ctx.cov["binding_selftest"] = dict(ctx.cov.get("binding_selftest") or {}, **{"corrupted_expected_mask_detected": any(b[0] == (ln["fidx"] or list(range(1, len(gfilters) + 1)))[k0] for b in res["bad"]),
                                   "corrupted_recorded_ids_rejected_by_TLC": "%d/%d" % (sum(1 for v in cv if v["explain"] == "unexplained"), len(cv))})
    col.finish()
    if not ctx.cov["binding_selftest"]["corrupted_expected_mask_detected"] or any(v["explain"] != "unexplained" for v in cv):
        if not ctx.violations:      # on a tree that already violates the property the self-test's own premises may not hold
            raise core.MachineryError("binding self-test failed: %r" % ctx.cov["binding_selftest"])
    ctx.cov["exhaustive"] = False


def replay(ctx, data):
    if data.get("check") == "cli":
        from .. import querycli
        return querycli.replay(ctx, data)
    jobs = [tuple(j) for j in data["corpus"]]
    sb = Q.Sandbox(ctx.mkdtemp("replay"), jobs)
    if data.get("scale"):
        # re-run on the large project and on the recorded small ones; TLC (MODE = "scale") judges
        f = data["ast"]
        flt = Q.py_concrete(f)
        n = len(jobs)

        def ans(box, positions):
            m = box.find_mask(flt)
            return ([], m[4:]) if isinstance(m, str) else ([positions[q - 1] for q in Q.mask_to_list(m)], "")
        ids, err = ans(sb, list(range(1, n + 1)))
        small = []
        for pos in (data.get("small") or [list(range(1, min(n, 5) + 1))]):
            box = Q.Sandbox(ctx.mkdtemp("small"), [jobs[q - 1] for q in pos])
            sids, serr = ans(box, pos)
            small.append({"pos": pos, "ids": [sids], "errs": [serr]})
        rec = {"corpus": Q.corpus_to_wire(jobs), "filters": [Q.filter_to_wire(f)], "ids": [ids], "errs": [err], "small": small,
               "re": [[Q.cps(r), Q.cps(x)] for r, x in sorted(Q.regex_pairs(f, jobs, set()))]}
        fin, fout = os.path.join(ctx.work, "r_in.ndjson"), os.path.join(ctx.work, "r_out.ndjson")
        with open(fin, "w") as fh:
            fh.write(json.dumps(rec) + "\n")
        cfgt = tlc.cfg(consts("scale", probe_flags(ctx)), init="InitScale", next="NextCases", invariants=THEOREMS, postcondition="ScaleJudge")
        tlc.run(SPEC, cfg_text=cfgt, workdir=ctx.work, env={"QUERY_IN": fin, "QUERY_OUT": fout}, coverage=False, allow_violation=False)
        v = json.loads(open(fout).readline())["verdicts"][0]
        print("find_jobs(%s) on %d jobs -> positions %s ; TLC: Find = %s, explain = %s" % (json.dumps(flt), n, ids, v["want"], v["explain"]))
        for sm, lab in zip(small, v["small"]):
            print("   small project of the jobs at %s -> %s (%s)" % (sm["pos"], sm["ids"][0], lab))
        print("   Local across corpus sizes:", v["local"])
        return 0 if v["explain"] != "unexplained" and v["local"] and "unexplained" not in v["small"] and not err else 1
    if data.get("relation"):
        # re-record the execution and let TLC evaluate the relations on the code's own answers
        singles = [Q.Sandbox(ctx.mkdtemp("single"), [j]) for j in jobs]
        rec = record_one(sb, singles, jobs, data["ast"])
        v = judge(ctx, [rec], probe_flags(ctx), "replay")[0]
        print("find_jobs(%s): answer %s, operand answers %s, single-job answers %s" % (json.dumps(data["filter"]), rec["ids"], rec["sub"], rec["single"]))
        print("TLC verdict:", {k: v[k] for k in ("explain", "subx", "singlex", "notc", "meet", "join", "local")})
        return 0 if all(v[k] for k in ("notc", "meet", "join", "local")) and v["explain"] != "unexplained" else 1
    got = sb.find_mask(data["filter"])
    got = Q.mask_to_list(got)
    print("corpus (position: state point / document):")
    for i, (sp, doc) in enumerate(jobs, 1):
        print("  %d: %r / %r" % (i, sp, doc))
    print("find_jobs(%s) -> positions %s ; the jobs' own data satisfy the filter at positions %s" % (json.dumps(data["filter"]), got, data["want"]))
    return 0 if got == data["want"] else 1

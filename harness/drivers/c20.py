"""C20 - incompatible schema versions are refused, and migration preserves every job.

spec -> code : TLC model-checks spec/discovery/Migration.tla (gate + the migration chain as sub-step actions under
               the lock; Refuse, MigratePreserves, CollisionLeavesJobs, UpToDateNoop, JobsNeverLost in every
               intermediate state, ...) over the exhaustive product of the layout options and exports, for every
               (layout, operation), the expected outcome and the expected layout afterwards.  The harness writes
               each layout by hand as signac v0/v1/v2 did, snapshots, runs the real function, and compares the
               outcome, the byte snapshot (where the spec says UNCHANGED) and the raw projection of the directory.
code -> spec : seeded random legacy projects (random ASCII names written through configobj as v1 did, random
               workspace directory names, job counts) are migrated by the real code; the observed (pre, op,
               outcome, post) is sent to TLC (MODE = "file") which computes what the chain must give.
"""
import json
import os
import random
import string

from .. import core, tlc
from .. import migrationutil as mu

INVARIANTS = ["CliRefuse", "CliNotConfirmedNoChange", "CliMigratePreserves", "CliCollisionRefused", "CliConfigNeverHides",
              "D1Frame", "ReqAgrees", "TypeOK", "JobsNeverLost", "Refuse", "MigratePreserves", "CollisionLeavesJobs", "MigrateRefuses",
              "UpToDateNoop", "SecondNoop", "OpensAfterwards", "LockHeld", "ChainIsFunction", "CollisionRecoverable"]
PROPS = ["RefuseFrame", "VersionMonotone"]
ACTIONS = ["OpenOp", "Lock", "Collect", "Null01", "Bump1", "MoveWs", "NameToDoc", "RewriteCfg", "MoveCfg", "MoveFiles", "Bump2",
           "Unlock", "Again", "ResolveCollision", "OpenAfter"]
PRESERVE_FIELDS = ("where", "ver", "dirs", "njobs", "pdocUser", "pdocName", "cache", "hist")
_G = {}


def _h(*xs):
    import hashlib
    return int(hashlib.md5(repr(xs).encode()).hexdigest()[:8], 16)


def _ws_class(l):
    return "custom-workspace" if mu.LOC_OF.get(l["wsKey"], "x") != "workspace" else "default-workspace"


def _ver_class(l):
    v = l["ver"]
    return "%s:%s" % (l["where"], "older" if v == "absent" or int(v) < 2 else "supported" if v == "2" else "newer")


def _short(layout, f):
    v = layout.get(f)
    if f == "dirs":
        return "workspace-" + str(v.get("workspace"))[:20]
    return json.dumps(v, sort_keys=True)[:40]


def _diff(got, exp):
    return sorted(k for k in exp if got.get(k) != exp[k])


def _changed_kinds(a, b):
    ks = set()
    for k in set(a) | set(b):
        if a.get(k, 0) != b.get(k, 0):
            n = k.rstrip("/")
            ks.add("config" if n.endswith("config") or n.endswith("signac.rc") else "project-document" if n.endswith("project_document.json")
                   else "lock" if n.endswith(mu.LOCK) else "cache" if "cache" in n else "history" if "history" in n else "jobs-or-workspace")
    return "+".join(sorted(ks))


def _check_case(case, root, out, real=None, mutate_expected=None):
    """write the layout, run the operation(s), compare. Appends findings; returns number of evaluations."""
    l0, op = case["l0"], case["op"]
    if mutate_expected:
        case = mutate_expected(case)
    real = real or mu.default_real(l0)
    jobs = mu.write_layout(l0, root, real)
    seen, extra = mu.project_disk(root, jobs, l0, real)
    if seen != l0 or extra:
        raise core.MachineryError("layout written differs from the layout intended: %r %r" % (_diff(seen, l0), extra))
    sub = mu.sub_dir(root, l0, jobs, real)
    before = core.snapshot(root)
    meta0 = mu.file_meta(root)
    n = 1

    def report(kind, sig, what, **kw):
        out.append({"kind": kind, "sig": sig, "what": what, "case": {k: case[k] for k in ("l0", "op")}, "real": real, **kw})

    res, detail = mu.run_op(op, root, sub)
    after = core.snapshot(root)
    touched = mu.rewritten(meta0, mu.file_meta(root))
    if op != "migrate":
        # ---- the gate ---------------------------------------------------------------------------
        if res != case["res"]:
            if case["res"] == "IncompatibleSchemaVersion":
                report("violation", "gate:%s:%s:%s" % (op, _ver_class(l0), "opened" if res == "ok" else "raises-" + res),
                       "%s on a project declaring schema version %s in %s gives %s (%s); the specification requires IncompatibleSchemaVersion"
                       % (op, l0["ver"], l0["where"], res, detail))
            else:
                report("violation", "gate:%s:supported-version-refused:%s" % (op, res),
                       "%s on an up-to-date project gives %s (%s)" % (op, res, detail))
        if case["post"] != l0:
            # a successful open with a specified effect (CAL_OpenCreatesWorkspace): exactly that effect, nothing else
            seen, extra = mu.project_disk(root, jobs, l0, real)
            added = sorted(k for k in after if k not in before)
            if seen != case["post"] or extra or added != [real["workspace"] + "/"] or any(before[k] != after.get(k, 0) for k in before):
                report("drift", "gate:%s:open-effect" % op, "%s on an up-to-date project without workspace: layout %r, added %r; specification %r" % (op, seen, added, case["post"]))
        elif after != before:
            report("violation", "gate:%s:%s:modified-%s" % (op, _ver_class(l0), _changed_kinds(before, after)),
                   "%s on a project declaring schema version %s in %s changed the directory: %s"
                   % (op, l0["ver"], l0["where"], sorted(k for k in set(before) | set(after) if before.get(k, 0) != after.get(k, 0))[:6]))
        elif touched and case["res"] != "ok":
            report("violation", "gate:%s:%s:rewrites-%s" % (op, _ver_class(l0), _changed_kinds({}, dict.fromkeys(touched, 1))),
                   "%s on a project declaring schema version %s in %s rewrote (with identical bytes) %s" % (op, l0["ver"], l0["where"], touched[:6]))
        return n
    # ---- apply_migrations ---------------------------------------------------------------------------
    legacy_ok = l0["where"] == "rc" and l0["ver"] in ("absent", "0", "1") and case["res"] == "ok"
    uptodate = l0["where"] == "cfg" and l0["ver"] == "2"
    colliding = l0["where"] == "rc" and l0["ver"] in ("absent", "0", "1") and case["res"] != "ok"
    seen, extra = mu.project_disk(root, jobs, l0, real)
    exp = case["post"]
    shape = "%s:%s" % (_ver_class(l0), _ws_class(l0))
    if res != case["res"]:
        kind = "violation" if (legacy_ok or uptodate) else "drift"
        report(kind, "migrate:%s:outcome-%s" % (shape, res), "apply_migrations gives %s (%s), the specification requires %s; layout %r" % (res, detail, case["res"], l0))
    if case["reqres"] != case["res"] and res == case["res"]:
        # DEVIATION D1 is active for this layout and the real code behaves as the deviation says: the requirement fails
        report("violation", "migrate:default-workspace-respelled:refused",
               "a legacy project whose workspace_dir is %r (the default location) cannot be migrated: apply_migrations gives %s (%s); "
               "the property requires %s" % (mu.key_text(real, l0["wsKey"]), res, detail, case["reqres"]))
    if exp == l0:
        if after != before:
            kind = "violation" if (uptodate or seen["dirs"] != l0["dirs"] or seen["njobs"] != l0["njobs"]) else "drift"
            report(kind, "migrate:%s:%s:modified-%s" % (shape, "up-to-date" if uptodate else "refused", _changed_kinds(before, after)),
                   "apply_migrations must leave this project untouched (%s) but changed %s"
                   % ("already up to date" if uptodate else "outcome " + case["res"], sorted(k for k in set(before) | set(after) if before.get(k, 0) != after.get(k, 0))[:6]))
        elif touched and uptodate:
            report("violation", "migrate:%s:up-to-date:rewrites-%s" % (shape, _changed_kinds({}, dict.fromkeys(touched, 1))),
                   "apply_migrations on an up-to-date project is not a no-op: it rewrote (with identical bytes) %s" % touched[:6])
    elif seen != exp or extra:
        bad = _diff(seen, exp)
        if colliding:
            # the refused migration must leave the WHOLE layout as it was (CollisionLeavesJobs), bar the null step's version bump
            stated = [f for f in bad if f != "lock"]
            if stated:
                report("violation", "migrate:collision:left-half-migrated",
                       "apply_migrations refused (colliding 'workspace') but did not leave the project as it was: %s; layout %r"
                       % ({f: (seen[f], "expected", exp[f]) for f in stated}, l0))
                stated = ["*"]
        else:
            stated = [f for f in bad if f in PRESERVE_FIELDS] if legacy_ok else [f for f in bad if f in ("dirs", "njobs", "pdocUser")]
            for f in stated:
                report("violation", "migrate:%s=%s%s" % (f, _short(seen, f), ":" + _ws_class(l0) if f in ("dirs", "njobs") else ""),
                       "after apply_migrations %s is %r, the specification requires %r; layout %r" % (f, seen[f], exp[f], l0))
        if not stated:
            report("drift", "migrate:%s:%s" % (shape, ",".join(bad) or "extra"), "after apply_migrations: differing fields %r (got %r), unexpected %r; layout %r"
                   % (bad, {f: seen[f] for f in bad}, extra, l0))
    # ---- a second migration is a no-op ----------------------------------------------------------------
    if case["resolved"]:
        import shutil
        shutil.rmtree(os.path.join(root, real["workspace"]), ignore_errors=True)      # the user resolves the collision
    mid = core.snapshot(root)
    res2, detail2 = mu.run_op("migrate", root, sub)
    n += 1
    after2 = core.snapshot(root)
    if case["resolved"]:
        seen2, extra2 = mu.project_disk(root, jobs, l0, real)
        if res2 != case["res2"]:
            report("violation", "migrate:collision-resolved:second-run-outcome-%s" % res2,
                   "after the colliding 'workspace' was removed apply_migrations gives %s (%s), the specification requires %s; layout %r" % (res2, detail2, case["res2"], l0))
        elif seen2 != case["post2"] or extra2:
            bad2 = _diff(seen2, case["post2"])
            st2 = [f for f in bad2 if f in PRESERVE_FIELDS]
            report("violation" if st2 else "drift", "migrate:collision-resolved:layout-differs",
                   "after resolving the collision and migrating again: %r, unexpected %r; specification %r; layout %r" % ({f: seen2[f] for f in bad2}, extra2, {f: case["post2"][f] for f in bad2}, l0))
    elif legacy_ok or uptodate:
        if res2 != "ok":
            report("violation", "migrate:second-run:outcome-%s" % res2, "migrating the now up-to-date project again gives %s (%s); layout %r" % (res2, detail2, l0))
        if after2 != mid:
            report("violation", "migrate:second-run:modified-%s" % _changed_kinds(mid, after2),
                   "migrating the now up-to-date project again changed %s; layout %r" % (sorted(k for k in set(mid) | set(after2) if mid.get(k, 0) != after2.get(k, 0))[:6], l0))
    elif res2 != case["res2"] or (after2 != mid and case["post2"] == case["post"]):
        report("drift", "migrate:second-run:%s" % shape, "second apply_migrations: %s, changed=%s; specification: %s" % (res2, after2 != mid, case["res2"]))
    # ---- opens normally with exactly the same jobs ------------------------------------------------------
    n += 1
    if case["open"] == "ok":
        try:
            view, pdoc = mu.api_view(root)
            want = mu.expected_view(jobs) if case["openjobs"] == len(jobs) else {}
            if set(view) != set(want):
                report("violation", "migrate:open-after:ids-differ:%s" % _ws_class(l0), "a fresh session lists ids %r, expected %r; layout %r" % (sorted(view), sorted(want), l0))
            else:
                for jid in want:
                    for f in ("sp", "doc", "files"):
                        if not _same(view[jid][f], want[jid][f]):
                            report("violation", "migrate:open-after:job-%s-differs" % f, "job %s: %s is %r, expected %r; layout %r" % (jid, f, view[jid][f], want[jid][f], l0))
            if (legacy_ok or case["resolved"]) and l0["name"] != "None" and pdoc.get("signac_project_name") != real["name"]:
                report("violation", "migrate:open-after:project-name-not-in-document", "project document %r lacks the project name %r" % (pdoc, real["name"]))
            if l0["pdocUser"] and pdoc.get("user") != mu.USER_DOC["user"]:
                report("violation", "migrate:open-after:project-document-lost", "project document is %r, expected the user content %r" % (pdoc, mu.USER_DOC))
            seen3, extra3 = mu.project_disk(root, jobs, l0, real)
            if seen3 != case["post3"] or extra3:
                report("drift", "migrate:open-after:layout", "after opening: %r %r; specification %r" % (_diff(seen3, case["post3"]), extra3, case["post3"]))
        except Exception as e:  # noqa
            report("violation", "migrate:open-after:raises-%s:%s" % (type(e).__name__, shape), "opening the migrated project raises %r; layout %r" % (e, l0))
    else:
        r3, _ = mu.run_op("Project", root, sub)
        if r3 != case["open"]:
            report("violation" if r3 == "ok" else "drift", "gate:Project:after-failed-migration:%s" % r3, "Project() after a failed migration gives %s, specification %s; layout %r" % (r3, case["open"], l0))
    return n


def _same(a, b):
    if isinstance(a, dict) and isinstance(b, dict):
        return a.keys() == b.keys() and all(_same(a[k], b[k]) for k in a)
    if isinstance(a, (list, tuple)) and isinstance(b, (list, tuple)):
        return len(a) == len(b) and all(_same(x, y) for x, y in zip(a, b))
    return type(a) is type(b) and a == b


# ---- the command line front end ------------------------------------------------------------------------------------
def _cli_case(case, root, out, mutate_expected=None):
    """one layout through the command line: signac migrate (not confirmed) / -y migrate / find, job -p, init (the gate) /
    migrate -y / [resolve a collision] / migrate -y / find; and `signac config --local ...` on fresh copies.
    Every command is a fresh process (clifront.run_cli). Returns the number of commands run."""
    from ..clifront import run_cli
    import shutil
    l0 = case["l0"]
    if mutate_expected:
        case = mutate_expected(case)
    real = mu.default_real(l0)
    scratch = os.path.dirname(root)
    cmds = []
    ncmd = [0]

    def report(kind, sig, what):
        out.append({"kind": kind, "sig": sig, "what": what + "; commands: " + "; ".join(cmds[-6:]) + "; layout %r" % (l0,),
                    "case": {"l0": l0, "op": "cli"}, "real": real})

    def cli(cwd, *argv):
        st, o, e = run_cli(scratch, cwd, list(argv))
        cmds.append("(cd %s && signac %s) -> %d" % (os.path.relpath(cwd, root), " ".join(argv), st))
        ncmd[0] += 1
        return st, o, e

    def fresh():
        shutil.rmtree(root, ignore_errors=True)
        jobs = mu.write_layout(l0, root, real)
        seen, extra = mu.project_disk(root, jobs, l0, real)
        if seen != l0 or extra:
            raise core.MachineryError("layout written differs from the layout intended: %r %r" % (_diff(seen, l0), extra))
        return jobs

    def changed(before):
        after = core.snapshot(root)
        return sorted(k for k in set(before) | set(after) if before.get(k, 0) != after.get(k, 0))

    jobs = fresh()
    sub = mu.sub_dir(root, l0, jobs, real)
    legacy_ok = l0["where"] == "rc" and l0["ver"] in ("absent", "0", "1") and case["mig"]["st"] == 0
    snap = core.snapshot(root)
    # 1/2. a migration that is not confirmed changes nothing (the child's stdin is at end of file)
    for argv in (("migrate",), ("-y", "migrate")):
        st, o, e = cli(root, *argv)
        ch = changed(snap)
        if ch:
            report("violation", "cli:migrate:not-confirmed:project-modified", "signac %s (question not answered) changed %s" % (" ".join(argv), ch[:6]))
            jobs = fresh()
            snap = core.snapshot(root)
        elif st != case["notconfirmed"]["st"]:
            report("drift", "cli:migrate:not-confirmed:exit-%d" % st, "signac %s exits %d, specification %d (%s)" % (" ".join(argv), st, case["notconfirmed"]["st"], (o + e)[-160:]))
    # 3. every other command meets the gate: refused (exit 1) without touching anything unless the version is the supported one
    gate_post = case["gate"]["post"]
    for cwd, argv in ((root, ("find",)), (sub, ("job", "-p", "{}")), (root, ("init",)), (sub, ("statepoint",))):
        st, o, e = cli(cwd, *argv)
        if st != case["gate"]["st"]:
            if case["gate"]["st"] == 1:
                report("violation", "cli:gate:%s:%s:opened" % (argv[0], _ver_class(l0)), "signac %s on a project declaring schema version %s in %s exits %d: %s" % (" ".join(argv), l0["ver"], l0["where"], st, (o + e)[-160:]))
            else:
                report("violation", "cli:gate:%s:supported-version-refused" % argv[0], "signac %s on an up-to-date project exits %d: %s" % (" ".join(argv), st, (o + e)[-200:]))
        ch = changed(snap)
        if ch and gate_post == l0:
            report("violation", "cli:gate:%s:%s:modified-%s" % (argv[0], _ver_class(l0), _changed_kinds(snap, core.snapshot(root))),
                   "signac %s changed the directory of a project it %s: %s" % (" ".join(argv), "refused" if case["gate"]["st"] else "only opened", ch[:6]))
            jobs = fresh()
            snap = core.snapshot(root)
        elif ch:
            seen, extra = mu.project_disk(root, jobs, l0, real)
            if seen != gate_post or extra or ch != [real["workspace"] + "/"]:
                report("drift", "cli:gate:open-effect", "after signac %s: %r %r" % (" ".join(argv), _diff(seen, gate_post), ch[:6]))
            snap = core.snapshot(root)
    # 4. signac migrate -y
    if _h(json.dumps(l0, sort_keys=True), "r") % 3 == 0:
        st, o, e = cli(os.path.dirname(root), "migrate", "-y", "-r", root)      # the project named with -r / --root-directory
    else:
        st, o, e = cli(root, "migrate", "-y")
    seen, extra = mu.project_disk(root, jobs, l0, real)
    exp = case["mig"]
    colliding = l0["where"] == "rc" and l0["ver"] in ("absent", "0", "1") and exp["st"] == 1
    if st != exp["st"]:
        report("violation" if (legacy_ok or exp["msg"] == "uptodate") else "drift", "cli:migrate:exit-%d-instead-of-%d:%s" % (st, exp["st"], exp["msg"]),
               "signac migrate -y exits %d, the specification requires %d (%s): %s" % (st, exp["st"], exp["msg"], (o + e)[-200:]))
    base_post = exp["post"]
    if seen != base_post or extra:
        bad = _diff(seen, base_post)
        stated = [f for f in bad if (colliding and f != "lock") or (legacy_ok and f in PRESERVE_FIELDS) or f in ("dirs", "njobs", "pdocUser")]
        if stated:
            report("violation", "cli:migrate:%s" % ("collision:left-half-migrated" if colliding else "%s=%s" % (stated[0], _short(seen, stated[0]))),
                   "after signac migrate -y: %r, the specification requires %r" % ({f: seen[f] for f in bad}, {f: base_post[f] for f in bad}))
        else:
            report("drift", "cli:migrate:layout", "after signac migrate -y: differing %r extra %r" % (bad, extra))
    # 5. resolve a collision by hand, migrate again: the second run is a no-op or completes the migration
    if case["resolved"]:
        shutil.rmtree(os.path.join(root, real["workspace"]), ignore_errors=True)
    snap2 = core.snapshot(root)
    st, o, e = cli(root, "migrate", "-y")
    seen2, extra2 = mu.project_disk(root, jobs, l0, real)
    if st != case["mig2"]["st"]:
        report("violation" if (legacy_ok or case["resolved"]) else "drift", "cli:migrate:second-run:exit-%d" % st, "second signac migrate -y exits %d, specification %d: %s" % (st, case["mig2"]["st"], (o + e)[-200:]))
    if not case["resolved"] and (legacy_ok or exp["msg"] == "uptodate") and changed(snap2):
        report("violation", "cli:migrate:second-run:modified-%s" % _changed_kinds(snap2, core.snapshot(root)), "a second signac migrate -y changed %s" % changed(snap2)[:6])
    if case["resolved"] and (seen2 != case["mig2"]["post"] or extra2):
        bad = _diff(seen2, case["mig2"]["post"])
        report("violation" if [f for f in bad if f in PRESERVE_FIELDS] else "drift", "cli:migrate:collision-resolved:layout-differs", "after resolving the collision: %r, specification %r" % ({f: seen2[f] for f in bad}, {f: case["mig2"]["post"][f] for f in bad}))
    # 6. signac find lists exactly the jobs
    st, o, e = cli(root, "find")
    ids = sorted(x for x in o.split() if x)
    f = case["find"]
    if st != f["st"]:
        report("violation" if (f["st"] == 0 and (legacy_ok or case["resolved"])) or (f["st"] == 1 and st == 0) else "drift", "cli:find-after-migrate:exit-%d" % st,
               "signac find after the migration exits %d, the specification requires %d: %s" % (st, f["st"], (o + e)[-200:]))
    elif st == 0:
        want = sorted(jobs) if f["n"] == len(jobs) else []
        if ids != want:
            report("violation", "cli:find-after-migrate:ids-differ:%s" % _ws_class(l0), "signac find lists %r, expected %r" % (ids, want))
        elif want:
            st, o, e = cli(root, "statepoint")
            got = sorted(json.dumps(json.loads(x), sort_keys=True) for x in o.splitlines() if x.strip()) if st == 0 else None
            if got != sorted(json.dumps(j["sp"], sort_keys=True) for j in jobs.values()):
                report("violation", "cli:statepoint-after-migrate:differs", "signac statepoint prints %r" % (got,))
    # 7. signac config --local ...: on fresh copies of the layout
    if case.get("do_config"):
        jobs = fresh()
        st, o, e = cli(root, "config", "--local", "show", "schema_version")
        if st != 0 or o.strip() != case["showver"]:
            report("drift", "cli:config:show", "signac config --local show schema_version prints %r (exit %d), specification %r" % (o.strip(), st, case["showver"]))
        st, o, e = cli(root, "config", "--local", "verify")
        if st != 0 or changed(core.snapshot(root)):
            report("drift", "cli:config:verify", "signac config --local verify exits %d: %s" % (st, e[-160:]))
        before = case["findbefore"]
        for k, rec in enumerate(case["sets"]):
            if k:
                jobs = fresh()
            snap = core.snapshot(root)
            val = mu.key_text(real, rec["val"]) if rec["key"] == "workspace_dir" else rec["val"]
            st, o, e = cli(root, "config", "--local", "set", rec["key"], val)
            seen, extra = mu.project_disk(root, jobs, l0, real)
            if st != rec["st"] or seen != rec["post"] or extra:
                report("violation" if seen.get("dirs") != l0["dirs"] or seen.get("njobs") != l0["njobs"] else "drift", "cli:config:set-%s" % rec["key"],
                       "signac config --local set %s %s exits %d, layout differs in %r (%r); specification exit %d" % (rec["key"], val, st, _diff(seen, rec["post"]), extra, rec["st"]))
            st2, o2, e2 = cli(root, "find")
            ids = sorted(x for x in o2.split() if x)
            # the stated promise: never silently unreachable
            if st2 == 0 and before["st"] == 0 and ids != (sorted(jobs) if before["n"] == len(jobs) else []):
                report("violation", "cli:config:set-%s:jobs-silently-unreachable" % rec["key"], "after signac config --local set %s %s, signac find exits 0 and lists %r instead of %r" % (rec["key"], val, ids, sorted(jobs)))
            elif st2 != rec["find"]["st"]:
                report("drift", "cli:config:set-%s:find-exit-%d" % (rec["key"], st2), "signac find after config set exits %d, specification %d" % (st2, rec["find"]["st"]))
    return ncmd[0]


def _work_cli(item):
    idx, case = item
    root = os.path.join(_G["root"], "k%d" % os.getpid(), "c%d" % idx, "proj")
    os.makedirs(os.path.dirname(root), exist_ok=True)
    out = []
    try:
        n = _cli_case(case, root, out)
    finally:
        import shutil
        shutil.rmtree(os.path.dirname(root), ignore_errors=True)
    return n, out


def _work(item):
    idx, case = item
    root = os.path.join(_G["root"], "w%d" % os.getpid(), "c%d" % idx, "proj")
    os.makedirs(os.path.dirname(root), exist_ok=True)
    out = []
    try:
        n = _check_case(case, root, out, real=case.get("real"))
    finally:
        import shutil
        shutil.rmtree(os.path.dirname(root), ignore_errors=True)
    return n, out


def probe_d1(work):
    """minimal repro of deviation D1: is a legacy project with workspace_dir = ./workspace refused?"""
    import shutil
    root = os.path.join(work, "probe-d1")
    shutil.rmtree(root, ignore_errors=True)
    os.makedirs(os.path.join(root, "workspace"))
    with open(os.path.join(root, "signac.rc"), "w") as f:
        f.write("project = p\nworkspace_dir = ./workspace\nschema_version = 1\n")
    res, _ = mu.run_op("migrate", root, root)
    shutil.rmtree(root, ignore_errors=True)
    return res == "ok"


def _tlc(ctx, name, consts, env, coverage, workers):
    consts = dict(consts, FixedD1="TRUE" if _G["fixed_d1"] else "FALSE")
    cfgt = tlc.cfg(consts, invariants=INVARIANTS, properties=PROPS, postcondition="Export")
    env = dict(env, CLI_OUT=env.get("CLI_OUT", os.path.join(ctx.work, "cli_unused.ndjson")))
    r = tlc.run("discovery/Migration.tla", cfg_text=cfgt, workdir=ctx.work, seed=ctx.seed % 10**6, env=env, coverage=coverage,
                allow_violation=False, workers=workers)
    ctx.add_tlc(name, r)
    return r


def _random_cases(rnd, n):
    """code -> spec: random legacy projects beyond the token alphabet (real names / directory names are random)"""
    from signac._vendor import configobj
    alphabet = string.ascii_letters + string.digits + " _-.,;:#!?()[]{}<>/\\|@$%^&*+=~`'\""
    cases = []
    while len(cases) < n:
        name = "None" if rnd.random() < 0.2 else "".join(rnd.choice(alphabet) for _ in range(rnd.randrange(1, 24))).strip()
        if not name or ("'" in name and '"' in name):
            continue
        seg = lambda: "".join(rnd.choice(string.ascii_letters + string.digits + " _-.") for _ in range(rnd.randrange(1, 9))).strip(" .") or "w"
        custom = seg() + "_c"
        nested = os.path.join("data", seg() + "_n", "workspace") if rnd.random() < 0.3 else os.path.join("data", seg() + "_n")
        if custom in ("workspace", "data", "notes"):
            continue
        wsk, dirs, dd = rnd.choice([("", ("jobs", "absent", "absent"), False), ("workspace", ("jobs", "absent", "absent"), False),
                                    ("custom", ("absent", "jobs", "absent"), False), ("nested", ("absent", "absent", "jobs"), True),
                                    ("custom", ("stray", "jobs", "absent"), False), ("nested", ("stray", "absent", "jobs"), True)])
        l0 = {"where": "rc", "ver": rnd.choice(["absent", "0", "1"]), "name": "None" if name == "None" else "plain", "wsKey": wsk,
              "dirs": dict(dict.fromkeys(mu.LOCS, "absent"), **dict(zip(("workspace", "custom", "nested"), dirs))), "dataDir": dd,
              "cache": rnd.choice(["none", "root"]), "hist": rnd.choice(["none", "root"]), "njobs": rnd.randrange(0, 6),
              "pdocUser": rnd.random() < 0.5, "pdocName": "", "cfgExtra": rnd.random() < 0.5, "lock": False}
        real = dict(mu.WSDIR, name=name, custom=custom, nested=nested)
        cases.append({"l0": l0, "op": "migrate", "real": real})
    return cases


def _write_rc_with_configobj(case, root):
    """rewrite signac.rc through the vendored configobj, the way signac v1 wrote it"""
    from signac._vendor import configobj
    c = configobj.ConfigObj()
    c.filename = os.path.join(root, "signac.rc")
    l0, real = case["l0"], case["real"]
    if l0["cfgExtra"]:
        c[mu.EXTRA_KEY] = mu.EXTRA_VAL
    c["project"] = real["name"]
    if l0["wsKey"]:
        c["workspace_dir"] = real[l0["wsKey"]]
    if l0["ver"] != "absent":
        c["schema_version"] = l0["ver"]
    c.write()


def _work_random(item):
    """run one random project through the real migration and record what happened (no expectation yet)"""
    idx, case = item
    root = os.path.join(_G["root"], "r%d" % os.getpid(), "c%d" % idx, "proj")
    os.makedirs(os.path.dirname(root), exist_ok=True)
    import shutil
    try:
        l0, real = case["l0"], case["real"]
        jobs = mu.write_layout(l0, root, real)
        _write_rc_with_configobj(case, root)
        seen, extra = mu.project_disk(root, jobs, l0, real)
        if seen != l0 or extra:
            return {"skip": "layout not expressible: %r %r" % (_diff(seen, l0), extra)}
        sub = mu.sub_dir(root, l0, jobs, real)
        res, detail = mu.run_op("migrate", root, sub)
        post, extra = mu.project_disk(root, jobs, l0, real)
        if res == "RuntimeError" and l0["dirs"]["workspace"] == "stray":
            shutil.rmtree(os.path.join(root, "workspace"), ignore_errors=True)   # resolve the collision, continue the history
        res2, _ = mu.run_op("migrate", root, sub)
        post2, extra2 = mu.project_disk(root, jobs, l0, real)
        op3, _ = mu.run_op("Project", root, sub)
        view_ok = None
        if op3 == "ok":
            view, pdoc = mu.api_view(root)
            want = mu.expected_view(jobs)
            view_ok = set(view) == set(want) and all(_same(view[j][f], want[j][f]) for j in want for f in ("sp", "doc", "files"))
            if l0["name"] != "None" and pdoc.get("signac_project_name") != real["name"]:
                view_ok = "project-name-not-in-document" if view_ok else False
        return {"res": res, "detail": detail, "post": post, "extra": extra, "res2": res2, "post2": post2, "extra2": extra2, "open": op3, "view_ok": view_ok}
    finally:
        shutil.rmtree(os.path.dirname(root), ignore_errors=True)


def run(ctx):
    workers = int(os.environ.get("VERIF_WORKERS", "16"))
    _G["root"] = os.path.realpath(ctx.mkdtemp("layouts"))
    from ..discoveryutil import assert_clean_ancestry
    assert_clean_ancestry(_G["root"])
    rnd = random.Random(ctx.seed)
    _G["fixed_d1"] = probe_d1(_G["root"])
    ctx.cov["deviation_flags"] = {"FixedD1": _G["fixed_d1"]}
    ctx.assumptions += ["configobj's INI syntax (the harness writes and reads configuration files with its own minimal writer/reader, "
                        "cross-checked against the vendored configobj at start)", "filelock", "gzip / json of the standard library", "TLC"]
    ctx.cov["rule"] = ("case = (layout, operation); layouts: exhaustive product of {version absent/0/1/3/10 in signac.rc, absent/0/1/2/3/10 in "
                       ".signac/config} x project name {None, plain, fancy} x workspace_dir spelling {none, workspace, ./workspace, workspace/, "
                       "my_workspace, workspace2, ./ws, ws/, data/ws dir, scratch/workspace, a/b/workspace; the custom ones also colliding} x cache x history x job count x project document x extra config entry; "
                       "operations Project / get_project / get_project from a sub-directory / init_project / apply_migrations "
                       "(+ second run + open afterwards); distinct = distinct (layout, operation)")
    # cross-check of the hand-written INI spelling against the vendored configobj (trusted base, not an oracle)
    from signac._vendor import configobj
    for tok, name in mu.NAMES.items():
        l = {"cfgExtra": True, "name": tok, "wsKey": "nested", "ver": "1"}
        parsed = configobj.ConfigObj(mu.config_text(l, mu.default_real(l)).decode().splitlines())
        mine = mu.parse_ini(mu.config_text(l, mu.default_real(l)))
        if parsed.get("project") != name or mine.get("project") != name or parsed.get("workspace_dir") != mu.WSDIR["nested"] or dict(parsed) != mine:
            raise core.MachineryError("INI spelling of %r is not what configobj reads: %r / %r" % (name, dict(parsed), mine))
    # ---- spec -> code -----------------------------------------------------------------------------
    out_file = os.path.join(ctx.work, "cases.ndjson")
    consts = {"NJ": "{0, 2}" if ctx.quick else "{0, 1, 2, 3, 4, 5}", "SMALL": "TRUE" if ctx.quick else "FALSE", "MODE": '"product"'}
    cli_file = os.path.join(ctx.work, "cli_cases.ndjson")
    r = _tlc(ctx, "Migration: gate + chain over the product of layout options", consts, {"CASES_OUT": out_file, "CLI_OUT": cli_file}, True, workers)
    ctx.require_actions(r, ACTIONS)
    cases = [json.loads(ln) for ln in open(out_file)]
    if len(cases) != r.actions["Init"][0]:
        raise core.MachineryError("exported %d cases, TLC had %d initial states" % (len(cases), r.actions["Init"][0]))
    res = core.pmap(_work, list(enumerate(cases)), procs=workers)
    findings = []
    for (n, fs), c in zip(res, cases):
        ctx.count(("case", json.dumps(c["l0"], sort_keys=True), c["op"]), n=n, traces=1)
        findings += fs
    for c in (cases[0], cases[len(cases) // 3], cases[-1]):
        ctx.sample({"layout": c["l0"], "op": c["op"], "expected": c["res"], "expected_post_differs_in": _diff(c["post"], c["l0"])})
    mig = [c for c in cases if c["op"] == "migrate" and c["res"] == "ok" and c["l0"]["where"] == "rc"]
    if mig:
        c = mig[len(mig) // 2]
        ctx.sample({"layout": c["l0"], "op": c["op"], "expected": c["res"], "expected_post": c["post"], "second": c["res2"], "open_after": c["open"]})
    ctx.cov["cases_replayed"] = len(cases)
    # ---- command line front end ------------------------------------------------------------------------
    cli_cases = [json.loads(ln) for ln in open(cli_file)]
    if len(cli_cases) * 5 != len(cases):
        raise core.MachineryError("exported %d command-line cases for %d library cases" % (len(cli_cases), len(cases)))
    every = 3 if ctx.quick else 8
    sel = [dict(c, do_config=(_h(ctx.seed, k, "cfg") % 3 == 0)) for k, c in enumerate(cli_cases) if _h(ctx.seed, k, "cli") % every == 0]
    resc = core.pmap(_work_cli, list(enumerate(sel)), procs=workers)
    ncmd = 0
    for (n, fs), c in zip(resc, sel):
        ctx.count(("cli", json.dumps(c["l0"], sort_keys=True)), n=n, traces=n)
        ncmd += n
        findings += fs
    ctx.cov["command_line"] = {"layouts": len(sel), "commands_run": ncmd,
                               "commands": "signac migrate (not confirmed) / -y migrate / find / job -p / init / statepoint / migrate -y (twice, "
                                           "collision resolved in between) / find / statepoint / config --local show|verify|set"}
    c = sel[len(sel) // 2]
    ctx.sample({"command_line_layout": c["l0"], "migrate_not_confirmed": c["notconfirmed"]["st"], "gate_exit": c["gate"]["st"], "migrate_y": [c["mig"]["st"], c["mig"]["msg"]],
                "second_migrate_y": [c["mig2"]["st"], c["mig2"]["msg"]], "find_after": [c["find"]["st"], c["find"]["n"]]})
    # ---- code -> spec -----------------------------------------------------------------------------
    rcases = _random_cases(rnd, 150 if ctx.quick else 2000)
    obs = core.pmap(_work_random, list(enumerate(rcases)), procs=workers)
    keep = [(c, o) for c, o in zip(rcases, obs) if "skip" not in o]
    ctx.cov["random_projects"] = {"generated": len(rcases), "validated": len(keep), "skipped": len(rcases) - len(keep)}
    if len(keep) < len(rcases) // 2:
        raise core.MachineryError("most random projects were not expressible: %r" % [o for o in obs if "skip" in o][:3])
    fin, fout = os.path.join(ctx.work, "rand_in.ndjson"), os.path.join(ctx.work, "rand_out.ndjson")
    with open(fin, "w") as f:
        for c, o in keep:
            f.write(json.dumps({"l0": c["l0"], "op": "migrate"}) + "\n")
    r2 = _tlc(ctx, "Migration: recorded random projects", {"NJ": "{0}", "SMALL": "TRUE", "MODE": '"file"'}, {"CASES_FILE": fin, "CASES_OUT": fout}, False, workers)
    exps = [json.loads(ln) for ln in open(fout)]
    if len(exps) != len(keep):
        raise core.MachineryError("TLC returned %d expectations for %d recorded projects" % (len(exps), len(keep)))
    for (c, o), e in zip(keep, exps):
        ctx.count(("random", json.dumps(c["l0"], sort_keys=True)), n=3, traces=1)
        l0 = c["l0"]
        ok_expected = e["res"] == "ok"
        shape = "%s:%s" % (_ver_class(l0), _ws_class(l0))
        what = "random project (name %r, dirs %r): " % (c["real"]["name"], {k: c["real"][k] for k in ("custom", "nested")})
        if o["res"] != e["res"]:
            findings.append({"kind": "violation" if ok_expected else "drift", "sig": "migrate:%s:outcome-%s" % (shape, o["res"]),
                             "what": what + "apply_migrations gives %s (%s), specification %s; layout %r" % (o["res"], o["detail"], e["res"], l0), "case": c, "real": c["real"]})
        elif o["post"] != e["post"] or o["extra"]:
            bad = _diff(o["post"], e["post"])
            stated = [f for f in bad if e["resolved"] or f in (PRESERVE_FIELDS if ok_expected else ("dirs", "njobs", "pdocUser"))]
            findings.append({"kind": "violation" if stated else "drift",
                             "sig": "migrate:collision:left-half-migrated" if e["resolved"] and stated else "migrate:%s=%s" % ((stated or bad or ["extra"])[0], _short(o["post"], (stated or bad or ["where"])[0])),
                             "what": what + "after apply_migrations fields %r differ (got %r, extra %r); layout %r" % (bad, {f: o["post"][f] for f in bad}, o["extra"], l0), "case": c, "real": c["real"]})
        if e["resolved"] and (o["res2"] != e["res2"] or o["post2"] != e["post2"]):
            findings.append({"kind": "violation", "sig": "migrate:collision-resolved:%s" % ("second-run-outcome-" + o["res2"] if o["res2"] != e["res2"] else "layout-differs"),
                             "what": what + "after resolving the collision the second migration gives %s, layout %r; specification %s %r" % (o["res2"], o["post2"], e["res2"], e["post2"]), "case": c, "real": c["real"]})
        ok_expected = ok_expected or e["resolved"]
        if not e["resolved"] and ok_expected and (o["res2"] != "ok" or o["post2"] != o["post"]):
            findings.append({"kind": "violation", "sig": "migrate:second-run:modified-or-failed", "what": what + "second migration: %s, layout then %r" % (o["res2"], o["post2"]), "case": c, "real": c["real"]})
        if ok_expected and (o["open"] != "ok" or o["view_ok"] is not True):
            findings.append({"kind": "violation", "sig": "migrate:open-after:%s" % ("raises-" + o["open"] if o["open"] != "ok" else o["view_ok"] or "jobs-differ"),
                             "what": what + "opening afterwards: %s, same jobs: %s; layout %r" % (o["open"], o["view_ok"], l0), "case": c, "real": c["real"]})
    if keep:
        c, o = keep[0]
        ctx.sample({"random_project": c["real"], "layout": c["l0"], "observed": o["res"], "observed_post_differs_in": _diff(o["post"], c["l0"])})
    # ---- verdicts -----------------------------------------------------------------------------------
    for f in findings:
        if f["kind"] == "violation":
            ctx.violation(f["sig"], f["what"], {"case": f["case"], "real": f.get("real")})
        else:
            ctx.spec_drift(("%s: %s" % (f["sig"], f["what"]))[:600])
    # ---- binding self-test ----------------------------------------------------------------------------
    st = {}
    c = next(c for c in cases if c["op"] == "migrate" and c["res"] == "ok" and c["l0"]["where"] == "rc" and c["l0"]["cache"] == "root" and c["l0"]["njobs"] > 0)

    def corrupt(case):
        return dict(case, post=dict(case["post"], njobs=case["post"]["njobs"] + 7))
    out = []
    _check_case(c, os.path.join(_G["root"], "self1", "proj"), out, mutate_expected=corrupt)
    st["corrupted_expected_layout_detected"] = any("njobs" in f["sig"] for f in out)
    g = next(c for c in cases if c["op"] == "Project" and c["res"] == "IncompatibleSchemaVersion")
    out = []
    _check_case(g, os.path.join(_G["root"], "self2", "proj"), out, mutate_expected=lambda case: dict(case, res="ok"))
    st["corrupted_expected_outcome_detected"] = bool(out)
    out = []
    _check_case(c, os.path.join(_G["root"], "self3", "proj"), out)
    st["unmodified_case_passes"] = not out or any(f["kind"] == "violation" for f in findings)
    g = next(c for c in cli_cases if c["gate"]["st"] == 1 and c["l0"]["where"] == "rc")
    out = []
    _cli_case(g, os.path.join(_G["root"], "self4", "proj"), out, mutate_expected=lambda c: dict(c, gate=dict(c["gate"], st=0)))
    st["corrupted_cli_expectation_detected"] = any(f["sig"].startswith("cli:gate") for f in out)
    out = []
    _cli_case(g, os.path.join(_G["root"], "self5", "proj"), out)
    st["unmodified_cli_case_passes"] = not out or any(f["kind"] == "violation" and f["sig"].startswith("cli:") for f in findings)
    if not st["corrupted_cli_expectation_detected"]:
        raise core.MachineryError("binding self-test of the command line phase failed: %r" % st)
    ctx.cov["binding_selftest"] = st
    if not (st["corrupted_expected_layout_detected"] and st["corrupted_expected_outcome_detected"]):
        raise core.MachineryError("binding self-test failed: %r" % st)
    ctx.cov["exhaustive"] = "product of the option sets (quick: job counts {0,2}, paired boolean options)"


def replay(ctx, data):
    case = data["case"]
    root = os.path.join(os.path.realpath(ctx.mkdtemp("replay")), "proj")
    # recompute the expectation with TLC for exactly this case
    fin, fout = os.path.join(ctx.work, "in.ndjson"), os.path.join(ctx.work, "out.ndjson")
    with open(fin, "w") as f:
        f.write(json.dumps({"l0": case["l0"], "op": case["op"]}) + "\n")
    cfgt = tlc.cfg({"NJ": "{0}", "SMALL": "TRUE", "MODE": '"file"', "FixedD1": "TRUE" if probe_d1(ctx.work) else "FALSE"}, invariants=INVARIANTS, postcondition="Export")
    fcli = os.path.join(ctx.work, "out_cli.ndjson")
    tlc.run("discovery/Migration.tla", cfg_text=cfgt, workdir=ctx.work, env={"CASES_FILE": fin, "CASES_OUT": fout, "CLI_OUT": fcli}, coverage=False, workers=2)
    exp = json.loads(open(fout).readline())
    if case["op"] == "cli":
        ecli = dict(json.loads(open(fcli).readline()), do_config=True)
        out = []
        _cli_case(ecli, root, out)
        for f in out:
            print(f["kind"].upper(), f["sig"], "-", f["what"])
        print("layout:", case["l0"])
        print("specification: migrate not confirmed ->", ecli["notconfirmed"]["st"], "| gate ->", ecli["gate"]["st"], "| migrate -y ->", ecli["mig"]["st"], ecli["mig"]["msg"],
              "| again ->", ecli["mig2"]["st"], ecli["mig2"]["msg"], "| find ->", ecli["find"]["st"], ecli["find"]["n"])
        return 1 if any(f["kind"] == "violation" for f in out) else 0
    out = []
    real = data.get("real")
    if real and real != mu.default_real(case["l0"]):
        jobs = mu.write_layout(case["l0"], root, real)
        _write_rc_with_configobj({"l0": case["l0"], "real": real}, root)
        res, detail = mu.run_op("migrate", root, mu.sub_dir(root, case["l0"], jobs, real))
        post, extra = mu.project_disk(root, jobs, case["l0"], real)
        print("apply_migrations ->", res, detail)
        print("layout afterwards:", post, extra)
        print("specification    :", exp["res"], exp["post"])
        return 0 if (res == exp["res"] and post == exp["post"] and not extra) else 1
    _check_case(exp, root, out)
    for f in out:
        print(f["kind"].upper(), f["sig"], "-", f["what"])
    print("layout:", case["l0"], "operation:", case["op"], "specification:", exp["res"])
    return 1 if any(f["kind"] == "violation" for f in out) else 0

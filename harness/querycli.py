"""The command line front end of the query family bound to spec/query/QueryCli.tla (C06, C07).

TLC enumerates (corpus, command line) cases - `signac find` in the JSON and the simplified spelling with the
--sp / --doc / --show / -1 flags, `signac document -f`, `signac document|statepoint [ids]`, malformed filters - and
exports for each the exit status class and the printed blocks (composition of Find / ParseTokens / ParseMap).
This module only builds argv from the descriptors, runs the REAL entry point through clifront.run_cli (one forked
process per command, cwd = project directory), parses what was printed back into blocks and compares.
judge_* evaluate the stated post-conditions on the real tree (raw files), independently of the model.
"""
import ast
import collections
import json
import os
import re
import shutil

from . import clifront, core, tlc
from . import queryutil as Q
from .jsonenc import type_exact_eq

SPEC = "query/QueryCli.tla"
INVARIANTS = ["FindPrintsFind", "ShownIsOwnData", "SimplifiedIsJsonReading", "InvalidPrintsNothing", "SelectedDocuments", "SelectedStatepoints"]
_G = {}
HEX = re.compile(r"^[0-9a-f]{32}$")


# ---- descriptors -> argv -----------------------------------------------------------------------------------
def argv_of(cmd, ids, toks=None):
    """the command line of a command descriptor (mechanical: token texts, flags, '--' where the spec says so)"""
    toks = Q.render_tokens(cmd["toks"] if toks is None else toks)
    if cmd["byid"]:
        return [cmd["cmd"]] + [ids[q - 1] if q >= 1 else "0" * 32 for q in cmd["ids"]]
    if cmd["cmd"] == "document":
        return ["document"] + (["-f"] + toks if toks else [])
    flags = []
    if cmd["sp"]["on"]:
        flags += ["--sp"] + list(cmd["sp"]["keys"])
    if cmd["doc"]["on"]:
        flags += ["--doc"] + list(cmd["doc"]["keys"])
    if cmd["show"]:
        flags += ["--show"]
    if cmd["oneline"]:
        flags += ["-1"]
    if cmd["dd"]:
        return ["find"] + flags + ["--"] + toks          # CC2: a token beginning with "-" only behind "--"
    return ["find"] + toks + flags


# ---- printed text -> blocks -----------------------------------------------------------------------------------
def _literals(lines):
    """consecutive pformat()ed Python literals"""
    out, buf = [], []
    for ln in lines:
        buf.append(ln)
        try:
            out.append(ast.literal_eval("\n".join(buf)))
            buf = []
        except (SyntaxError, ValueError):
            continue
    if buf:
        raise ValueError("unparseable: %r" % "\n".join(buf)[:80])
    return out


def parse_find(out, cmd, pos):
    """[(position, sp or None, doc or None)] in printed order"""
    show_sp = cmd["sp"]["on"] or cmd["show"]
    show_doc = cmd["doc"]["on"] or cmd["show"]
    blocks, cur = [], None
    for ln in out.splitlines():
        if HEX.match(ln.strip()) and ln.strip() in pos:
            cur = [pos[ln.strip()] + 1, []]
            blocks.append(cur)
        elif cur is None:
            raise ValueError("output before the first id: %r" % ln[:60])
        else:
            cur[1].append(ln)
    res = []
    for p, lines in blocks:
        if cmd["oneline"]:
            vals = []
            for ln in lines:
                head, _, body = ln.partition("\t")
                jid = next(i for i, q in pos.items() if q + 1 == p)
                if not head.split() or len(head.split()[0]) < 6 or not jid.startswith(head.split()[0]):
                    raise ValueError("one-line prefix %r does not name the job" % head)
                vals.append(json.loads(body))
        else:
            vals = _literals(lines)
        if len(vals) != int(show_sp) + int(show_doc):
            raise ValueError("%d values printed for one id, expected %d" % (len(vals), int(show_sp) + int(show_doc)))
        res.append((p, vals[0] if show_sp else None, vals[-1] if show_doc else None))
    return res


def parse_json_lines(out):
    return [json.loads(ln) for ln in out.splitlines() if ln.strip()]


def expected_blocks(out_rec):
    """TLC's blocks -> [(position, sp or None, doc or None)] with Python values"""
    res = []
    for b in out_rec["blocks"]:
        sp = Q.val_to_py(b["sp"])
        doc = Q.val_to_py(b["doc"])
        res.append((b["id"], None if sp is Q.ABS else sp, None if doc is Q.ABS else doc))
    return res


def _canon(x):
    return json.dumps(x, sort_keys=True)


def same_blocks(real, exp, ordered):
    a = [(p, _canon(s), _canon(d)) for p, s, d in real]
    b = [(p, _canon(s), _canon(d)) for p, s, d in exp]
    return a == b if ordered else sorted(a) == sorted(b)


# ---- one command: run, parse, compare, judge ------------------------------------------------------------------
def run_case(sb, scratch, case, raw):
    """-> None if the real command agrees with TLC's expectation, else (kind, detail)"""
    cmd, exp = case["cmd"], case["out"]
    argv = argv_of(cmd, sb.ids)
    code, out, err = clifront.run_cli(scratch, sb.root, argv)
    if exp["res"] == "error":
        if code == 0:
            return "accepted" if not cmd["byid"] else "unknown-id-accepted", "exit 0, printed %r" % out[:120]
        if out.strip() and not cmd["byid"]:         # CC7: by-id errors may have printed the earlier ids
            return "invalid-prints", "exit 1 but printed %r" % out[:120]
        return None
    if code != 0:
        return "rejected", "exit 1: %s" % err.strip().splitlines()[-1:]
    try:
        if cmd["cmd"] == "find":
            real = parse_find(out, cmd, sb.pos)
        else:
            vals = parse_json_lines(out)
            want = expected_blocks(exp)
            key = "sp" if cmd["cmd"] == "statepoint" else "doc"
            wvals = [(b[1] if key == "sp" else b[2]) for b in want]
            a, b = [_canon(v) for v in vals], [_canon(v) for v in wvals]
            if (a != b) if exp["ordered"] else (sorted(a) != sorted(b)):
                # independent judgement: is every printed mapping the data of some job, are they the selected ones?
                return ("wrong-%ss" % cmd["cmd"]), "printed %s, expected %s" % (a[:6], b[:6])
            return None
    except ValueError as e:
        return "unparseable-output", str(e)
    want = expected_blocks(exp)
    if sorted(p for p, _, _ in real) != sorted(p for p, _, _ in want):
        return "wrong-ids", "printed positions %s, Find gives %s" % (sorted(p for p, _, _ in real), sorted(p for p, _, _ in want))
    if len({p for p, _, _ in real}) != len(real):
        return "duplicate-ids", "positions %s" % [p for p, _, _ in real]
    bad = judge_shown(real, cmd, raw)
    if bad:
        return "shown-data-not-own", bad
    if not same_blocks(real, want, False):
        return "model-differs", "printed %s, model %s" % (real[:3], want[:3])
    return None


def judge_shown(real, cmd, raw):
    """post-condition on the real tree: what is printed next to an id is that job's own state point / document (raw files)
    restricted to the named top-level keys"""
    show = cmd["show"]
    for p, sp, doc in real:
        own_sp, own_doc = raw[p - 1]
        for got, own, spec in ((sp, own_sp, cmd["sp"]), (doc, own_doc, cmd["doc"])):
            on = spec["on"] or show
            if not on:
                if got is not None:
                    return "position %d: something printed that was not asked for" % p
                continue
            keys = spec["keys"] if spec["on"] else []
            want = own if not keys else {k: own[k] for k in keys if k in own}
            if not type_exact_eq(got, want):
                return "position %d: printed %r, the job's own data restricted to %s is %r" % (p, got, keys or "all keys", want)
    return None


def raw_data(sb):
    """the jobs' state points and documents as they are on disk (never through signac)"""
    out = []
    for jid in sb.ids:
        d = os.path.join(sb.root, "workspace", jid)
        with open(os.path.join(d, "signac_statepoint.json")) as f:
            sp = json.load(f)
        fn = os.path.join(d, "signac_job_document.json")
        doc = {}
        if os.path.exists(fn):
            with open(fn) as f:
                doc = json.load(f)
        out.append((sp, doc))
    return out


def shape_of_cmd(case):
    """deterministic signature part: command, flags, kinds of tokens"""
    cmd = case["cmd"]
    if cmd["byid"]:
        return "%s:by-id(%d)" % (cmd["cmd"], len(cmd["ids"]))
    toks = cmd["toks"]
    kinds = []
    for i, t in enumerate(toks):
        if t["k"] == "key":
            kinds.append("key$" if t["key"][-1].startswith("$") and len(t["key"]) > 1 else "$logic" if t["key"][0].startswith("$") else "key")
        elif t["k"] == "json":
            kinds.append("json")
        else:
            s = Q.uncps(t["cp"])
            kinds.append("!" if s == "!" else "/re/" if s.startswith("/") else "json-like" if s[:1] in "{[" else
                         "number" if re.fullmatch(r"\s*[+-]?[\d._eE+-]+\s*", s) and any(c.isdigit() for c in s) else
                         "keyword" if s in ("true", "false", "null") else "word")
    flags = "".join(f for f, on in (("+sp", cmd["sp"]["on"]), ("+doc", cmd["doc"]["on"]), ("+show", cmd["show"]), ("+1", cmd["oneline"])) if on)
    return "%s%s(%s)" % (cmd["cmd"], flags, " ".join(kinds))


def _worker(item):
    idx, line = item
    mode = _G["mode"]
    jobs = Q.corpus_to_py(line["corpus"])
    base = os.path.join(_G["base"], "c%d" % idx)
    os.makedirs(base)
    sb = Q.Sandbox(os.path.join(base, "p"), jobs)
    raw = raw_data(sb)
    before = core.snapshot(sb.root)
    res = {"n": 0, "cmds": 0, "bad": [], "keys": set(), "jobs": jobs}
    for k, case in enumerate(line["cases"]):
        cmd = case["cmd"]
        if mode == "c06":
            res["n"] += 1
            res["cmds"] += 1
            res["keys"].add(shape_of_cmd(case) + "|" + case["out"]["res"])
            r = run_case(sb, base, case, raw)
            if r:
                res["bad"].append((k, r[0], r[1]))
        else:
            # C07: the simplified spelling prints what its JSON reading prints; a malformed filter prints nothing
            if cmd["byid"] or not (case["json"] or case["malformed"]):
                continue
            res["n"] += 1
            res["keys"].add(shape_of_cmd(case) + "|" + case["out"]["res"])
            code, out, err = clifront.run_cli(base, sb.root, argv_of(cmd, sb.ids))
            res["cmds"] += 1
            if case["malformed"]:
                if code == 0 or out.strip():
                    res["bad"].append((k, "malformed-filter-not-refused", "exit %d, printed %r" % (code, out[:100])))
                continue
            code2, out2, err2 = clifront.run_cli(base, sb.root, argv_of(cmd, sb.ids, toks=case["json"]))
            res["cmds"] += 1
            same = code == code2 and (sorted(out.splitlines()) == sorted(out2.splitlines()) if cmd["cmd"] == "document" else _id_blocks(out) == _id_blocks(out2))
            if not same:
                res["bad"].append((k, "simplified-differs-from-json-reading", "simplified: exit %d %r ; JSON reading %s: exit %d %r" % (
                    code, out[:150], argv_of(cmd, sb.ids, toks=case["json"]), code2, out2[:150])))
    after = core.snapshot(sb.root)
    res["changed"] = sorted(set(before) ^ set(after)) + [p for p in before if p in after and before[p] != after[p]]
    shutil.rmtree(base, ignore_errors=True)
    return res


def _id_blocks(out):
    """printed text as an order-free set of per-id blocks"""
    blocks, cur = [], None
    for ln in out.splitlines():
        if HEX.match(ln.strip()):
            cur = [ln.strip()]
            blocks.append(cur)
        elif cur is not None:
            cur.append(ln)
        else:
            blocks.append([ln])
    return sorted(tuple(b) for b in blocks)


def tlc_cases(ctx, flags, ncli, ncmd, workers):
    from .drivers import c06
    out = os.path.join(ctx.work, "cli.ndjson")
    c = c06.consts("cli", flags)
    c.update({"NSPELL": 1, "NCLI": ncli, "NCMD": ncmd})
    cfgt = tlc.cfg(c, init="CliInit", next="CliNext", invariants=INVARIANTS, postcondition="CliExport")
    r = tlc.run(SPEC, cfg_text=cfgt, workdir=ctx.work, workers=workers, seed=ctx.seed % 10**6, env={"CLI_OUT": out}, coverage=False, allow_violation=False)
    ctx.add_tlc("QueryCli.tla: every initial state one (corpus, command line) case; command-level requirements checked, exit status and printed blocks exported", r)
    lines = [json.loads(l) for l in open(out)]
    n = sum(len(l["cases"]) for l in lines)
    if n != r.distinct or n < 200:
        raise core.MachineryError("command line export: %d cases, TLC %d states" % (n, r.distinct))
    return lines


def check_static_regex_table():
    """the regex engine is trusted base; the static table of Query.tla is re-derived here for the CLI string universe"""
    strings = ["1", "ab", '"ab"', "sp.a", "True", "a"]
    want = {("^1$", "1"), ("a", "ab"), ("a", '"ab"'), ("a", "sp.a"), ("a", "a"), ("", "1"), ("", "ab")}
    for rx in ("^1$", "a"):
        for s in strings:
            if bool(re.search(rx, s)) != ((rx, s) in want):
                raise core.MachineryError("static regex table of Query.tla disagrees with re for %r ~ %r" % (rx, s))


def phase(ctx, flags, mode, procs):
    """mode "c06": every case, exit status / ids / shown data against TLC and against the raw files;
       mode "c07": simplified spelling against its JSON reading, malformed filters refused"""
    check_static_regex_table()
    quick = ctx.quick
    lines = tlc_cases(ctx, flags, 1 if quick else 5, 260 if quick else 0, procs)
    _G.update(base=ctx.mkdtemp("cli"), mode=mode)
    # the cases of one corpus are spread over several workers (each materialises the corpus itself)
    items, owner = [], []
    for line in lines:
        for c0 in range(0, len(line["cases"]), 60):
            items.append((len(items), {"corpus": line["corpus"], "cases": line["cases"][c0:c0 + 60]}))
            owner.append(items[-1][1])
    results = core.pmap(_worker, items, procs=procs, chunks=1)
    stats = collections.Counter()
    worst = {}
    for line, res in zip(owner, results):
        stats["cases"] += res["n"]
        stats["commands"] += res["cmds"]
        for key in res["keys"]:
            ctx.count("cli|" + key, n=0)
        if res["changed"]:
            ctx.spec_drift("cli: read-only query commands changed the project directory: %s" % res["changed"][:5])
        for k, kind, detail in res["bad"]:
            case = line["cases"][k]
            sig = "cli:%s:%s" % (kind, shape_of_cmd(case))
            size = (len(case["cmd"]["toks"]), len(res["jobs"]), len(json.dumps(case["cmd"])))
            if sig not in worst or size < worst[sig][0]:
                worst[sig] = (size, res["jobs"], case, kind, detail)
    ctx.count(n=stats["commands"], traces=stats["commands"])
    sigs = sorted(worst, key=lambda s: (worst[s][0], s))
    for sig in sigs[:8]:
        _, jobs, case, kind, detail = worst[sig]
        argv = argv_of(case["cmd"], ["<id of job %d>" % (i + 1) for i in range(len(jobs))])
        text = "signac %s on %r: %s" % (" ".join(repr(a) for a in argv), jobs, detail)
        data = {"check": "cli", "mode": mode, "corpus": jobs, "case": case}
        if kind == "model-differs":
            ctx.spec_drift("cli: " + text)
        else:
            ctx.violation(sig, text, data)
    ctx.cov.setdefault("cli", {})[mode] = dict(stats, corpora=len(lines), failing_signatures=len(worst))
    lines = owner
    ex = next((c for l in lines for c in l["cases"] if c["out"]["res"] == "ok" and len(c["out"]["blocks"]) >= 1 and c["cmd"]["sp"]["on"] and not c["cmd"]["byid"]), None)
    if ex:
        jobs = Q.corpus_to_py(next(l for l in lines if ex in l["cases"])["corpus"])
        ctx.sample({"cli_case": "signac " + " ".join(argv_of(ex["cmd"], ["<id%d>" % (i + 1) for i in range(len(jobs))])), "corpus": jobs,
                    "expected_from_TLC": {"exit": ex["out"]["res"], "blocks(position, sp, doc)": [(p, s, d) for p, s, d in expected_blocks(ex["out"])]}})
    # binding self-test: one corrupted expectation (a selected job dropped from the expected blocks) must be noticed
    st = None
    for idx, line in enumerate(lines):
        for case in line["cases"]:
            if case["cmd"]["cmd"] == "find" and not case["cmd"]["byid"] and len(case["out"]["blocks"]) >= 1:
                bad = json.loads(json.dumps(case))
                bad["out"]["blocks"] = bad["out"]["blocks"][1:]
                base = ctx.mkdtemp("cliself")
                sb = Q.Sandbox(os.path.join(base, "p"), Q.corpus_to_py(line["corpus"]))
                st = run_case(sb, base, bad, raw_data(sb)) is not None and run_case(sb, base, case, raw_data(sb)) is None
                break
        if st is not None:
            break
    bs = ctx.cov.get("binding_selftest") or {}
    bs["cli_corrupted_expectation_detected"] = st
    ctx.cov["binding_selftest"] = bs
    if not st and not ctx.violations:
        raise core.MachineryError("command line binding self-test failed")
    return stats


def replay(ctx, data):
    jobs = [tuple(j) for j in data["corpus"]]
    base = ctx.mkdtemp("clireplay")
    sb = Q.Sandbox(os.path.join(base, "p"), jobs)
    for i, (sp, doc) in enumerate(jobs, 1):
        print("  %d: %s  %r / %r" % (i, sb.ids[i - 1], sp, doc))
    case = data["case"]
    argv = argv_of(case["cmd"], sb.ids)
    code, out, err = clifront.run_cli(base, sb.root, argv)
    print("$ signac " + " ".join(repr(a) for a in argv))
    print("exit status %d\n%s%s" % (code, out, err.strip()[-300:]))
    print("specification: %s, blocks (position, sp, doc): %s" % (case["out"]["res"], expected_blocks(case["out"])))
    if data.get("mode") == "c07" and case["json"]:
        argv2 = argv_of(case["cmd"], sb.ids, toks=case["json"])
        code2, out2, err2 = clifront.run_cli(base, sb.root, argv2)
        print("$ signac " + " ".join(repr(a) for a in argv2))
        print("exit status %d\n%s" % (code2, out2))
        return 0 if code == code2 and _id_blocks(out) == _id_blocks(out2) else 1
    if data.get("mode") == "c07":
        return 0 if code == 1 and not out.strip() else 1
    r = run_case(sb, base, case, raw_data(sb))
    print("verdict:", r or "agrees")
    return 0 if r is None else 1

"""./check <ID> [--tier quick|thorough] [--replay FILE]

exit 0: property held on everything explored (KNOWN-FINDING lines allowed)
exit 1: VIOLATION property=<ID> replay=<path>
exit 2: machinery failure (TLC crashed, harness error) - never a property verdict
"""
import argparse
import importlib
import json
import logging
import os
import sys
import traceback

from . import core


def main(argv=None):
    ap = argparse.ArgumentParser()
    ap.add_argument("pid")
    ap.add_argument("--tier", default=os.environ.get("VERIF_TIER", "quick"), choices=["quick", "thorough"])
    ap.add_argument("--replay")
    ap.add_argument("--keep", action="store_true")
    a = ap.parse_args(argv)
    seed = int(os.environ.get("VERIF_SEED", "20261001") or 0)
    logging.disable(logging.CRITICAL)
    try:
        mod = importlib.import_module("harness.drivers." + a.pid.lower())
    except ImportError:
        traceback.print_exc()
        print("no driver for", a.pid)
        return 2
    ctx = core.Ctx(a.pid, a.tier, seed)
    try:
        if a.replay:
            data = json.load(open(a.replay))
            return mod.replay(ctx, data["replay"]) if hasattr(mod, "replay") else 2
        try:
            mod.run(ctx)
        except Exception:
            if not ctx.violations:
                raise
            # a machinery problem AFTER violations were established (typically a self-test that the tree under test
            # breaks as well) must not hide them: report what was found, exit 1
            traceback.print_exc()
            print("MACHINERY-PROBLEM property=%s after %d violation(s) had been found; reporting those" % (a.pid, len(ctx.violations)))
            ctx.notes.append("run aborted by a machinery problem after violations had been found")
            ctx.cov["states"] = max(1, ctx.cov["states"]); ctx.cov["transitions"] = max(1, ctx.cov["transitions"])
            if not ctx.cov["samples"]:
                ctx.cov["samples"].append({"note": "aborted run"})
            rc = core.finish(ctx, getattr(mod, "LEVEL", "model_checking"))
            return rc if rc == 1 else 2          # only known findings so far: the machinery problem is what counts
        return core.finish(ctx, getattr(mod, "LEVEL", "model_checking"))
    except Exception:
        traceback.print_exc()
        print("MACHINERY-FAILURE property=%s (exit 2; not a verdict)" % a.pid)
        return 2
    finally:
        if not a.keep:
            ctx.cleanup()


if __name__ == "__main__":
    sys.exit(main())

"""C20 helpers: write a Migration.tla layout record as a real (legacy or current) project directory exactly as
signac v0 / v1 / v2 left it, project a directory back to a layout record by raw observation, run one operation.

Translation, execution and comparison only - every expectation comes from TLC's export.
"""
import contextlib
import gzip
import io
import json
import os

from . import core

NAMES = {"None": "None", "plain": "my_project", "fancy": 'My Project, v1.0 "beta" (#2) [x]; a=b'}
# location token -> directory (relative to the project); workspace_dir spelling token -> (text in the config, location)
WSDIR = {"workspace": "workspace", "custom": "my_workspace", "custom2": "workspace2", "ws": "ws",
         "nested": os.path.join("data", "ws dir"), "nestedws": os.path.join("scratch", "workspace"),
         "deepws": os.path.join("a", "b", "workspace")}
LOCS = tuple(WSDIR)
KEYTEXT = {"workspace": "workspace", "dotws": "./workspace", "wsslash": "workspace/", "custom": "my_workspace", "custom2": "workspace2",
           "dotcustom": "./ws", "customslash": "ws/", "nested": "data/ws dir", "nestedws": "scratch/workspace", "deepws": "a/b/workspace"}
LOC_OF = {"": "workspace", "workspace": "workspace", "dotws": "workspace", "wsslash": "workspace", "custom": "custom", "custom2": "custom2",
          "dotcustom": "ws", "customslash": "ws", "nested": "nested", "nestedws": "nestedws", "deepws": "deepws"}


def key_text(real, tok):
    """the text of the workspace_dir entry for spelling token tok (random projects override the directory names)"""
    if tok in ("custom", "nested") and real[tok] != WSDIR[tok]:
        return real[tok]
    return KEYTEXT[tok]


def top_parent(real, l0):
    """first path component of the nested location this layout uses (its emptied parents stay behind), or 'data'"""
    for loc in LOCS:
        if os.sep in real[loc] and (l0["dirs"].get(loc, "absent") != "absent" or LOC_OF.get(l0["wsKey"]) == loc):
            return real[loc].split(os.sep)[0]
    return "data"
EXTRA_KEY, EXTRA_VAL = "author_name", "A. Tester"
USER_DOC = {"user": {"n": 1, "tags": ["x", "y"], "nested": {"k": None}}}
LOCK = ".SIGNAC_PROJECT_MIGRATION_LOCK"
RC, CFG = "signac.rc", os.path.join(".signac", "config")
CACHE = {"root": ".signac_sp_cache.json.gz", "dot": os.path.join(".signac", "statepoint_cache.json.gz")}
HIST = {"root": ".signac_shell_history", "dot": os.path.join(".signac", "shell_history")}
HIST_TEXT = b"print(project)\nfor job in project: print(job)\n"
STRAY = ("stray.txt", b"an unrelated directory that happens to be called workspace\n")


def job_table(n):
    """the fixed jobs 1..n: state point, optional document, files (relpath -> bytes)"""
    out = {}
    for i in range(1, n + 1):
        sp = {"a": i, "b": {"c": str(i), "d": [i, i + 0.5, None, True]}}
        doc = {"i": i, "nested": {"k": [1, 2, {"z": "s"}]}} if i % 2 else None
        files = {}
        if i % 3 != 0:
            files["data.txt"] = ("payload %d\n" % i).encode()
        if i % 3 == 2:
            files[os.path.join("sub", "dir", "blob.bin")] = bytes(range(i, i + 40))
        out[core.my_id(sp)] = {"sp": sp, "doc": doc, "files": files}
    return out


def quote(v):
    """INI spelling of a value the way configobj writes it (single-line values)"""
    if v == "" or any(c in v for c in ",#\"'") or v != v.strip():
        if '"' not in v:
            return '"%s"' % v
        if "'" not in v:
            return "'%s'" % v
        raise ValueError("cannot quote %r" % v)
    return v


def config_text(l, real):
    lines = []
    if l["cfgExtra"]:
        lines += ["# written by an earlier signac", "%s = %s" % (EXTRA_KEY, EXTRA_VAL)]
    if l["name"] != "":
        lines.append("project = " + quote(real["name"]))
    if l["wsKey"] != "":
        lines.append("workspace_dir = " + quote(key_text(real, l["wsKey"])))
    if l["ver"] != "absent":
        lines.append("schema_version = " + l["ver"])
    return ("\n".join(lines) + "\n").encode()


def default_real(l):
    return dict(WSDIR, name=NAMES.get(l["name"], l["name"]))


def _write(fn, data):
    os.makedirs(os.path.dirname(fn), exist_ok=True)
    with open(fn, "wb") as f:
        f.write(data)


def write_layout(l, root, real=None):
    """create the project directory for layout l (root must not exist); returns the jobs table written"""
    real = real or default_real(l)
    os.makedirs(root)
    jobs = job_table(l["njobs"])
    _write(os.path.join(root, RC if l["where"] == "rc" else CFG), config_text(l, real))
    for loc, state in l["dirs"].items():
        d = os.path.join(root, real[loc])
        if state == "absent":
            continue
        os.makedirs(d, exist_ok=True)
        if state == "empty":
            continue
        if state == "stray":
            _write(os.path.join(d, STRAY[0]), STRAY[1])
        elif state == "jobs":
            for jid, j in jobs.items():
                jd = os.path.join(d, jid)
                os.makedirs(jd)
                _write(os.path.join(jd, "signac_statepoint.json"), json.dumps(j["sp"]).encode())
                if j["doc"] is not None:
                    _write(os.path.join(jd, "signac_job_document.json"), json.dumps(j["doc"]).encode())
                for rel, data in j["files"].items():
                    _write(os.path.join(jd, rel), data)
    if l["dataDir"]:
        os.makedirs(os.path.join(root, top_parent(real, l)), exist_ok=True)
    if l["cache"] != "none":
        fn = os.path.join(root, CACHE[l["cache"]])
        os.makedirs(os.path.dirname(fn), exist_ok=True)
        with gzip.GzipFile(fn, "wb", mtime=0) as f:
            f.write(json.dumps({jid: j["sp"] for jid, j in jobs.items()}).encode())
    if l["hist"] != "none":
        _write(os.path.join(root, HIST[l["hist"]]), HIST_TEXT)
    doc = {}
    if l["pdocUser"]:
        doc.update(USER_DOC)
    if l["pdocName"] != "":
        doc["signac_project_name"] = NAMES.get(l["pdocName"], l["pdocName"])
    if doc:
        _write(os.path.join(root, "signac_project_document.json"), json.dumps(doc).encode())
    if l["lock"]:
        _write(os.path.join(root, LOCK), b"")
    _write(os.path.join(root, "notes", "readme.txt"), b"a plain sub-directory\n")
    return jobs


def parse_ini(data):
    """minimal INI reader (key = value lines, quotes, comments) - independent of configobj"""
    out = {}
    for line in data.decode().splitlines():
        s = line.strip()
        if not s or s.startswith("#"):
            continue
        k, eq, v = s.partition("=")
        if not eq:
            out["?" + s] = ""
            continue
        v = v.strip()
        if len(v) >= 2 and v[0] == v[-1] and v[0] in "\"'":
            v = v[1:-1]
        out[k.strip()] = v
    return out


def _tree(d):
    out = {}
    for r, ds, fs in os.walk(d):
        for x in ds:
            out[os.path.relpath(os.path.join(r, x), d) + "/"] = None
        for x in fs:
            with open(os.path.join(r, x), "rb") as f:
                out[os.path.relpath(os.path.join(r, x), d)] = f.read()
    return out


def _job_tree(j):
    t = {"signac_statepoint.json": json.dumps(j["sp"]).encode()}
    if j["doc"] is not None:
        t["signac_job_document.json"] = json.dumps(j["doc"]).encode()
    for rel, data in j["files"].items():
        t[rel] = data
        p = os.path.dirname(rel)
        while p:
            t[p + "/"] = None
            p = os.path.dirname(p)
    return t


def project_disk(root, jobs, l0, real=None):
    """raw observation of the directory as a layout record (+ 'extra': everything the record cannot express)"""
    real = real or default_real(l0)
    extra = []
    rc, cfg = os.path.isfile(os.path.join(root, RC)), os.path.isfile(os.path.join(root, CFG))
    L = {"where": "rc" if rc and not cfg else "cfg" if cfg and not rc else "both" if rc else "none"}
    ini = {}
    if rc or cfg:
        with open(os.path.join(root, RC if rc else CFG), "rb") as f:
            ini = parse_ini(f.read())
    L["ver"] = ini.pop("schema_version", "absent")
    name = ini.pop("project", None)
    rev = {v: k for k, v in NAMES.items()}
    if name is None:
        L["name"] = ""
    elif name == real["name"]:
        L["name"] = l0["name"] if l0["name"] != "" else rev.get(name, name)
    else:
        L["name"] = "?" + name
    ws = ini.pop("workspace_dir", None)
    L["wsKey"] = "" if ws is None else next((k for k in KEYTEXT if key_text(real, k) == ws), "?" + ws)
    ex = ini.pop(EXTRA_KEY, None)
    L["cfgExtra"] = False if ex is None else True if ex == EXTRA_VAL else "?" + ex
    extra += ["config-entry:" + k for k in ini]
    dirs, found = {}, 0
    for loc in LOCS:
        d = os.path.join(root, real[loc])
        if not os.path.isdir(d):
            dirs[loc] = "absent"
            continue
        names = set(os.listdir(d))
        if names == {STRAY[0]} and _tree(d) == {STRAY[0]: STRAY[1]}:
            dirs[loc] = "stray"
        elif not names and jobs:
            dirs[loc] = "empty"
        elif names == set(jobs):
            ok = all(_tree(os.path.join(d, jid)) == _job_tree(j) for jid, j in jobs.items())
            dirs[loc] = "jobs" if ok else "damaged"
            found = len(names)
        else:
            dirs[loc] = "other:" + ",".join(sorted(names))[:80]
    L["dirs"] = dirs
    L["njobs"] = found if "jobs" in dirs.values() else -1
    top = top_parent(real, l0)
    L["dataDir"] = os.path.isdir(os.path.join(root, top))
    cache_bytes = None
    for field, table, want in (("cache", CACHE, None), ("hist", HIST, HIST_TEXT)):
        r, d = os.path.isfile(os.path.join(root, table["root"])), os.path.isfile(os.path.join(root, table["dot"]))
        L[field] = "both" if r and d else "root" if r else "dot" if d else "none"
        if r != d:
            with open(os.path.join(root, table["root" if r else "dot"]), "rb") as f:
                data = f.read()
            if field == "hist" and data != want:
                L[field] = "changed"
            if field == "cache":
                try:
                    if json.loads(gzip.decompress(data).decode()) != {jid: j["sp"] for jid, j in jobs.items()}:
                        L[field] = "changed"
                except Exception:  # noqa
                    L[field] = "changed"
    fn = os.path.join(root, "signac_project_document.json")
    L["pdocUser"], L["pdocName"] = False, ""
    if os.path.isfile(fn):
        try:
            with open(fn) as f:
                doc = json.load(f)
        except Exception:  # noqa
            doc = {"?unparseable": 1}
        if "user" in doc:
            L["pdocUser"] = True if doc.pop("user") == USER_DOC["user"] else "changed"
        if "signac_project_name" in doc:
            n = doc.pop("signac_project_name")
            L["pdocName"] = (l0["name"] if l0["name"] not in ("", "None") else rev.get(n, n)) if n == real["name"] or n in rev else "?" + str(n)
        extra += ["project-document-entry:" + k for k in doc]
    L["lock"] = os.path.exists(os.path.join(root, LOCK))
    known = {RC, "signac_project_document.json", LOCK, CACHE["root"], HIST["root"], "notes", top, ".signac"} | \
        {real[loc].split(os.sep)[0] for loc in LOCS if dirs[loc] != "absent"}
    extra += ["path:" + n for n in sorted(os.listdir(root)) if n not in known]
    if os.path.isdir(os.path.join(root, ".signac")):
        extra += ["path:.signac/" + n for n in sorted(os.listdir(os.path.join(root, ".signac"))) if n not in ("config", "shell_history", "statepoint_cache.json.gz")]
    if _tree(os.path.join(root, "notes")) != {"readme.txt": b"a plain sub-directory\n"}:
        extra.append("notes-changed")
    if os.path.isdir(os.path.join(root, top)) and top not in (real["workspace"], "notes"):
        # the parent chain of a nested workspace may hold nothing but that chain
        chains = [real[loc].split(os.sep) for loc in LOCS if real[loc].split(os.sep)[0] == top and os.sep in real[loc]]
        for r_, ds_, fs_ in os.walk(os.path.join(root, top)):
            rel = os.path.relpath(r_, root).split(os.sep)
            if any(rel == c for c in chains):
                ds_[:] = []
                continue
            for n in ds_ + fs_:
                if not any(c[:len(rel) + 1] == rel + [n] for c in chains):
                    extra.append("path:" + os.path.join(*rel, n))
    return L, extra


def file_meta(root):
    """relpath -> (inode, mtime_ns, size) of every regular file: notices files rewritten with identical bytes"""
    out = {}
    for r, ds, fs in os.walk(root):
        for x in fs:
            st = os.lstat(os.path.join(r, x))
            out[os.path.relpath(os.path.join(r, x), root)] = (st.st_ino, st.st_mtime_ns, st.st_size)
    return out


def rewritten(m0, m1):
    return sorted(k for k in m0 if k in m1 and m0[k] != m1[k])


def sub_dir(root, l, jobs, real=None):
    """a directory inside the project from which get_project is asked to search upwards"""
    real = real or default_real(l)
    for loc, st in l["dirs"].items():
        if st == "jobs" and jobs:
            return os.path.join(root, real[loc], sorted(jobs)[0])
    return os.path.join(root, "notes")


def run_op(op, root, sub):
    """-> (outcome, detail): 'ok' | exception class name"""
    import signac
    from signac.migration import apply_migrations
    try:
        with contextlib.redirect_stderr(io.StringIO()), contextlib.redirect_stdout(io.StringIO()):
            if op == "Project":
                r = signac.Project(root)
            elif op == "get_project":
                r = signac.get_project(root)
            elif op == "get_project_sub":
                r = signac.get_project(sub)
            elif op == "init_project":
                r = signac.init_project(root)
            elif op == "migrate":
                apply_migrations(root)
                r = None
            else:
                raise ValueError(op)
    except Exception as e:  # noqa
        names = [c.__name__ for c in type(e).__mro__]
        for known in ("IncompatibleSchemaVersion", "RuntimeError", "LookupError"):
            if known in names:
                return known, "%s: %s" % (type(e).__name__, str(e)[:160])
        return type(e).__name__, str(e)[:160]
    if r is not None and os.path.realpath(r.path) != os.path.realpath(root):
        return "wrong-project", r.path
    return "ok", ""


def api_view(root):
    """what a fresh session sees: ids, state points, documents, files, project document"""
    import signac
    p = signac.Project(root)
    out = {}
    for job in p:
        files = _tree(job.path)
        out[job.id] = {"sp": job.statepoint(), "doc": json.loads(json.dumps(dict(job.document()))) if hasattr(job.document, "__call__") else dict(job.document),
                       "files": files}
    return out, json.loads(json.dumps(p.document()))


def expected_view(jobs):
    out = {}
    for jid, j in jobs.items():
        out[jid] = {"sp": json.loads(json.dumps(j["sp"])), "doc": j["doc"] or {}, "files": _job_tree(j)}
    return out

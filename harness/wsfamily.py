"""Drivers for the workspace family (C02 C03 C04 C08 C09): configurations of Workspace.tla, requirement
properties checked by TLC, replay of every edge / of simulated behaviours into the real library, and the
per-property judges that evaluate the property's stated post-conditions on the REAL execution."""
import collections
import copy
import json
import os
import pickle
import random
import shutil
import subprocess
import sys

from . import core, tlaparse, tlc
from . import wsengine as W

SPEDITS = ["sp_pop", "sp_setdefault", "sp_update", "sp_clear"]
NONDAMAGE = ["open_sp", "open_id", "open_iter", "init", "readsp", "remove", "setkey", "assign", "update_sp", "docset",
             "writefile", "clear", "reset", "copy", "update_cache", "delete_cache", "restart"]


# ======================================================================================================
# raw helpers (never through signac)
def job_dirs(root):
    wd = os.path.join(root, "workspace")
    return sorted(d for d in (os.listdir(wd) if os.path.isdir(wd) else []) if W.HEX32.fullmatch(d) and os.path.isdir(os.path.join(wd, d)))


def read_sp(root, jid):
    """-> ('ok', value) | ('missing', None) | ('garbage', None)"""
    fn = os.path.join(root, "workspace", jid, W.SP_FILE)
    if not os.path.exists(fn):
        return "missing", None
    try:
        with open(fn, "rb") as f:
            return "ok", json.loads(f.read().decode())
    except ValueError:
        return "garbage", None


def valid_raw(root, jid):
    k, v = read_sp(root, jid)
    try:
        return k == "ok" and isinstance(v, dict) and core.my_id(v) == jid
    except TypeError:
        return False


def payload(snap, prefix):
    """files of one job directory except the state point file: relpath -> bytes"""
    return {k[len(prefix):]: v for k, v in snap.items() if k.startswith(prefix) and not k.endswith("/")
            and k[len(prefix):] != W.SP_FILE}


def fresh_view(signac, root):
    """API view through a fresh session"""
    p = signac.Project(root)
    ids = [j.id for j in p]
    out = {"len": len(p), "ids": sorted(ids), "dups": len(ids) != len(set(ids)), "sp": {}, "contains": {}}
    for i in ids:
        try:
            j = p.open_job(id=i)
            out["contains"][i] = j in p
            out["sp"][i] = j.statepoint()
        except Exception as e:  # noqa
            out["sp"][i] = "!" + type(e).__name__
    try:
        p.check()
        out["check"] = []
    except signac.errors.JobsCorruptedError as e:
        out["check"] = sorted(e.job_ids)
    return out


# ======================================================================================================
# judges: (world, spec_state, pre_snap, post_snap, res, val) -> [(signature, what)]
def litter_of(snap):
    return sorted(k for k in snap if not k.endswith("/") and (k.endswith("~") or os.path.basename(k).startswith("._")))


def judge_c03(w, st, pre, post, res, val):
    out = []
    op = st["last"]["op"]
    if op in ("corrupt", "corrupt_other", "rename_dir"):
        return out
    lit = litter_of(post)
    if lit:
        out.append(("litter:" + op, "temporary/backup files left behind after %s: %s" % (op, lit[:3])))
    tainted = sorted(st.get("tainted", ()))
    for p, root in w.roots.items():
        dirs = job_dirs(root)
        model = W.fdict(st["ws"][p])
        def modelled_bad(i):      # the conformant model shows the same anomaly for this directory
            s_ = w.uni.by_id.get(i)
            return s_ in model and not (model[s_]["spk"] == "ok" and model[s_]["spv"] == s_)
        for d in dirs:
            k, v = read_sp(root, d)
            if k == "ok" and not (isinstance(v, dict) and core.my_id(v) == d):
                if tainted and modelled_bad(d):
                    out.append(("modelled:hash-mismatch:" + "+".join(tainted), "directory %s holds a state point file hashing to another id (reproduced by the conformant model; deviations fired: %s)" % (d[:6], tainted)))
                else:
                    out.append(("hash-mismatch:" + op, "directory %s holds a state point file hashing to %s after %s" % (d, core.my_id(v) if isinstance(v, dict) else v, op)))
        fv = fresh_view(w.signac, root)
        if fv["len"] != len(fv["ids"]) or fv["dups"] or fv["ids"] != dirs or not all(fv["contains"].get(i, True) for i in fv["ids"]):
            out.append(("listing:" + op, "len/iteration/membership disagree or differ from the id-named directories: len=%s ids=%s dirs=%s" % (fv["len"], [i[:6] for i in fv["ids"]], [d[:6] for d in dirs])))
        if fv["check"]:
            if tainted and all(modelled_bad(i) for i in fv["check"]):
                out.append(("modelled:check-fails:" + "+".join(tainted), "check() reports %s (reproduced by the conformant model; deviations fired: %s)" % ([i[:6] for i in fv["check"]], tainted)))
            else:
                out.append(("check-fails:" + op, "check() reports %s after %s" % ([i[:6] for i in fv["check"]], op)))
        for i, sp in fv["sp"].items():
            if isinstance(sp, dict) and core.my_id(sp) != i and not (tainted and modelled_bad(i)):
                out.append(("fresh-handle-sp:" + op, "fresh handle on %s returns a state point hashing to %s" % (i[:6], core.my_id(sp)[:6])))
    return out


def _handle_desc(job, public=False):
    """what a handle says about its job. Non-perturbing by default: the public properties create the state point
    dict / load lazily / register in the cache, i.e. change hidden state of later steps; they are used only on
    the last step of a behaviour (public=True)."""
    d = {"id": job.id, "path": job.path}
    if public:
        try:
            d["sp"] = job.statepoint()
            d["csp"] = dict(job.cached_statepoint)
            if os.path.isdir(job.path):
                d["docpath"] = os.path.dirname(job.document.filename)
        except Exception as e:  # noqa
            d["sp"] = d["csp"] = "!" + type(e).__name__
        return d
    csp = getattr(job, "_cached_statepoint", None)
    if not getattr(job, "_statepoint_requires_init", True) and hasattr(job, "_statepoint"):
        d["sp"] = job._statepoint()
    elif csp is not None:
        d["sp"] = copy.deepcopy(dict(csp))
    else:
        d["sp"] = None
    d["csp"] = copy.deepcopy(dict(csp)) if csp is not None else d["sp"]
    return d


def judge_c04(w, st, pre, post, res, val):
    out = _judge_c04(w, st, pre, post, res, val)
    taint = set(st.get("tainted", ())) | w.taint
    if "D3-leak" in taint and w.step_conformant:
        # a rejected value sits in some handle's memory (DEVIATION D3): what follows from it is one known finding
        out = [("modelled:%s:D3-leak" % sig.split(":")[0] if not sig.startswith(("handles-follow:copy-taken", "modelled:")) else sig, what) for sig, what in out]
    return out


def _judge_c04(w, st, pre, post, res, val):
    out = []
    last = st["last"]
    op, a = last["op"], last["args"]
    uni = w.uni
    if op in ("setkey", "assign", "update_sp", "sp_pop", "sp_setdefault", "sp_update", "sp_clear"):
        x = a[0]
        old = w.pre_handles.get(x)
        job = w.h.get(x)
        if old is None or job is None:
            return out
        pname = os.path.basename(job.project.path)
        oldp, newp = "%s/workspace/%s/" % (pname, old["id"]), "%s/workspace/%s/" % (pname, job.id)
        if res == "ok" and job.id != old["id"] and (oldp + W.SP_FILE in pre):      # an initialised job was re-keyed
            if oldp in post:
                out.append(("rekey-old-id-remains:" + op, "after %s the old id directory still exists" % op))
            if payload(post, newp) != payload(pre, oldp) or newp not in post:
                out.append(("rekey-data-not-carried:" + op, "document/files under the new id differ from those under the old id: %s vs %s" % (sorted(payload(post, newp)), sorted(payload(pre, oldp)))))
            k, v = read_sp(w.roots[pname], job.id)
            if not (k == "ok" and core.my_id(v) == job.id):
                out.append(("rekey-sp-file:" + op, "state point file under the new id is %s" % k))
        if res == "ok" and job.id != old["id"]:
            # every live copy follows
            for y, jy in w.h.items():
                if y != x and w.root.get(y) == w.root.get(x) and w.pre_handles.get(y, {}).get("id") == old["id"]:
                    dy, dx = _handle_desc(jy, w.is_last), _handle_desc(job, w.is_last)
                    if dy != dx:
                        # copies that share the state point dict must follow; a copy taken before the first .statepoint
                        # access (and every copy of such a copy) has a dict of its own - DEVIATION D2
                        early = w.grp.get(y, y) != w.grp.get(x, x)
                        sig = "handles-follow:copy-taken-before-first-statepoint-access" if early else "handles-follow:" + op
                        out.append((sig, "copy %s of handle %s does not follow the re-key: %s vs %s" % (y, x, dy, dx)))
            # what the session remembers about the new id (a handle opened by id would be built from it)
            try:
                from signac.job import Job as _Job
                remembered = _Job(project=job.project, id_=job.id)._cached_statepoint
            except Exception:  # noqa
                remembered = None
            if remembered is not None and core.my_id(dict(remembered)) != job.id:
                out.append(("session-cache-entry-wrong:" + op, "after %s the session's cache maps the new id %s to a state point hashing elsewhere: %r" % (op, job.id[:6], dict(remembered))))
            dx = _handle_desc(job, w.is_last)
            if not (isinstance(dx["sp"], dict) and core.my_id(dx["sp"]) == job.id and dx["csp"] == dx["sp"] and dx["path"].endswith(job.id)
                    and dx.get("docpath", dx["path"]) == dx["path"]):
                out.append(("handle-describes-new-job:" + op, "after the re-key the handle reports %s" % dx))
        if res == "DestinationExistsError":
            if pre != post:
                diff = sorted(k for k in set(pre) | set(post) if pre.get(k) != post.get(k))
                out.append(("clobber:" + op, "DestinationExistsError but the disk changed: %s" % diff[:4]))
        if op == "update_sp" and res == "KeyError" and pre != post:
            out.append(("update-overwrote:" + op, "update_statepoint(overwrite=False) raised KeyError but changed the disk"))
        if op == "update_sp" and not a[3] and getattr(w, "expect_update_conflict", False) and res != "KeyError":
            out.append(("update-overwrote-existing-key", "update_statepoint(overwrite=False) on a key that already has another value returned %s instead of raising KeyError (existing value silently overwritten)" % res))
    elif op in ("writefile", "docset") and res == "ok":
        # writing into one job must not change any other job (clone / move must not share storage)
        job = w.h.get(a[0])
        if job is not None:
            mine = "%s/workspace/%s/" % (os.path.basename(job.project.path), job.id)
            other = sorted(k for k in set(pre) | set(post) if not k.startswith(mine) and pre.get(k) != post.get(k) and "/workspace/" in k)
            if other:
                out.append(("write-changed-another-job:" + op, "%s through a handle of %s also changed %s" % (op, job.id[:6], other[:3])))
    elif op == "move":
        x, q = a
        old = w.pre_handles.get(x)
        job = w.h.get(x)
        if res == "ok" and old:
            src = "%s/workspace/%s/" % (old["proj"], old["id"])
            dst = "%s/workspace/%s/" % (q, old["id"])
            if job.id != old["id"]:
                out.append(("move-changed-id", "move() changed the id %s -> %s" % (old["id"][:6], job.id[:6])))
            if src in post or dst not in post or {k[len(dst):]: v for k, v in post.items() if k.startswith(dst)} != {k[len(src):]: v for k, v in pre.items() if k.startswith(src)}:
                out.append(("move-data", "after move() the job is not byte-identical under the destination project"))
        elif res == "DestinationExistsError" and pre != post:
            out.append(("clobber:move", "DestinationExistsError but the disk changed"))
    elif op == "clone":
        x, q, y = a
        src_job = w.h.get(x)
        if res == "ok" and src_job is not None:
            sp_ = os.path.basename(src_job.project.path)
            src = "%s/workspace/%s/" % (sp_, src_job.id)
            dst = "%s/workspace/%s/" % (q, src_job.id)
            if {k: v for k, v in post.items() if k.startswith(src)} != {k: v for k, v in pre.items() if k.startswith(src)}:
                out.append(("clone-touched-source", "clone() modified the source job"))
            if {k[len(dst):]: v for k, v in post.items() if k.startswith(dst)} != {k[len(src):]: v for k, v in pre.items() if k.startswith(src)}:
                out.append(("clone-not-identical", "clone() result differs from the source"))
        elif res == "DestinationExistsError" and pre != post:
            out.append(("clobber:clone", "DestinationExistsError but the disk changed"))
    return out


def judge_c02(w, st, pre, post, res, val):
    out = []
    last = st["last"]
    op, a = last["op"], last["args"]
    if op == "open_sp" and w.alias_bug:
        out.append(("open-aliases-caller-mapping", "mutating the caller's mapping after open_job changed the handle: %s" % (w.alias_bug,)))
        w.alias_bug = None
    if op in ("open_sp", "open_id", "open_iter") and pre != post:
        out.append(("open-writes:" + op, "opening a job changed the disk: %s" % sorted(k for k in set(pre) | set(post) if pre.get(k) != post.get(k))[:4]))
    if op == "init" and res == "ok":
        job = w.h[a[0]]
        pname = os.path.basename(job.project.path)
        root = w.roots[pname]
        k, v = read_sp(root, job.id)
        want = w.uni.real(st["h"][a[0]]["id"])
        if not (k == "ok" and W._type_exact(v, want)):
            out.append(("init-persist", "after init() the state point file is %s %r, expected %r" % (k, v, want)))
        key = "%s/workspace/%s/%s" % (pname, job.id, W.SP_FILE)
        if key in pre and pre[key] == post.get(key) and w.pre_stat.get(key) != _stat(os.path.join(w.base, key)):
            out.append(("init-rewrites-valid-file", "init() on a valid job rewrote its state point file"))
        fv = fresh_view(w.signac, root)
        if job.id not in fv["ids"] or not fv["contains"].get(job.id) or not W._type_exact(fv["sp"].get(job.id), want):
            out.append(("fresh-session-finds", "a fresh session does not find job %s with state point %r: %s" % (job.id[:6], want, fv["sp"].get(job.id))))
    return out


def _stat(fn):
    try:
        s = os.stat(fn)
        return (s.st_ino, s.st_mtime_ns, s.st_size)
    except OSError:
        return None


def api_obs(signac, root, filters=None):
    p = signac.Project(root)
    ids = sorted(j.id for j in p)
    sps = {}
    for i in ids:
        try:
            sps[i] = p.open_job(id=i).statepoint()
        except Exception as e:  # noqa
            sps[i] = "!" + type(e).__name__
    for i in ids:                      # open by abbreviated id: unique prefix -> that job, ambiguous -> LookupError
        for L in (1, 2, 4):
            try:
                sps["%s~%d" % (i, L)] = signac.Project(root).open_job(id=i[:L]).id
            except KeyError:
                sps["%s~%d" % (i, L)] = "!KeyError"
            except LookupError:
                sps["%s~%d" % (i, L)] = "!LookupError"
            except Exception as e:  # noqa
                sps["%s~%d" % (i, L)] = "!" + type(e).__name__
    q = {}
    try:
        q = {"all": sorted(j.id for j in p.find_jobs()), "len": len(p)}
        for name, f in (filters or {}).items():
            # every query in a session of its own: earlier calls of a session fill its in-memory cache and could
            # hide a dependence of the FIRST query on the persistent cache file
            q[name] = sorted(j.id for j in signac.Project(root).find_jobs(f))
    except Exception as e:  # noqa
        q = {"err": type(e).__name__}
    return {"ids": ids, "sps": sps, "q": q}


def flat_filters(root, dirs):
    """filters over top-level scalar state point items of the jobs present, with the id sets they select (computed
    from the raw files: a job matches iff its state point has that key with that JSON-typed value ... restricted
    to values for which Python == and JSON equality coincide inside the corpus)"""
    raw = {d: read_sp(root, d)[1] for d in dirs}
    items = {}
    for d, sp in raw.items():
        for k, v in (sp or {}).items():
            if isinstance(v, (str, int, float, bool)) or v is None:
                items.setdefault((k, json.dumps(v)), v)
    out, want = {}, {}
    for (k, js), v in sorted(items.items()):
        vals = [sp.get(k, "__absent__") for sp in raw.values() if sp is not None]
        if any(x == v and json.dumps(x) != js for x in vals if not isinstance(x, (list, dict))):
            continue        # 1 vs 1.0 vs True under one key: == and JSON equality differ, leave to C06
        name = "%s=%s" % (k, js)
        out[name] = {k: v}
        want[name] = sorted(d for d, sp in raw.items() if sp is not None and k in sp and json.dumps(sp[k]) == js)
    return out, want


def judge_c08(w, st, pre, post, res, val):
    out = []
    last = st["last"]
    op, a = last["op"], last["args"]
    for p, root in w.roots.items():
        fc = os.path.join(root, ".signac", "statepoint_cache.json.gz")
        dirs = job_dirs(root)
        if not all(valid_raw(root, d) for d in dirs):
            continue  # the property speaks about uncorrupted workspaces
        filters, fwant = flat_filters(root, dirs)
        with_cache = api_obs(w.signac, root, filters)
        if os.path.exists(fc):
            os.rename(fc, fc + ".hidden")
            try:
                without = api_obs(w.signac, root, filters)
            finally:
                os.rename(fc + ".hidden", fc)
        else:
            without = with_cache
        tsps = {d: read_sp(root, d)[1] for d in dirs}
        for d in dirs:
            for L in (1, 2, 4):
                m_ = [x for x in dirs if x.startswith(d[:L])]
                tsps["%s~%d" % (d, L)] = d if len(m_) == 1 else "!LookupError"
        truth = {"ids": dirs, "sps": tsps, "q": dict({"all": dirs, "len": len(dirs)}, **fwant)}
        if with_cache != truth or without != truth:
            which = "with" if with_cache != truth else "without"
            out.append(("cache-not-transparent:" + op, "API view %s the cache file differs from the workspace after %s: %s" % (which, op, str(with_cache if with_cache != truth else without)[:300])))
        raw = core.read_cache_file(root)
        if raw is not None:
            for i, v in raw.items():
                if not (isinstance(v, dict) and core.my_id(v) == i):
                    out.append(("cache-entry-wrong:" + op, "cache file maps %s to a state point hashing to something else" % i[:6]))
        if op == "update_cache" and a[0] == p and res in ("written", "none"):
            want = {d: read_sp(root, d)[1] for d in dirs}
            if raw is None or not (raw.keys() == want.keys() and all(W._type_exact(raw[k], want[k]) for k in want)):
                out.append(("update-cache-not-exact", "after update_cache() the cache file lists %s, workspace has %s" % (sorted(k[:6] for k in (raw or {})), [d[:6] for d in dirs])))
            before = _stat(fc)
            r2 = w.proj[p].update_cache()
            if r2 is not None or _stat(fc) != before:
                out.append(("second-update-cache-not-noop", "an immediate second update_cache() returned %r / rewrote the file" % (r2,)))
    return out


def classify(root, uni_unused=None):
    return {d: ("valid" if valid_raw(root, d) else read_sp(root, d)[0] if read_sp(root, d)[0] != "ok" else "wrong") for d in job_dirs(root)}


def judge_c09(w, st, pre, post, res, val):
    out = []
    last = st["last"]
    op, a = last["op"], last["args"]
    signac = w.signac
    if op == "readsp" and res == "ok" and "D3-leak" not in (set(st.get("tainted", ())) | w.taint):
        job = w.h.get(a[0])
        try:
            spv = _handle_desc(job)["sp"] if job is not None else None
        except Exception:  # noqa
            spv = None
        if job is not None and isinstance(spv, dict) and core.my_id(spv) != job.id:
            out.append(("accepts-wrong-statepoint:same-handle", "job.statepoint() through a handle with id %s returned %r, which hashes to %s" % (job.id[:6], spv, core.my_id(spv)[:6])))
    if op == "check":
        root = w.roots[a[0]]
        cls = classify(root)
        want = sorted(d for d, k in cls.items() if k != "valid")
        try:
            signac.Project(root).check()
            got = []
        except signac.errors.JobsCorruptedError as e:
            got = sorted(e.job_ids)
        if got != want:
            out.append(("check-inexact", "check() names %s, damaged are %s" % ([g[:6] for g in got], [x[:6] for x in want])))
    if op in ("corrupt", "corrupt_other", "rename_dir", "repair", "restart"):
        for p, root in w.roots.items():
            cache = core.read_cache_file(root) or {}
            fresh = signac.Project(root)
            for d in job_dirs(root):
                try:
                    sp = fresh.open_job(id=d).statepoint()
                    if core.my_id(sp) != d:
                        out.append(("accepts-wrong-statepoint", "fresh session: open_job(id=%s).statepoint() returns a state point hashing to %s" % (d[:6], core.my_id(sp)[:6])))
                except Exception:  # noqa  (any refusal is fine; the property forbids only a wrong answer)
                    pass
    if op == "repair":
        pname = a[0]
        root = w.roots[pname]
        pre_root = {k[len(pname) + 1:]: v for k, v in pre.items() if k.startswith(pname + "/")}
        post_root = {k[len(pname) + 1:]: v for k, v in post.items() if k.startswith(pname + "/")}
        # frame: multiset of payloads unchanged
        def payloads(snap):
            acc = collections.Counter()
            for d in set(k.split("/")[1] for k in snap if k.startswith("workspace/") and k.count("/") >= 2):
                pl = payload(snap, "workspace/%s/" % d)
                if pl:      # a directory holding no document / data file has nothing repair() could change
                    acc[json.dumps(sorted((k, v.hex() if v is not None else None) for k, v in pl.items()))] += 1
            return acc
        if payloads(pre_root) != payloads(post_root):
            out.append(("repair-touched-data", "repair() changed a document or data file"))
        # restores: every job whose state point was recoverable is valid now
        st_pre = w.pre_spec
        if st_pre is not None:
            known = set(W.fdict(st_pre["mem"][pname])) | (set(W.fdict(st_pre["cacheF"][pname])) if st_pre["cacheEx"][pname] else set())
            for s, rec in W.fdict(st_pre["ws"][pname]).items():
                if s in known:
                    if not valid_raw(root, w.uni.id[s]):
                        out.append(("repair-did-not-restore", "job %s whose state point is in the cache is not valid after repair()" % w.uni.id[s][:6]))
        if res == "ok":
            bad = [d for d in job_dirs(root) if not valid_raw(root, d)]
            if bad:
                out.append(("repair-ok-but-damaged", "repair() returned normally but %s are still damaged" % [b[:6] for b in bad]))
    return out


JUDGES = {"C02": judge_c02, "C03": judge_c03, "C04": judge_c04, "C08": judge_c08, "C09": judge_c09}


# ======================================================================================================
# replay of one behaviour (list of spec states) into a fresh World
def replay_behaviour(uni, projects, states, judge, base, stop_on_mismatch=True):
    """-> dict(mismatch=(k, bad)|None, verdicts=[(k, sig, what)], steps=n)"""
    import logging
    logging.disable(logging.CRITICAL)
    w = World2(uni, projects, base=base)
    try:
        w.materialise(states[0])
        mismatch, verdicts = None, []
        for k, st in enumerate(states[1:]):
            pre = core.snapshot(w.base)
            w.pre_handles = {x: {"id": j.id, "proj": os.path.basename(j.project.path)} for x, j in w.h.items()}
            w.pre_spec = states[k]
            w.pre_stat = {key: _stat(os.path.join(w.base, key)) for key in pre if key.endswith(W.SP_FILE)}
            w.is_last = k == len(states) - 2
            res, val = w.do(st["last"])
            post = core.snapshot(w.base)
            bad = W.compare(st, w, res, val, projects)      # before the judge: judging may touch lazy state on the last step
            w.step_conformant = not bad
            if judge:
                with observer_isolation():
                    for sig, what in judge(w, st, pre, post, res, val):
                        verdicts.append((k, sig, what))
            if bad:
                mismatch = (k, bad)
                if stop_on_mismatch:
                    break
        return {"mismatch": mismatch, "verdicts": verdicts, "steps": len(states) - 1}
    finally:
        w.close()


class observer_isolation:
    """The judges observe through fresh Project/Job objects in the same interpreter. Creating state point
    dicts adds entries to the dependency's class-level lock table, which is hidden state of the system under
    test (DEVIATION D3); save and restore it so that observing does not change the behaviour observed."""
    def __enter__(self):
        from signac.job import _StatePointDict
        self.cls = _StatePointDict
        self.saved = dict(_StatePointDict._locks)
    def __exit__(self, *a):
        self.cls._locks.clear()
        self.cls._locks.update(self.saved)


class World2(W.World):
    """World + bookkeeping the judges need (copy relation, pre-state of handles)"""
    def __init__(self, *a, **k):
        super().__init__(*a, **k)
        self.root, self.early_copies = {}, set()
        self.pre_handles, self.pre_spec, self.pre_stat = {}, None, {}
        self.alias_bug = None
        self.is_last = False
        self.grp = {}            # handle -> group of handles sharing one state point dict (as the code builds them)
        self.taint = set()       # known deviations observed to fire in this behaviour (used when no model state is at hand)
        self.step_conformant = True

    def do(self, last):
        op, a = last["op"], last["args"]
        if op == "copy" and a[0] in self.h:
            early = getattr(self.h[a[0]], "_statepoint_requires_init", False)
        legit_keyerror = False
        if op == "update_sp" and a[0] in self.h and not a[3]:
            cur = _handle_desc(self.h[a[0]])["sp"] or {}
            path = self.uni.kmap[a[1]]
            node = cur
            for part in path:
                node = node.get(part, None) if isinstance(node, dict) else None
            legit_keyerror = node is not None and not W._type_exact(node, self.uni.vmap[a[2]])
            present = isinstance(cur, dict) and path[0] in cur and (len(path) == 1 or (isinstance(cur[path[0]], dict) and path[-1] in cur[path[0]]))
            # the code compares with != (Python equality): a present key whose value differs must be refused
            self.expect_update_conflict = bool(present and node != self.uni.vmap[a[2]])
        else:
            self.expect_update_conflict = False
        if op == "open_sp":
            # C02: the handle must be unaffected by later mutation of the caller's mapping
            arg = self.uni.real(a[2])
            try:
                job = self.proj[a[1]].open_job(arg)
            except Exception as e:  # noqa
                return type(e).__name__, frozenset()
            arg["__later__"] = 1
            for k_ in list(arg):
                if isinstance(arg[k_], dict):
                    arg[k_]["__later__"] = 1
                elif isinstance(arg[k_], list):
                    arg[k_].append("__later__")
            self.h[a[0]] = job
            self.root[a[0]] = a[0]
            if job.id != self.uni.id[a[2]] or not W._type_exact(dict(job.cached_statepoint), self.uni.real(a[2])):
                self.alias_bug = (job.id, dict(job.cached_statepoint))
            return "ok", frozenset()
        res, val = super().do(last)
        if op in ("open_sp", "open_id", "open_iter") and res == "ok":
            self.root[a[0]] = a[0]
        elif op == "copy" and res == "ok":
            self.root[a[1]] = self.root.get(a[0], a[0])
            self.grp[a[1]] = a[1] if early else self.grp.get(a[0], a[0])
            if early:
                self.early_copies.add(a[1])
        elif op == "clone" and res == "ok":
            self.root[a[2]] = a[2]
            self.grp[a[2]] = a[2]
        elif op == "move" and res == "ok":
            self.grp[a[0]] = a[0] + "'"
        elif op == "restart":
            self.root, self.early_copies, self.grp = {}, set(), {}
        if op in ("open_sp", "open_id", "open_iter") and res == "ok":
            self.grp[a[0]] = a[0]
        # DEVIATION D3 observed: a whole assignment answered KeyError (it never legitimately does) - the rejected value now
        # sits in that handle's memory
        if res == "KeyError" and (op in ("assign", "sp_clear") or (op == "update_sp" and not legit_keyerror)):
            self.taint.add("D3-leak")
        return res, val


_G = {}


def _edge_worker(chunk):
    nodes, parent, uni, projects, judge, base = (_G[k] for k in ("nodes", "parent", "uni", "projects", "judge", "base"))
    out = []
    for (u, v) in chunk:
        path = []
        n = u
        while n is not None:
            path.append(n)
            n = parent[n]
        path = path[::-1] + [v]
        r = replay_behaviour(uni, projects, [nodes[n] for n in path], judge, base)
        on_edge = r["mismatch"] is not None and r["mismatch"][0] == len(path) - 2
        verd = [x for x in r["verdicts"] if x[0] == len(path) - 2]      # only the edge under test (prefix edges are tested on their own)
        out.append((len(path) - 1, r["mismatch"] if on_edge else None, verd, W._script(nodes, path) if (on_edge or verd or len(out) < 2) else None,
                    (nodes[v]["last"]["op"], nodes[v]["last"]["res"])))
    return out


def _beh_worker(args):
    states, = args
    uni, projects, judge, base = (_G[k] for k in ("uni", "projects", "judge", "base"))
    r = replay_behaviour(uni, projects, states, judge, base)
    script = W.script_of(states)
    return r, script


# ======================================================================================================
class Config:
    def __init__(self, name, ops, depth, spelling="int", projects=("P",), handles=("h1", "h2"), init_jobs=0, init_cache=(False,),
                 docvals=("d1",), files=("f1",), fvals=("c1",), invariants=(), properties=(), strict=(), limit=None,
                 sim_num=0, sim_depth=30):
        self.__dict__.update(locals())


def _setup(ctx, cfg):
    import zlib
    rnd = random.Random(ctx.seed ^ zlib.crc32(cfg.name.encode()))
    uni = W.Universe(spelling=cfg.spelling)
    init_jobs = uni.order[:cfg.init_jobs] if isinstance(cfg.init_jobs, int) else cfg.init_jobs
    mc = W.write_mc(ctx, uni, cfg.ops, cfg.name, init_jobs=init_jobs, init_cache=cfg.init_cache)
    work = os.path.dirname(mc)
    mk = lambda depth, inv=(), props=(), view=False: W.mc_cfg(uni, cfg.projects, cfg.handles, cfg.docvals, cfg.files, cfg.fvals, depth, inv, props, view)
    return rnd, uni, mc, work, mk


def _tlc_phase(ctx, cfg, workers):
    """all TLC runs of one configuration (they only need the spec); run for several configurations at once"""
    rnd, uni, mc, work, mk = _setup(ctx, cfg)
    pre = {}
    if cfg.depth:
        pre["main"] = tlc.run(mc, cfg_text=mk(cfg.depth, cfg.invariants, cfg.properties), workdir=work, dump=os.path.join(work, "g.dot"), coverage=True, workers=workers)
        for kind, prop in cfg.strict:
            pre[("strict", prop)] = tlc.run(mc, cfg_text=mk(cfg.depth, (prop,) if kind == "invariants" else (), (prop,) if kind == "properties" else (), view=False),
                                            workdir=work, coverage=False, workers=workers)
    if cfg.sim_num:
        simdir = os.path.join(work, "sim")
        os.makedirs(simdir, exist_ok=True)
        pre["sim"] = tlc.run(mc, cfg_text=mk(10**6, cfg.invariants, cfg.properties), workdir=work, simulate="file=%s/tr,num=%d" % (simdir, cfg.sim_num),
                             depth=cfg.sim_depth, seed=rnd.randrange(10**6), workers=1, coverage=False)
    return pre


def run_configs(ctx, pid, cfgs):
    """TLC for all configurations concurrently (TLC subprocesses only), then the replays one configuration at a time"""
    from concurrent.futures import ThreadPoolExecutor
    with ThreadPoolExecutor(max_workers=4) as ex:
        pres = list(ex.map(lambda c: _tlc_phase(ctx, c, 5), cfgs))
    for c, pre in zip(cfgs, pres):
        run_config(ctx, pid, c, pre)


def run_config(ctx, pid, cfg, pre=None):
    """TLC (requirements + graph dump) and edge-cover / simulate replay for one configuration."""
    if pre is None:
        pre = _tlc_phase(ctx, cfg, 16)
    rnd, uni, mc, work, mk = _setup(ctx, cfg)
    judge = JUDGES[pid]
    if cfg.depth:
        dot = os.path.join(work, "g.dot")
        # (1) conformant model + the requirements expected to hold, with the labelled graph
        r = pre["main"]
        ctx.add_tlc("%s: %s depth %d" % (pid, cfg.name, cfg.depth - 1), r)
        if r.violation:
            _requirement_violation(ctx, pid, cfg, uni, r, judge)
        else:
            nodes, edges, parent, init = W.load_graph(dot)
            total = len(edges)
            if cfg.limit and len(edges) > cfg.limit:
                edges = _stratified(nodes, edges, cfg.limit, rnd)
            _G.update(nodes=nodes, parent=parent, uni=uni, projects=cfg.projects, judge=judge, base=ctx.work)
            nchunks = 64
            flat = [x for ch in core.pmap(_edge_worker, [edges[i::nchunks] for i in range(nchunks) if edges[i::nchunks]], procs=16, chunks=1) for x in ch]
            _account(ctx, pid, cfg, flat, total, len(nodes))
            os.remove(dot)
            _G.clear()
        # (2) strict requirements the conformant model is expected to violate where the code does
        for kind, prop in cfg.strict:
            r2 = pre[("strict", prop)]
            ctx.add_tlc("%s: %s strict %s" % (pid, cfg.name, prop), r2)
            if r2.violation:
                _requirement_violation(ctx, pid, cfg, uni, r2, judge)
    if cfg.sim_num:
        simdir = os.path.join(work, "sim")
        r3 = pre["sim"]
        if r3.violation:
            _requirement_violation(ctx, pid, cfg, uni, r3, judge)
        behs = []
        for f in sorted(os.listdir(simdir)):
            sts = [s for _, s in tlaparse.parse_sim_file(os.path.join(simdir, f))]
            if len(sts) > 1:
                behs.append((sts,))
        _G.update(uni=uni, projects=cfg.projects, judge=judge, base=ctx.work)
        outs = core.pmap(_beh_worker, behs, procs=16, chunks=1)
        _G.clear()
        nstates = sum(len(b[0]) for b in behs)
        ctx.cov["states"] += nstates
        ctx.cov["transitions"] += nstates - len(behs)
        ctx.cov["tlc_runs"].append({"run": "%s: %s simulate" % (pid, cfg.name), "behaviours": len(behs), "depth": cfg.sim_depth, "wall_s": round(r3.wall, 1)})
        for (r, script) in outs:
            ctx.count(("sim", cfg.name, len(script), script[-1]["op"] if script else ""), n=r["steps"], traces=1)
            _report(ctx, pid, cfg, r["mismatch"], r["verdicts"], script)
        shutil.rmtree(simdir, ignore_errors=True)
        if outs:
            ctx.sample({"config": cfg.name, "kind": "simulated behaviour", "script": outs[0][1][:12]})


def _stratified(nodes, edges, limit, rnd):
    """a seeded sample of `limit` edges that keeps rare situations: edges are grouped by (operation, outcome, shape of the
    pre-state: number of directories per project, which of them lack a state point / are empty, taint, whether the disk changes)
    and every group contributes at least a minimum before the rest is filled uniformly"""
    groups = collections.defaultdict(list)
    for (u, v) in edges:
        a, b = nodes[u], nodes[v]
        shape = tuple(sorted((p, len(W.fdict(w_)), sum(1 for r in W.fdict(w_).values() if r["spk"] != "ok"),
                              sum(1 for r in W.fdict(w_).values() if r["doc"] == "nodoc" and not W.fdict(r["files"])))
                             for p, w_ in a["ws"].items()))
        key = (b["last"]["op"], b["last"]["res"], shape, tuple(sorted(a.get("tainted", ()))), a["ws"] != b["ws"],
               sum(1 for hh in a["h"].values() if hh["live"]))
        groups[key].append((u, v))
    per = max(8, limit // (2 * max(1, len(groups))))
    chosen, rest = [], []
    for key in sorted(groups, key=repr):
        g = groups[key]
        rnd.shuffle(g)
        chosen += g[:per]
        rest += g[per:]
    if len(chosen) < limit:
        chosen += rnd.sample(rest, min(len(rest), limit - len(chosen)))
    return chosen[:max(limit, len(chosen))] if len(chosen) <= limit * 2 else rnd.sample(chosen, limit * 2)


def _account(ctx, pid, cfg, flat, total, nnodes):
    ops = collections.Counter()
    for (n, mismatch, verd, script, (op, res)) in flat:
        ctx.count(("edge", cfg.name, op, res), n=1, traces=1)
        ops[(op, res)] += 1
        _report(ctx, pid, cfg, mismatch, verd, script)
    ctx.cov.setdefault("edge_cover", []).append({"config": cfg.name, "edges_in_graph": total, "edges_replayed": len(flat), "states": nnodes,
                                                 "exhaustive": len(flat) == total, "distinct_op_outcomes": len(ops)})
    ex = sorted((s for (_, m, v, s, _) in flat if s and not m and not v), key=lambda sc: -len(sc))
    if ex:
        ctx.sample({"config": cfg.name, "kind": "edge of the TLC state graph replayed from the initial state", "script": ex[0]})


def _report(ctx, pid, cfg, mismatch, verdicts, script):
    for (k, sig, what) in verdicts:
        ctx.violation(sig, what, {"config": cfg.name, "spelling": cfg.spelling, "projects": list(cfg.projects), "init": getattr(script, "init", None), "script": list(script) if script is not None else None, "step": k})
    if mismatch:
        k, bad = mismatch
        kinds = sorted(set(b[0] for b in bad))
        op = script[k]["op"] if script and k < len(script) else "?"
        desc = "config %s step %d (%s): %s" % (cfg.name, k, op, str(bad)[:500])
        if pid == "C03" and any(kd in ("ws", "cache", "strays", "litter") for kd in kinds):
            ctx.violation("diverges-from-model:%s:%s" % (op, "+".join(kd for kd in kinds if kd in ("ws", "cache", "strays", "litter"))),
                          "the workspace on disk differs from the model after %s: %s" % (op, str([b for b in bad if b[0] in ("ws", "cache", "strays", "litter")])[:600]),
                          {"config": cfg.name, "spelling": cfg.spelling, "projects": list(cfg.projects), "init": getattr(script, "init", None), "script": list(script) if script is not None else None, "step": k})
        else:
            ctx.spec_drift(desc + " script=" + json.dumps([[x["op"], x["args"], x["res"]] for x in (script or [])[:k + 1]]))


def _requirement_violation(ctx, pid, cfg, uni, r, judge):
    """TLC found a requirement violated on the conformant model: reproduce on the real code, report what the judge sees."""
    trace = [s for _, s in r.violation["trace"]]
    name = r.violation["name"]
    if len(trace) < 2:
        raise core.MachineryError("TLC reported %s without a usable trace:\n%s" % (name, r.stdout[-2000:]))
    out = replay_behaviour(uni, cfg.projects, trace, judge, ctx.work)
    script = W.script_of(trace)
    ctx.count(("tlc-counterexample", name), n=len(script), traces=1)
    ctx.cov.setdefault("tlc_requirement_violations", []).append({"requirement": name, "config": cfg.name, "script": script, "real_verdicts": [v[1] for v in out["verdicts"]],
                                                                 "conformant": out["mismatch"] is None})
    if out["verdicts"]:
        _report(ctx, pid, cfg, out["mismatch"], out["verdicts"], script)
    elif out["mismatch"] is None:
        # the real code follows the model into the state TLC objects to, but no stated post-condition is observably false
        ctx.notes.append("requirement %s is violated on the model (script %s) and the code follows the model, but the judge sees no stated post-condition false" % (name, script))
        _report(ctx, pid, cfg, None, [(len(script) - 1, "requirement:" + name, "TLC: requirement %s violated on the conformant model; the real execution follows the model step by step" % name)], script)
    else:
        _report(ctx, pid, cfg, out["mismatch"], [], script)


def cli_front(ctx, pid):
    """the same property as a user of the command line meets it (spec/workspace/Cli.tla, harness/clifront.py)"""
    from . import clifront
    clifront.run(ctx, pid)


def replay_script(ctx, pid, data):
    """./check Cxx --replay file"""
    if data.get("front") == "cli":
        from . import clifront
        return clifront.replay_script(ctx, data)
    if data.get("front") == "context":
        from . import ctxfront
        return ctxfront.replay_script(ctx, data)
    uni = W.Universe(spelling=data.get("spelling", "int"))
    projects = tuple(data.get("projects", ["P"]))
    w = World2(uni, projects, base=ctx.work)
    try:
        if data.get("init"):
            w.materialise(W.init_thaw(data["init"]))
        for s in data["script"]:
            last = {"op": s["op"], "args": _thaw(s["args"]), "res": s["res"]}
            res, val = w.do(last)
            print("%-14s %-60s -> %s (model: %s)" % (s["op"], str(s["args"])[:60], res, s["res"]))
    finally:
        w.close()
    return 0


def _thaw(v):
    if isinstance(v, dict):
        return tlaparse.FrozenDict({k: _thaw(x) for k, x in v.items()})
    if isinstance(v, list):
        return tuple(_thaw(x) for x in v)
    return v


def selftest(ctx, pid):
    """Binding demonstration: a behaviour whose expected result / disk state is corrupted must be rejected,
    and the untouched behaviour accepted."""
    uni = W.Universe()
    a = uni.order[0]
    mk = lambda op, args, res, val=frozenset(): {"op": op, "args": args, "res": res, "val": val}
    empty = {"ws": {"P": ()}, "cacheEx": {"P": False}, "cacheF": {"P": ()}, "mem": {"P": ()}, "strays": {"P": frozenset()},
             "h": {}, "last": mk("start", (), "ok")}
    rec = tlaparse.FrozenDict(spk="ok", spv=a, doc="nodoc", files=())
    s1 = dict(empty, h={"h1": {"live": True, "id": a, "proj": "P"}}, last=mk("open_sp", ("h1", "P", a), "ok"))
    s2 = dict(s1, ws={"P": {a: rec}}, mem={"P": {a: a}}, last=mk("init", ("h1",), "ok"))
    good = replay_behaviour(uni, ("P",), [empty, s1, s2], None, ctx.work)
    s2bad = dict(s2, ws={"P": {a: tlaparse.FrozenDict(rec, doc="d1")}})
    bad1 = replay_behaviour(uni, ("P",), [empty, s1, s2bad], None, ctx.work)
    s2bad2 = dict(s2, last=mk("init", ("h1",), "JobsCorruptedError"))
    bad2 = replay_behaviour(uni, ("P",), [empty, s1, s2bad2], None, ctx.work)
    if good["mismatch"] is not None:
        # the tree under test does not even follow the two-step reference behaviour: that is a verdict about the tree
        # (reported like any other disagreement), not a failure of the machinery
        k, bad = good["mismatch"]
        script = [dict(op="open_sp", args=["h1", "P", dict(a)], res="ok"), dict(op="init", args=["h1"], res="ok")]
        _report(ctx, pid, Config("selftest", ["open_sp", "init"], 0), good["mismatch"], [], script)
        if pid in ("C02", "C03") and any(b[0] == "ws" for b in bad):
            ctx.violation("diverges-from-model:init:reference-behaviour", "open_job(sp).init() does not leave the state point file the model requires: %s" % (str(bad)[:400]),
                          {"config": "selftest", "spelling": "int", "projects": ["P"], "script": script, "step": k})
        return {"untouched_behaviour_accepted": False}
    if bad1["mismatch"] is None or bad2["mismatch"] is None:
        raise core.MachineryError("binding self-test failed: a corrupted behaviour was accepted: %s %s" % (bad1, bad2))
    return {"untouched_behaviour_accepted": True, "corrupted_disk_state_rejected": True, "corrupted_result_rejected": True}


# ======================================================================================================
# code -> spec: random executions of the real library, recorded and validated by TLC (WorkspaceTrace.tla)
def _enc_obs(w, uni, projects):
    obs = {}
    for p in projects:
        pr = W.project(w.roots[p], uni)
        if pr["litter"]:
            return None
        wsl = []
        for key, rec in sorted(pr["ws"].items(), key=lambda kv: str(kv[0])):
            if not isinstance(key, dict) or (rec["spk"] == "ok" and not isinstance(rec["spv"], dict)) or str(rec["doc"]).startswith("?"):
                return None
            wsl.append({"id": dict(key), "spk": rec["spk"], "spv": dict(rec["spv"]) if rec["spk"] == "ok" else dict(key), "doc": rec["doc"],
                        "files": sorted([n, t] for n, t in rec["files"].items())})
        cache = []
        if pr["cache"] is not None:
            for i, v in pr["cache"].items():
                if not isinstance(i, dict) or not isinstance(v, dict):
                    return None
                cache.append([dict(i), dict(v)])
        inv = {v(w.stray_base): k for k, v in W.STRAY_NAME.items()}
        if any(s_ not in inv for s_ in pr["strays"]):
            return None
        spc = getattr(w.proj[p], "_sp_cache", {})
        mem = [dict(uni.by_id[i]) for i in spc if i in uni.by_id]
        if len(mem) != len(spc):
            return None
        obs[p] = {"ws": wsl, "cacheEx": pr["cache"] is not None, "cache": cache, "mem": mem, "strays": sorted(inv[s_] for s_ in pr["strays"])}
    return obs


def _random_trace(args):
    """independent random driver (knows nothing of the spec except the op vocabulary and obvious preconditions)"""
    seed, length, ops, spelling, keys, vals, projects, handles, base, pid = args
    import logging
    logging.disable(logging.CRITICAL)
    rnd = random.Random(seed)
    uni = W.Universe(keys=keys, vals=vals, spelling=spelling)
    judge = JUDGES[pid]
    w = World2(uni, projects, base=base)
    any_sp = dict(uni.sps[0])
    ev, verdicts = [], []
    try:
        for k in range(length):
            live = sorted(w.h)
            dead = [x for x in handles if x not in w.h]
            dirs = {p: [uni.by_id[d] for d in job_dirs(w.roots[p]) if d in uni.by_id] for p in projects}
            cand = []
            for op in ops:
                if op in ("open_sp", "open_id") and dead:
                    cand.append(op)
                elif op == "open_iter" and dead and any(dirs.values()):
                    cand.append(op)
                elif op in ("init", "readsp", "remove", "setkey", "assign", "update_sp", "docset", "clear", "reset", "sp_pop", "sp_setdefault", "sp_update", "sp_clear") and live:
                    cand += [op] * (2 if op in ("setkey", "init", "docset") else 1)
                elif op == "writefile" and any(os.path.isdir(w.h[x].path) for x in live):
                    cand.append(op)
                elif op == "move" and len(projects) > 1 and live:
                    cand.append(op)
                elif op in ("clone", "copy") and live and dead:
                    cand.append(op)
                elif op in ("update_cache", "restart", "check", "repair"):
                    cand.append(op)
                elif op == "delete_cache" and any(os.path.exists(os.path.join(r, ".signac", "statepoint_cache.json.gz")) for r in w.roots.values()):
                    cand.append(op)
                elif op == "stray":
                    cand.append(op)
                elif op in ("corrupt", "corrupt_other", "rename_dir") and any(dirs.values()):
                    cand.append(op)
            op = rnd.choice(cand)
            P = rnd.choice(projects)
            sp = rnd.choice(uni.sps)
            if op == "open_sp":
                a = (rnd.choice(dead), P, sp)
            elif op == "open_id":
                pool = dirs[P] * 3 + [sp]
                a = (rnd.choice(dead), P, rnd.choice(pool))
            elif op == "open_iter":
                P = rnd.choice([p for p in projects if dirs[p]])
                a = (rnd.choice(dead), P, rnd.choice(dirs[P]))
            elif op in ("init", "readsp", "remove", "clear", "reset"):
                a = (rnd.choice(live),)
            elif op == "setkey":
                a = (rnd.choice(live), rnd.choice(keys), rnd.choice(list(vals) + [W.ABSENT]))
            elif op == "sp_pop":
                a = (rnd.choice(live), rnd.choice(keys))
            elif op == "sp_setdefault":
                a = (rnd.choice(live), rnd.choice(keys), rnd.choice(vals))
            elif op == "sp_update":
                a = (rnd.choice(live), tlaparse.FrozenDict({k_: rnd.choice(list(vals) + [W.ABSENT, W.ABSENT]) for k_ in keys}))
            elif op == "sp_clear":
                a = (rnd.choice(live),)
            elif op == "assign":
                a = (rnd.choice(live), sp)
            elif op == "update_sp":
                a = (rnd.choice(live), rnd.choice(keys), rnd.choice(vals), rnd.random() < 0.5)
            elif op == "docset":
                a = (rnd.choice(live), rnd.choice(["d1", "d2"]))
            elif op == "writefile":
                a = (rnd.choice([x for x in live if os.path.isdir(w.h[x].path)]), rnd.choice(["f1", "f2"]), rnd.choice(["c1", "c2"]))
            elif op == "move":
                x = rnd.choice(live)
                others = [q for q in projects if q != os.path.basename(w.h[x].project.path)]
                grp = [y for y in live if y != x and w.root.get(y) == w.root.get(x)]
                if not others or grp:
                    continue
                a = (x, rnd.choice(others))
            elif op == "clone":
                a = (rnd.choice(live), P, rnd.choice(dead))
            elif op == "copy":
                a = (rnd.choice(live), rnd.choice(dead))
            elif op in ("update_cache", "check", "repair"):
                a = (P,)
            elif op == "delete_cache":
                P = rnd.choice([p for p, r in w.roots.items() if os.path.exists(os.path.join(r, ".signac", "statepoint_cache.json.gz"))])
                a = (P,)
            elif op == "restart":
                a = ()
            elif op == "stray":
                kinds = [k_ for k_ in W.STRAY_NAME if not os.path.exists(os.path.join(w.roots[P], "workspace", W.STRAY_NAME[k_](w.stray_base)))]
                if not kinds:
                    continue
                a = (P, rnd.choice(kinds))
            elif op == "corrupt":
                P = rnd.choice([p for p in projects if dirs[p]])
                i = rnd.choice(dirs[P])
                kind = rnd.choice(["missing", "garbage"])
                cur = read_sp(w.roots[P], uni.id[i])[0]
                if cur == "missing" or (cur == "garbage" and kind == "garbage"):
                    continue
                a = (P, i, kind)
            elif op == "corrupt_other":
                P = rnd.choice([p for p in projects if dirs[p]])
                i = rnd.choice(dirs[P])
                k_, v_ = read_sp(w.roots[P], uni.id[i])
                if sp == i or (k_ == "ok" and uni.abstract(v_) == sp):
                    continue
                a = (P, i, sp)
            elif op == "rename_dir":
                P = rnd.choice([p for p in projects if dirs[p]])
                i = rnd.choice(dirs[P])
                if sp in dirs[P]:
                    continue
                a = (P, i, sp)
            last = {"op": op, "args": a}
            pre = core.snapshot(w.base)
            w.pre_handles = {x: {"id": j.id, "proj": os.path.basename(j.project.path)} for x, j in w.h.items()}
            w.pre_stat = {key: _stat(os.path.join(w.base, key)) for key in pre if key.endswith(W.SP_FILE)}
            w.is_last = False
            res, val = w.do(last)
            post = core.snapshot(w.base)
            obs = _enc_obs(w, uni, projects)
            hid, hlive, hproj = {}, {}, {}
            for x in handles:
                j = w.h.get(x)
                hlive[x] = j is not None
                hid[x] = dict(uni.by_id.get(j.id, uni.sps[0])) if j is not None else any_sp
                hproj[x] = os.path.basename(j.project.path) if j is not None else projects[0]
                if j is not None and j.id not in uni.by_id:
                    obs = None
            enc_val = [dict(v) if isinstance(v, dict) else None for v in val]
            if obs is None or None in enc_val:
                verdicts.append((k, "outside-universe", "the real execution left the value universe (temp files, foreign state point or id) after %s %s" % (op, a)))
                break
            ev.append({"op": op, "args": W._plain(a), "res": res, "val": enc_val, "obs": obs, "hid": hid, "hlive": hlive, "hproj": hproj})
            # the property's post-conditions on the real execution (model-free judges only: no spec state here)
            if pid in ("C04", "C08"):
                with observer_isolation():
                    for sig, what in JUDGES[pid](w, {"last": {"op": op, "args": a}, "ws": {}, "tainted": ()}, pre, post, res, val):
                        verdicts.append((k, sig, what))
        return {"ev": ev}, verdicts
    finally:
        w.close()


def run_recorded(ctx, pid, name, n, length, ops, spelling="wide", keys=("a", "b", "c"), vals=("i0", "i1", "i2"), projects=("P", "Q"), handles=("h1", "h2", "h3")):
    """n random real executions of `length` operations, validated in one TLC run."""
    import zlib
    uni = W.Universe(keys=keys, vals=vals, spelling=spelling)
    seeds = [(ctx.seed * 1000003 + zlib.crc32(name.encode()) + i, length, ops, spelling, keys, vals, projects, handles, ctx.work, pid) for i in range(n)]
    outs = core.pmap(_random_trace, seeds, procs=16, chunks=1)
    d = os.path.join(ctx.work, "trace_" + name)
    os.makedirs(d, exist_ok=True)
    shutil.copy(os.path.join(tlc.SPEC_ROOT, "workspace", "Workspace.tla"), d)
    shutil.copy(os.path.join(tlc.SPEC_ROOT, "workspace", "WorkspaceTrace.tla"), d)
    order = "<<" + ", ".join(uni.tla_sp(s) for s in uni.order) + ">>"
    with open(os.path.join(d, "TR.tla"), "w") as f:
        f.write("---- MODULE TR ----\nEXTENDS WorkspaceTrace\nIdOrderDef == %s\nOpsDef == {}\nInitJobsDef == {}\nInitCacheDef == {FALSE}\n====\n" % order)
    fn = os.path.join(d, "traces.ndjson")
    # binding self-test: copies of the first trace with one recorded field corrupted / one event dropped must be rejected there
    probes = []
    base_tr = next((tr for tr, _ in outs if len(tr["ev"]) >= 6), None)
    if base_tr is not None:
        m = len(base_tr["ev"]) // 2
        t1 = copy.deepcopy(base_tr)
        t1["ev"][m]["res"] = "ok" if t1["ev"][m]["res"] != "ok" else "KeyError"
        probes = [(t1, m, "result")]
        cands = [i for i, e in enumerate(base_tr["ev"]) if e["op"] in ("init", "setkey", "assign", "docset", "remove", "reset", "move", "clone", "corrupt", "rename_dir")
                 and e["res"] == "ok" and i > 0 and e["obs"] != base_tr["ev"][i - 1]["obs"]]
        for k2 in cands[:4]:
            t2 = copy.deepcopy(base_tr)
            del t2["ev"][k2]
            probes.append((t2, k2, "drop"))
    with open(fn, "w") as f:
        for tr, _ in outs:
            f.write(json.dumps(tr) + "\n")
        for tr, _, _ in probes:
            f.write(json.dumps(tr) + "\n")
    consts = {"Projects": tlc.lit(set(projects)), "Keys": tlc.lit(set(keys)), "Vals": tlc.lit(set(vals)), "Handles": tlc.lit(set(handles)),
              "DocVals": tlc.lit({"d1", "d2"}), "FileNames": tlc.lit({"f1", "f2"}), "FVals": tlc.lit({"c1", "c2"}), "MaxDepth": 10**6,
              "IdOrder": "<- IdOrderDef", "Ops": "<- OpsDef", "InitJobs": "<- InitJobsDef", "InitCache": "<- InitCacheDef",
              "FixedD3": tlc.lit(W.probe_d3()), "FixedD4": tlc.lit(W.probe_d4()), "FixedD7": tlc.lit(W.probe_d7())}
    cfg = tlc.cfg(consts, init="TrInit", next="TrNext", constraints=["Track"], postcondition="Post",
                  invariants=["TraceHashInvX", "TraceCheckX"] if not set(ops) & {"corrupt", "corrupt_other", "rename_dir"} else [])
    r = tlc.run(os.path.join(d, "TR.tla"), cfg_text=cfg, workdir=d, workers=1, env={"TRACE_FILE": fn}, coverage=False, timeout=3600)
    ctx.add_tlc("%s: %s recorded executions validated" % (pid, name), r)
    if r.violation:
        tr_ = [s_ for _, s_ in r.violation["trace"]]
        script_ = [dict(op=s_["last"]["op"], args=W._plain(s_["last"]["args"]), res=s_["last"]["res"]) for s_ in tr_[1:]]
        ctx.violation("recorded:" + r.violation["name"], "a recorded real execution, accepted by the model step by step, reaches a state violating %s" % r.violation["name"],
                      {"config": name, "spelling": spelling, "keys": list(keys), "vals": list(vals), "projects": list(projects), "script": script_, "step": len(script_) - 1})
        return 0
    import re as _re
    rejected = {}
    kinds = {}
    for m in _re.finditer(r'<<\s*"REJECTED",\s*(\d+),\s*"matched",\s*(\d+),\s*"of",\s*(\d+),\s*"kind",\s*"(\w+)"\s*>>', r.stdout):
        rejected[int(m.group(1))] = int(m.group(2))
        kinds[int(m.group(1))] = m.group(4)
    caught = {"result": 0, "drop": 0}
    for j, (tr, at, kind) in enumerate(probes):
        idx = len(outs) + 1 + j
        if idx in rejected and rejected[idx] <= at:
            caught[kind] += 1
        rejected.pop(idx, None)
    if probes and (caught["result"] == 0 or (any(k == "drop" for _, _, k in probes) and caught["drop"] == 0)):
        raise core.MachineryError("binding self-test failed: corrupted copies of a recorded trace were accepted (%s)" % caught)
    ctx.cov.setdefault("trace_binding_selftest", []).append({"name": name, "corrupted_result_rejected": caught["result"], "dropped_event_rejected": caught["drop"],
                                                             "probes": len(probes)})
    nev = 0
    for i, (tr, verdicts) in enumerate(outs, 1):
        nev += len(tr["ev"])
        script = [dict(op=e["op"], args=e["args"], res=e["res"]) for e in tr["ev"]]
        ctx.count(("recorded", name, len(script), script[-1]["op"] if script else ""), n=len(script), traces=1)
        for (k, sig, what) in verdicts:
            ctx.violation(sig, what, {"config": name, "spelling": spelling, "keys": list(keys), "vals": list(vals), "projects": list(projects), "script": script[:k + 1], "step": k})
        if i in rejected:
            m = rejected[i]
            e = tr["ev"][m] if m < len(tr["ev"]) else None
            if pid == "C03" and kinds.get(i) == "disk":
                ctx.violation("diverges-from-model:%s:recorded" % (e and e["op"]), "recorded real execution: after %s %s the files on disk / cache file differ from the model's state" % (e and e["op"], e and e["args"]),
                              {"config": name, "spelling": spelling, "keys": list(keys), "vals": list(vals), "projects": list(projects), "script": script[:m + 1], "step": m})
                continue
            ctx.spec_drift("[%s] recorded execution %s#%d: the specification explains %d of %d events; next event %s %s -> %s is not a step of the model; script=%s" % (
                kinds.get(i), name, i, m, len(tr["ev"]), e and e["op"], e and e["args"], e and e["res"], json.dumps([[x["op"], x["args"], x["res"]] for x in script[:m + 1]])))
    ctx.cov.setdefault("recorded_executions", []).append({"name": name, "traces": len(outs), "events": nev, "accepted": len(outs) - len(rejected), "rejected": len(rejected)})
    if outs and outs[0][0]["ev"]:
        ctx.sample({"kind": "recorded real execution (validated by TLC)", "first_events": [[e["op"], e["args"], e["res"]] for e in outs[0][0]["ev"][:8]]})
    return len(rejected)


# ======================================================================================================
# scale scenarios: code paths that only exist for large workspaces (chunked reading of >= 2000 state points, thread pools)
def large_workspace(ctx, pid, njobs=2103, extra=1507):
    """The model's post-conditions of update_cache / open-by-id / listing / check / repair evaluated on a workspace that is
    large enough for the chunked code paths (the bounded model never has more than a handful of jobs)."""
    import signac
    rnd = random.Random(ctx.seed + 77)
    root = ctx.mkdtemp("large")
    signac.init_project(root)
    wd = os.path.join(root, "workspace")
    truth = {}

    def add(k0, k1):
        for k in range(k0, k1):
            sp = {"i": k, "g": k % 7, "t": ["x", k % 3]} if k % 5 else {"i": k, "n": {"x": float(k)}}
            jid = core.my_id(sp)
            os.makedirs(os.path.join(wd, jid))
            with open(os.path.join(wd, jid, W.SP_FILE), "w") as f:
                json.dump(sp, f)
            truth[jid] = sp

    def cache_exact(tag):
        raw = core.read_cache_file(root)
        ok = raw is not None and raw.keys() == truth.keys() and all(W._type_exact(raw[k], truth[k]) for k in truth)
        ctx.count(("large", tag, len(truth)), traces=1)
        if pid == "C08" and not ok:
            wrong = [k for k in truth if raw is None or k not in raw or not W._type_exact(raw[k], truth[k])]
            extra_ = [k for k in (raw or {}) if k not in truth]
            ctx.violation("update-cache-not-exact:large-workspace", "%s: after update_cache() on %d jobs the cache file is wrong for %d ids, lists %d ids that do not exist (e.g. %s)" % (
                tag, len(truth), len(wrong), len(extra_), (wrong or extra_)[:1]), {"kind": "large-workspace", "step": tag, "njobs": len(truth)})
        return ok

    def session_view(tag):
        p = signac.Project(root)
        ids = sorted(j.id for j in p)
        if len(p) != len(truth) or ids != sorted(truth):
            ctx.violation("listing:large-workspace", "%s: a fresh session lists %d jobs, the workspace has %d" % (tag, len(ids), len(truth)), {"kind": "large-workspace", "step": tag})
        bad = 0
        for jid in rnd.sample(sorted(truth), 300):
            sp = p.open_job(id=jid).statepoint()
            if core.my_id(sp) != jid or not W._type_exact(sp, truth[jid]):
                bad += 1
        if bad:
            sig = {"C08": "cache-not-transparent:large-workspace", "C09": "accepts-wrong-statepoint:large-workspace"}.get(pid, "fresh-handle-sp:large-workspace")
            ctx.violation(sig, "%s: a fresh session returns a wrong state point for %d of 300 jobs opened by id" % (tag, bad), {"kind": "large-workspace", "step": tag})
        for k in rnd.sample(range(njobs), 5):
            want = sorted(j for j, sp in truth.items() if sp.get("i") == k)
            got = sorted(j.id for j in signac.Project(root).find_jobs({"i": k}))
            if got != want and pid in ("C08", "C03"):
                ctx.violation("cache-not-transparent:large-workspace:query" if pid == "C08" else "listing:large-workspace:query",
                              "%s: find_jobs({'i': %d}) returns %s, expected %s" % (tag, k, [g[:6] for g in got], [w_[:6] for w_ in want]), {"kind": "large-workspace", "step": tag})
        ctx.count(("large-view", tag), traces=1)

    add(0, njobs)
    session_view("no-cache")
    r1 = signac.Project(root).update_cache()
    cache_exact("first-update")
    r2 = signac.Project(root).update_cache()
    if pid == "C08" and r2 is not None:
        ctx.violation("second-update-cache-not-noop:large-workspace", "a second update_cache() on %d jobs returned %r" % (len(truth), r2), {"kind": "large-workspace", "step": "second"})
    session_view("exact-cache")
    # stale cache: some jobs vanish, many more appear
    for jid in rnd.sample(sorted(truth), 40):
        shutil.rmtree(os.path.join(wd, jid))
        del truth[jid]
    add(njobs, njobs + extra)
    session_view("stale-cache")
    signac.Project(root).update_cache()
    cache_exact("update-of-stale")
    session_view("refreshed-cache")
    if pid == "C09":
        listing = [d for d in os.listdir(wd)]
        victims = sorted({listing[0], listing[len(listing) // 2], listing[-1], sorted(listing)[len(listing) * 3 // 4]})
        for n, v in enumerate(victims):
            fn = os.path.join(wd, v, W.SP_FILE)
            blob = open(fn, "rb").read()
            with open(fn, "wb") as f:
                f.write(blob[:-3] if n % 2 else blob.replace(b'"i": ', b'"i": 9', 1))
        try:
            signac.Project(root).check()
            got = []
        except signac.errors.JobsCorruptedError as e:
            got = sorted(e.job_ids)
        ctx.count(("large-check", len(truth)), traces=1)
        if got != victims:
            ctx.violation("check-inexact:large-workspace", "check() on %d jobs names %s, damaged are %s" % (len(truth), [g[:6] for g in got], [v[:6] for v in victims]),
                          {"kind": "large-workspace", "step": "check"})
        try:
            signac.Project(root).repair()
            rr = "ok"
        except signac.errors.JobsCorruptedError as e:
            rr = sorted(e.job_ids)
        still = [v for v in victims if not valid_raw(root, v)]
        if still or rr != "ok":
            ctx.violation("repair-did-not-restore:large-workspace", "with an exact cache file repair() on %d jobs left %s damaged (returned %s)" % (len(truth), [s[:6] for s in still], rr),
                          {"kind": "large-workspace", "step": "repair"})
    ctx.sample({"kind": "large workspace scenario", "jobs": len(truth), "steps": ["raw creation of %d jobs" % njobs, "update_cache", "second update_cache", "remove 40 / add %d" % extra, "update_cache", "fresh-session views"]})
    shutil.rmtree(root, ignore_errors=True)

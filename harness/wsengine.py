"""Binding between spec/workspace/Workspace.tla and the real library.

* Universe   : spec tokens <-> real values / ids (several "spellings" of the same abstract universe)
* World      : a sandbox with real projects and live handles; executes one spec operation (`last`)
* project()  : raw projection of a real project directory to the spec's abstract state (never through signac)
* replay     : every edge of TLC's state graph executed at least once from the initial state
"""
import collections
import copy
import gzip
import hashlib
import json
import os
import re
import shutil
import tempfile

from . import core, tlaparse, tlc
from .tlaparse import FrozenDict

ABSENT = "-"
SPELLINGS = {
    # name: (key spelling, value spelling)
    "int": ({"a": ("a",), "b": ("b",)}, {"i0": 0, "i1": 1}),
    "typed": ({"a": ("a",), "b": ("b",)}, {"i0": 1, "i1": 1.0}),
    "mixed": ({"a": ("key",), "b": ("ä",)}, {"i0": True, "i1": "1"}),
    "nested": ({"a": ("a",), "b": ("n", "x")}, {"i0": "s", "i1": [1, {"y": "z"}]}),
    # (None next to collection values is avoided here: the dependency ignores `None` when a whole-mapping
    #  assignment replaces a nested collection - reported separately as a C04 finding by a scripted scenario)
}
SPELLINGS["nullish"] = ({"a": ("a",), "b": ("opt",)}, {"i0": None, "i1": 0})     # JSON null as a value (scalars only)
SPELLINGS["wide"] = ({"a": ("a",), "b": ("n", "x"), "c": ("c",), "d": ("Ünï",)}, {"i0": 0, "i1": "x", "i2": [1, 2.5, {"k": None}]})
DOCS = {"d0": {}, "d1": {"x": 1}, "d2": {"x": 2.5, "n": {"y": [1, "two", None]}}}
FILES = {"f1": "data.txt", "f2": os.path.join("sub", "inner.bin")}
FVALS = {"c1": b"payload-one\n", "c2": b"\x00\x01payload-two" * 3}
SP_FILE, DOC_FILE = "signac_statepoint.json", "signac_job_document.json"
HEX32 = re.compile(r"[a-f0-9]{32}")


class Universe:
    def __init__(self, keys=("a", "b"), vals=("i0", "i1"), spelling="int"):
        self.keys, self.vals, self.spelling = tuple(keys), tuple(vals), spelling
        self.kmap, self.vmap = SPELLINGS[spelling]
        self.sps = [FrozenDict(zip(self.keys, combo)) for combo in _product([list(self.vals) + [ABSENT]] * len(self.keys))]
        self.id = {s: core.my_id(self.real(s)) for s in self.sps}
        self.by_id = {i: s for s, i in self.id.items()}
        self.order = sorted(self.sps, key=lambda s: self.id[s])
        self._by_json = {core.canon_json(self.real(s)): s for s in self.sps}

    def real(self, s):
        out = {}
        for k in self.keys:
            if s[k] == ABSENT:
                continue
            path = self.kmap[k]
            d = out
            for part in path[:-1]:
                d = d.setdefault(part, {})
            d[path[-1]] = copy.deepcopy(self.vmap[s[k]])
        return out

    def abstract(self, realsp):
        """spec state point of a real dict, type-exact; None if outside the universe"""
        try:
            key = core.canon_json(realsp)
        except TypeError:
            return None
        s = self._by_json.get(key)
        if s is not None and _type_exact(self.real(s), realsp):
            return s
        return None

    def tla_sp(self, s):
        return "[" + ", ".join('%s |-> "%s"' % (k, s[k]) for k in self.keys) + "]"


def _product(lists):
    if not lists:
        return [()]
    return [(x,) + rest for x in lists[0] for rest in _product(lists[1:])]


def _type_exact(a, b):
    from .jsonenc import type_exact_eq
    return type_exact_eq(a, b)


# ---- raw projection ------------------------------------------------------------------------------
def project(root, uni):
    """-> dict(ws={dirkey: rec}, cache=None|{idkey: spkey}, strays=set(names), litter=[paths])"""
    wdir = os.path.join(root, "workspace")
    ws, strays, litter = {}, set(), []
    for d in sorted(os.listdir(wdir)) if os.path.isdir(wdir) else []:
        p = os.path.join(wdir, d)
        if not (HEX32.fullmatch(d) and os.path.isdir(p)):
            strays.add(d)
            continue
        key = uni.by_id.get(d, "?" + d)
        rec = {"spk": "missing", "spv": None, "doc": "nodoc", "files": {}}
        for r, ds, fs in os.walk(p):
            for f in fs:
                full = os.path.join(r, f)
                rel = os.path.relpath(full, p)
                if rel == SP_FILE:
                    try:
                        with open(full, "rb") as fh:
                            v = json.loads(fh.read().decode())
                        a = uni.abstract(v) if isinstance(v, dict) else None
                        rec["spk"], rec["spv"] = ("ok", a if a is not None else "?" + json.dumps(v, sort_keys=True))
                    except ValueError:
                        rec["spk"] = "garbage"
                elif rel == DOC_FILE:
                    try:
                        with open(full, "rb") as fh:
                            dv = json.loads(fh.read().decode())
                        rec["doc"] = next((k for k, v in DOCS.items() if _type_exact(v, dv)), "?" + json.dumps(dv, sort_keys=True))
                    except ValueError:
                        rec["doc"] = "?garbage"
                else:
                    with open(full, "rb") as fh:
                        data = fh.read()
                    name = next((k for k, v in FILES.items() if v == rel), None)
                    tok = next((k for k, v in FVALS.items() if v == data), None)
                    if name and tok:
                        rec["files"][name] = tok
                    else:
                        litter.append(os.path.join(d, rel))
        ws[key] = rec
    cache = None
    fc = os.path.join(root, ".signac", "statepoint_cache.json.gz")
    if os.path.exists(fc):
        with gzip.open(fc, "rb") as f:
            raw = json.loads(f.read().decode())
        cache = {}
        for i, v in raw.items():
            a = uni.abstract(v) if isinstance(v, dict) else None
            cache[uni.by_id.get(i, "?" + i)] = a if a is not None else "?" + json.dumps(v, sort_keys=True)
    sig = os.path.join(root, ".signac")
    for f in sorted(os.listdir(sig)) if os.path.isdir(sig) else []:
        if f not in ("config", "statepoint_cache.json.gz"):
            litter.append(os.path.join(".signac", f))
    for f in sorted(os.listdir(root)):
        if f not in (".signac", "workspace", "signac_project_document.json"):
            litter.append(f)
    return {"ws": ws, "cache": cache, "strays": strays, "litter": litter}


def fdict(v):
    """a TLA+ function value as dict (the empty function prints as <<>>)"""
    return dict(v) if isinstance(v, dict) else {}


def spec_project(st, p, uni):
    ws = {}
    for s, rec in fdict(st["ws"][p]).items():
        ws[s] = {"spk": rec["spk"], "spv": rec["spv"] if rec["spk"] == "ok" else None, "doc": rec["doc"],
                 "files": fdict(rec["files"])}
    cache = fdict(st["cacheF"][p]) if st["cacheEx"][p] else None
    return {"ws": ws, "cache": cache, "strays": set(st["strays"][p])}


STRAY_NAME = {
    "id_backup": lambda base: base + "_backup",
    "hex31": lambda base: base[:31],
    "hex33": lambda base: base + "0",
    "upper": lambda base: base[:31].upper() + "A",
}


# ---- executing spec operations on the real library -------------------------------------------------
class World:
    def __init__(self, uni, projects=("P",), base=None):
        import signac
        self.signac = signac
        self.uni = uni
        self.base = tempfile.mkdtemp(prefix="ws-", dir=base)
        self.roots = {p: os.path.join(self.base, p) for p in projects}
        for r in self.roots.values():
            os.mkdir(r)
            signac.init_project(r)
        self.proj = {p: signac.Project(r) for p, r in self.roots.items()}
        self.h = {}
        self.stray_base = uni.id[uni.order[0]]

    def materialise(self, st):
        """write the (non-empty) initial state of a behaviour directly to disk, then start a fresh session"""
        uni = self.uni
        for p, root in self.roots.items():
            for s, rec in fdict(st["ws"][p]).items():
                d = os.path.join(root, "workspace", uni.id[s])
                os.makedirs(d)
                if rec["spk"] == "ok":
                    with open(os.path.join(d, SP_FILE), "w") as f:
                        json.dump(uni.real(rec["spv"]), f)
                if rec["doc"] != "nodoc":
                    with open(os.path.join(d, DOC_FILE), "w") as f:
                        json.dump(DOCS[rec["doc"]], f)
                for name, tok in fdict(rec["files"]).items():
                    fn = os.path.join(d, FILES[name])
                    os.makedirs(os.path.dirname(fn), exist_ok=True)
                    with open(fn, "wb") as f:
                        f.write(FVALS[tok])
            if st["cacheEx"][p]:
                with gzip.open(os.path.join(root, ".signac", "statepoint_cache.json.gz"), "wb") as f:
                    f.write(json.dumps({uni.id[i]: uni.real(v) for i, v in fdict(st["cacheF"][p]).items()}).encode())
        self.proj = {p: self.signac.Project(r) for p, r in self.roots.items()}

    def close(self):
        shutil.rmtree(self.base, ignore_errors=True)

    def jobdir(self, p, s):
        return os.path.join(self.roots[p], "workspace", self.uni.id[s])

    def _setkey(self, job, k, v):
        path = self.uni.kmap[k]
        if v == ABSENT:
            del job.sp[path[0]]
            return
        val = copy.deepcopy(self.uni.vmap[v])
        if len(path) == 1:
            job.sp[path[0]] = val
        elif path[0] in job.sp:
            node = job.sp[path[0]]
            for part in path[1:-1]:
                node = node[part]
            node[path[-1]] = val
        else:
            d = val
            for part in reversed(path[1:]):
                d = {part: d}
            job.sp[path[0]] = d

    def _setdefault(self, job, k, v):
        path = self.uni.kmap[k]
        val = copy.deepcopy(self.uni.vmap[v])
        if len(path) == 1:
            job.sp.setdefault(path[0], val)
        else:       # nested key: the spec's key is absent iff the whole sub-mapping is absent
            d = val
            for part in reversed(path[1:]):
                d = {part: d}
            job.sp.setdefault(path[0], d)

    def _update(self, job, upd):
        """job.sp.update({...}) with the top-level spelling of every mentioned key"""
        arg = {}
        for k in self.uni.keys:
            if upd[k] == ABSENT:
                continue
            path = self.uni.kmap[k]
            d = copy.deepcopy(self.uni.vmap[upd[k]])
            for part in reversed(path[1:]):
                d = {part: d}
            arg[path[0]] = d
        job.sp.update(arg)

    def do(self, last):
        """-> (result class name | 'ok' | 'written' | 'none', val set)"""
        op, a = last["op"], last["args"]
        uni = self.uni
        val = frozenset()
        try:
            if op == "open_sp":
                self.h[a[0]] = self.proj[a[1]].open_job(uni.real(a[2]))
            elif op == "open_id":
                self.h[a[0]] = self.proj[a[1]].open_job(id=uni.id[a[2]])
            elif op == "open_iter":
                got = [j for j in self.proj[a[1]] if j.id == uni.id[a[2]]]
                self.h[a[0]] = got[0]
            elif op == "init":
                self.h[a[0]].init()
            elif op == "readsp":
                v = self.h[a[0]].statepoint()
                s = uni.abstract(v)
                val = frozenset([s if s is not None else "?" + json.dumps(v, sort_keys=True)])
            elif op == "remove":
                self.h[a[0]].remove()
            elif op == "setkey":
                self._setkey(self.h[a[0]], a[1], a[2])
            elif op == "sp_pop":
                self.h[a[0]].sp.pop(uni.kmap[a[1]][0])
            elif op == "sp_setdefault":
                self._setdefault(self.h[a[0]], a[1], a[2])
            elif op == "sp_update":
                self._update(self.h[a[0]], a[1])
            elif op == "sp_clear":
                self.h[a[0]].sp.clear()
            elif op == "assign":
                arg = uni.real(a[1])
                self.h[a[0]].statepoint = arg
                _scribble(arg)          # the caller's mapping is the caller's: later changes to it must not matter
            elif op == "update_sp":
                path = uni.kmap[a[1]]
                upd = copy.deepcopy(uni.vmap[a[2]])
                if len(path) > 1:
                    # nested key: the update replaces the whole sub-mapping
                    cur = self.h[a[0]].statepoint().get(path[0], {})
                    d = dict(cur) if isinstance(cur, dict) else {}
                    d[path[-1]] = upd
                    upd = d
                arg = {path[0]: upd}
                self.h[a[0]].update_statepoint(arg, overwrite=bool(a[3]))
                _scribble(arg)
            elif op == "docset":
                self.h[a[0]].doc = copy.deepcopy(DOCS[a[1]])
            elif op == "writefile":
                fn = self.h[a[0]].fn(FILES[a[1]])
                os.makedirs(os.path.dirname(fn), exist_ok=True)
                with open(fn, "wb") as f:
                    f.write(FVALS[a[2]])
            elif op == "clear":
                self.h[a[0]].clear()
            elif op == "reset":
                self.h[a[0]].reset()
            elif op == "move":
                self.h[a[0]].move(self.proj[a[1]])
            elif op == "clone":
                self.h[a[2]] = self.proj[a[1]].clone(self.h[a[0]])
            elif op == "copy":
                self.h[a[1]] = copy.copy(self.h[a[0]])
            elif op == "update_cache":
                r = self.proj[a[0]].update_cache()
                return ("none" if r is None else "written"), val
            elif op == "delete_cache":
                os.remove(os.path.join(self.roots[a[0]], ".signac", "statepoint_cache.json.gz"))
            elif op == "restart":
                self.proj = {p: self.signac.Project(r) for p, r in self.roots.items()}
                self.h = {}
            elif op == "mkdir_empty":
                os.makedirs(self.jobdir(a[0], a[1]))
            elif op == "stray":
                os.mkdir(os.path.join(self.roots[a[0]], "workspace", STRAY_NAME[a[1]](self.stray_base)))
            elif op == "corrupt":
                fn = os.path.join(self.jobdir(a[0], a[1]), SP_FILE)
                if a[2] == "missing":
                    os.remove(fn)
                else:
                    with open(fn, "wb") as f:
                        f.write(b'{"a": ')
            elif op == "corrupt_other":
                with open(os.path.join(self.jobdir(a[0], a[1]), SP_FILE), "w") as f:
                    json.dump(uni.real(a[2]), f)
            elif op == "rename_dir":
                os.rename(self.jobdir(a[0], a[1]), self.jobdir(a[0], a[2]))
            elif op == "check":
                try:
                    self.proj[a[0]].check()
                except self.signac.errors.JobsCorruptedError as e:
                    return "JobsCorruptedError", frozenset(uni.by_id.get(i, "?" + i) for i in e.job_ids)
            elif op == "repair":
                with sorted_listdir():
                    try:
                        self.proj[a[0]].repair()
                    except self.signac.errors.JobsCorruptedError as e:
                        return "JobsCorruptedError", frozenset(uni.by_id.get(i, "?" + i) for i in e.job_ids)
            else:
                raise core.MachineryError("unknown op " + op)
            return "ok", val
        except core.MachineryError:
            raise
        except Exception as e:  # the library's answer
            return type(e).__name__, val

    def handle_view(self):
        return {x: (j.id, os.path.basename(j.project.path)) for x, j in self.h.items()}


def _scribble(d):
    """mutate a mapping that was handed to signac, the way a caller re-using its dict would"""
    for k in list(d):
        if isinstance(d[k], dict):
            d[k]["__later__"] = 1
        elif isinstance(d[k], list):
            d[k].append("__later__")
    d["__later__"] = 1


class sorted_listdir:
    """listing order is arbitrary on a real file system; the spec processes ids in real-id order"""
    def __enter__(self):
        self.orig = os.listdir
        orig = self.orig
        os.listdir = lambda *a, **k: sorted(orig(*a, **k))
    def __exit__(self, *a):
        os.listdir = self.orig


# ---- TLC side --------------------------------------------------------------------------------------
_D3 = []
_D3_LOCK = __import__("threading").Lock()


def probe_d3():
    """Is DEVIATION D3 (Workspace.tla) repaired on the tree under test?  Two independently opened handles of one job that both
    touched .sp; one re-keys; a whole assignment through the other must not fail on the dependency's lock table."""
    with _D3_LOCK:
        return _probe_d3()


_D4 = []


def probe_d4():
    """Is DEVIATION D4 repaired?  init() through a handle opened by id (state point not cached) whose job directory was removed
    meanwhile must fail without creating a directory."""
    with _D3_LOCK:
        if not _D4:
            import signac
            from signac.job import _StatePointDict
            saved = dict(getattr(_StatePointDict, "_locks", {}))
            d = tempfile.mkdtemp(prefix="d4probe-", dir=os.environ.get("VERIF_WORK") or ("/dev/shm" if os.path.isdir("/dev/shm") else None))
            try:
                j = signac.init_project(d).open_job({"a": 1}).init()
                h = signac.Project(d).open_job(id=j.id)
                shutil.rmtree(j.path)
                try:
                    h.init()
                except Exception:
                    pass
                _D4.append(not os.path.isdir(j.path))
            finally:
                shutil.rmtree(d, ignore_errors=True)
                if hasattr(_StatePointDict, "_locks"):
                    _StatePointDict._locks.clear()
                    _StatePointDict._locks.update(saved)
        return _D4[0]


_D7 = []


def probe_d7():
    """Is DEVIATION D7 repaired?  A re-key refused because the destination exists, of a job whose state point file was damaged
    meanwhile, must leave the handle with a state point that hashes to its id."""
    with _D3_LOCK:
        if not _D7:
            import signac
            from signac.job import _StatePointDict
            saved = dict(getattr(_StatePointDict, "_locks", {}))
            d = tempfile.mkdtemp(prefix="d7probe-", dir=os.environ.get("VERIF_WORK") or ("/dev/shm" if os.path.isdir("/dev/shm") else None))
            try:
                p = signac.init_project(d)
                a = p.open_job({"k": 1, "x": 1}).init()
                p.open_job({"x": 1}).init()
                h = p.open_job({"k": 1, "x": 1})
                h.sp
                with open(a.fn(SP_FILE), "w") as f:
                    f.write('{"a": ')
                try:
                    del h.sp["k"]
                except Exception:
                    pass
                try:
                    ok1 = core.my_id(h.statepoint()) == h.id
                except Exception:
                    ok1 = True
                # ... and the variant in which the file was replaced by another state point
                c = p.open_job({"k": 2, "x": 2}).init()
                p.open_job({"x": 2}).init()
                h2 = p.open_job({"k": 2, "x": 2})
                h2.sp
                with open(c.fn(SP_FILE), "w") as f:
                    f.write('{"k": 3, "x": 2}')
                try:
                    del h2.sp["k"]
                except Exception:
                    pass
                try:
                    ok2 = core.my_id(h2.statepoint()) == h2.id
                except Exception:
                    ok2 = True
                _D7.append(ok1 and ok2)
            finally:
                shutil.rmtree(d, ignore_errors=True)
                if hasattr(_StatePointDict, "_locks"):
                    _StatePointDict._locks.clear()
                    _StatePointDict._locks.update(saved)
        return _D7[0]


def _probe_d3():
    if not _D3:
        import signac
        from signac.job import _StatePointDict
        saved = dict(getattr(_StatePointDict, "_locks", {}))
        d = tempfile.mkdtemp(prefix="d3probe-", dir=os.environ.get("VERIF_WORK") or ("/dev/shm" if os.path.isdir("/dev/shm") else None))
        try:
            p = signac.init_project(d)
            a = p.open_job({"a": 1}).init()
            a.sp
            b = p.open_job({"a": 1})
            b.sp
            a.sp.a = 2
            try:
                b.statepoint = {"a": 3}
                _D3.append(True)
            except KeyError:
                _D3.append(False)
        finally:
            shutil.rmtree(d, ignore_errors=True)
            if hasattr(_StatePointDict, "_locks"):
                _StatePointDict._locks.clear()
                _StatePointDict._locks.update(saved)
    return _D3[0]


def mc_module(uni, ops, name="MC", init_jobs=(), init_cache=(False,)):
    order = "<<" + ", ".join(uni.tla_sp(s) for s in uni.order) + ">>"
    ij = "{" + ", ".join(uni.tla_sp(s) for s in init_jobs) + "}"
    ic = "{" + ", ".join("TRUE" if c else "FALSE" for c in init_cache) + "}"
    return ("---- MODULE %s ----\nEXTENDS Workspace\nIdOrderDef == %s\nOpsDef == %s\nInitJobsDef == %s\nInitCacheDef == %s\n====\n"
            % (name, order, tlc.lit(set(ops)), ij, ic))


def mc_cfg(uni, projects, handles, docvals, files, fvals, depth, invariants=(), properties=(), view=False):
    consts = {
        "Projects": tlc.lit(set(projects)), "Keys": tlc.lit(set(uni.keys)), "Vals": tlc.lit(set(uni.vals)),
        "Handles": tlc.lit(set(handles)), "DocVals": tlc.lit(set(docvals)), "FileNames": tlc.lit(set(files)),
        "FVals": tlc.lit(set(fvals)), "MaxDepth": depth, "IdOrder": "<- IdOrderDef", "Ops": "<- OpsDef",
        "InitJobs": "<- InitJobsDef", "InitCache": "<- InitCacheDef", "FixedD3": tlc.lit(probe_d3()), "FixedD4": tlc.lit(probe_d4()), "FixedD7": tlc.lit(probe_d7()),
    }
    return tlc.cfg(consts, invariants=invariants, properties=properties, constraints=["Depth"], view="View" if view else None)


def write_mc(ctx, uni, ops, tag, init_jobs=(), init_cache=(False,)):
    d = os.path.join(ctx.work, "mc_" + tag)
    os.makedirs(d, exist_ok=True)
    shutil.copy(os.path.join(tlc.SPEC_ROOT, "workspace", "Workspace.tla"), d)
    with open(os.path.join(d, "MC.tla"), "w") as f:
        f.write(mc_module(uni, ops, init_jobs=init_jobs, init_cache=init_cache))
    return os.path.join(d, "MC.tla")


# ---- edge-cover replay -------------------------------------------------------------------------------
_G = {}


def compare(step_state, world, res, val, projects):
    """-> list of mismatch descriptions (empty = conformant on this step)"""
    uni = world.uni
    bad = []
    exp = step_state["last"]
    if res != exp["res"]:
        bad.append(("result", exp["res"], res))
    if frozenset(val) != frozenset(exp["val"]):
        bad.append(("value", sorted(map(str, exp["val"])), sorted(map(str, val))))
    for p in projects:
        real = project(world.roots[p], uni)
        spec = spec_project(step_state, p, uni)
        if real["ws"] != spec["ws"]:
            bad.append(("ws", p, spec["ws"], real["ws"]))
        if real["cache"] != spec["cache"]:
            bad.append(("cache", p, spec["cache"], real["cache"]))
        want_strays = {STRAY_NAME[k](world.stray_base) for k in spec["strays"]}
        if real["strays"] != want_strays:
            bad.append(("strays", p, want_strays, real["strays"]))
        if real["litter"]:
            bad.append(("litter", p, real["litter"]))
        memk = getattr(world.proj[p], "_sp_cache", None)      # white-box aid for conformance only; absent after a refactoring -> skipped
        memk = set(memk) if memk is not None else None
        if memk is not None and memk != {uni.id[s] for s in fdict(step_state["mem"][p])}:
            bad.append(("mem", p, sorted(uni.id[s][:6] for s in fdict(step_state["mem"][p])), sorted(i[:6] for i in memk)))
    hv = world.handle_view()
    for x, hs in step_state["h"].items():
        if hs["live"]:
            if x not in hv or hv[x] != (uni.id[hs["id"]], hs["proj"]):
                bad.append(("handle", x, (uni.id[hs["id"]][:8], hs["proj"]), hv.get(x)))
        elif x in hv and step_state["last"]["op"] != "restart":
            pass
    return bad


class Script(list):
    """the operations of a behaviour; `.init` = its (non-empty) initial disk state, JSON-able, for replays"""
    init = None


def init_plain(st):
    pairs = lambda f: [[_plain(k), _plain(v)] for k, v in fdict(f).items()]
    if not any(fdict(f) for f in st["ws"].values()) and not any(st["cacheEx"].values()):
        return None
    return {"ws": {p: pairs(f) for p, f in st["ws"].items()}, "cacheEx": dict(st["cacheEx"]), "cacheF": {p: pairs(f) for p, f in st["cacheF"].items()}}


def init_thaw(d):
    def thaw(v):
        if isinstance(v, dict):
            return FrozenDict({k: thaw(x) for k, x in v.items()})
        if isinstance(v, list):
            return tuple(thaw(x) for x in v)
        return v
    fn = lambda pairs: FrozenDict({thaw(k): thaw(v) for k, v in pairs})
    return {"ws": {p: fn(x) for p, x in d["ws"].items()}, "cacheEx": d["cacheEx"], "cacheF": {p: fn(x) for p, x in d["cacheF"].items()}}


def script_of(states):
    s = Script(dict(op=st["last"]["op"], args=_plain(st["last"]["args"]), res=st["last"]["res"]) for st in states[1:])
    s.init = init_plain(states[0])
    return s


def _script(nodes, path):
    return script_of([nodes[n] for n in path])


def _plain(v):
    if isinstance(v, dict):
        return {k: _plain(x) for k, x in v.items()}
    if isinstance(v, (tuple, list)):
        return [_plain(x) for x in v]
    if isinstance(v, frozenset):
        return sorted((_plain(x) for x in v), key=str)
    return v


def _run_edges(chunk):
    """worker: replays a chunk of edges; returns list of (edge index, path script, mismatches, observations)"""
    import logging
    logging.disable(logging.CRITICAL)
    nodes, parent, uni, projects, judge, base = _G["nodes"], _G["parent"], _G["uni"], _G["projects"], _G["judge"], _G["base"]
    out = []
    for (u, v) in chunk:
        path = []
        n = u
        while n is not None:
            path.append(n)
            n = parent[n]
        path = path[::-1] + [v]
        w = World(uni, projects, base=base)
        try:
            w.materialise(nodes[path[0]])
            first_bad, verdicts = None, []
            for k, n in enumerate(path[1:]):
                st = nodes[n]
                pre = {p: project(w.roots[p], uni) for p in projects} if judge else None
                res, val = w.do(st["last"])
                bad = compare(st, w, res, val, projects)
                if judge:
                    verdicts += judge(w, st, pre, res, val, k == len(path) - 2)
                if bad:
                    first_bad = (k, bad)
                    break
            on_edge = first_bad is not None and first_bad[0] == len(path) - 2
            out.append((u, v, on_edge, first_bad[1] if first_bad else None, verdicts, _script(nodes, path) if (first_bad or verdicts) else None))
        finally:
            w.close()
    return out


def load_graph(dotfile):
    nodes, edges, inits = tlaparse.parse_dot(dotfile)
    inits = inits or [n for n, s in nodes.items() if s["last"]["op"] == "start"]
    init = inits[0]
    succ = collections.defaultdict(list)
    for u, v, _ in edges:
        succ[u].append(v)
    parent = {i: None for i in inits}
    q = collections.deque(inits)
    while q:
        u = q.popleft()
        for v in succ[u]:
            if v not in parent:
                parent[v] = u
                q.append(v)
    uniq = sorted(set((u, v) for u, v, _ in edges if u in parent))
    return nodes, uniq, parent, init


def replay_graph(ctx, dotfile, uni, projects, judge=None, limit=None, rnd=None, procs=16):
    """Replays every edge (or a seeded sample of `limit` edges). Returns (n_edges_total, results)."""
    nodes, edges, parent, init = load_graph(dotfile)
    total = len(edges)
    if limit is not None and len(edges) > limit:
        edges = rnd.sample(edges, limit)
    _G.update(nodes=nodes, parent=parent, uni=uni, projects=projects, judge=judge, base=ctx.work)
    chunks = [edges[i::procs * 4] for i in range(procs * 4)]
    res = core.pmap(_run_edges, [c for c in chunks if c], procs=procs, chunks=1)
    flat = [r for chunk in res for r in chunk]
    return total, len(nodes), flat

"""Translation layer shared by the C06 / C07 drivers (spec/query/*.tla  <->  Python / signac).

Nothing in here knows what a filter *means*: values and filters are translated between the
specification's tagged records and Python objects, corpora are materialised as real signac
projects, spelling descriptors are rendered mechanically, id sets are compared.
"""
import json
import os
import random
import re as _re

# ---- spec value <-> python ---------------------------------------------------------------


def _get(rec, k):
    return rec[k]


def uncps(a):
    return "".join(chr(c) for c in a)


def cps(s):
    return [ord(c) for c in s]


ABS = object()  # "key not present"


def val_to_py(v):
    """specification value (JSON-decoded dict or tlaparse FrozenDict) -> Python value"""
    t = v["t"]
    if t == "abs":
        return ABS
    if t == "null":
        return None
    if t == "bool":
        return bool(v["n"])
    if t == "int":
        return int(v["n"])
    if t == "flt":
        return float(v["n"]) / float(v["d"])
    if t == "str":
        return uncps(v["s"])
    if t == "list":
        return [val_to_py(x) for x in v["l"]]
    if t == "map":
        return {pr[0]: val_to_py(pr[1]) for pr in v["m"]}
    raise ValueError(t)


def py_to_val(x):
    """Python JSON value -> wire form of a specification value (floats must be small dyadic rationals)"""
    w = {"t": "abs", "n": 0, "d": 1, "s": [], "l": [], "m": []}
    if x is ABS:
        return w
    if x is None:
        w["t"] = "null"
    elif isinstance(x, bool):
        w["t"] = "bool"; w["n"] = int(x)
    elif isinstance(x, int):
        assert abs(x) < 2**20
        w["t"] = "int"; w["n"] = x
    elif isinstance(x, float):
        n, d = x.as_integer_ratio()
        assert abs(n) < 2**20 and d < 2**10, x
        w["t"] = "flt"; w["n"] = n; w["d"] = d
    elif isinstance(x, str):
        assert all(ord(c) < 128 for c in x)
        w["t"] = "str"; w["s"] = cps(x)
    elif isinstance(x, (list, tuple)):
        w["t"] = "list"; w["l"] = [py_to_val(y) for y in x]
    elif isinstance(x, dict):
        w["t"] = "map"; w["m"] = [[k, py_to_val(x[k])] for k in sorted(x)]
    else:
        raise TypeError(type(x))
    return w


def violating_state(r):
    """the state of a TLC invariant violation (also when it is an initial state, which TLC prints without a trace)"""
    from . import tlaparse
    if r.violation["trace"]:
        return r.violation["trace"][-1][1]
    m = _re.search(r"is violated by the initial state:\n(.*?)\n\s*\n", r.stdout, _re.S)
    if not m:
        raise ValueError("cannot find the violating state in TLC's output")
    return tlaparse.parse_state(m.group(1))


# ---- filters -------------------------------------------------------------------------------


def concrete(f):
    """filter AST -> the canonical Python spelling: explicit namespace, dotted key, operator as nested mapping"""
    tag = f["tag"]
    if tag == "all":
        return {}
    if tag == "atom":
        key = ".".join(f["path"])
        arg = val_to_py(f["arg"])
        return {key: arg} if f["op"] == "eq" else {key: {f["op"]: arg}}
    if tag == "not":
        return {"$not": concrete(f["kids"][0])}
    return {"$" + tag: [concrete(k) for k in f["kids"]]}


def filter_to_wire(f):
    """python-side filter AST (same field names, python values in 'arg') -> wire"""
    return {"tag": f["tag"], "path": list(f.get("path", [])), "op": f.get("op", ""),
            "arg": py_to_val(f["arg"]) if f["tag"] == "atom" else py_to_val(ABS),
            "kids": [filter_to_wire(k) for k in f.get("kids", [])]}


def ops_of(f, acc=None):
    """operator skeleton of a filter: used for distinct-case counting and violation signatures"""
    acc = set() if acc is None else acc
    if f["tag"] == "atom":
        acc.add(f["op"] + "@" + f["path"][0])
    else:
        acc.add("$" + f["tag"])
        for k in f["kids"]:
            ops_of(k, acc)
    return acc


def fsize(f):
    return 1 + sum(fsize(k) for k in f["kids"])


def shape_of(f):
    """deterministic, input-independent description of a filter's structure"""
    if f["tag"] == "atom":
        a = f["arg"]
        at = a["t"]
        if f["op"] == "$type":
            at = uncps(a["s"])
        elif f["op"] == "$exists":
            at = "true" if a["n"] else "false"
        return "%s:%s(%s)" % (f["path"][0], f["op"], at)
    if f["tag"] == "all":
        return "{}"
    return "$%s[%s]" % (f["tag"], ",".join(shape_of(k) for k in f["kids"]))


# ---- corpora -------------------------------------------------------------------------------


def corpus_to_py(C):
    """[{sp, doc}] specification corpus -> [(sp dict, doc dict)]"""
    return [(val_to_py(j["sp"]), val_to_py(j["doc"])) for j in C]


def corpus_to_wire(jobs):
    return [{"sp": py_to_val(sp), "doc": py_to_val(doc)} for sp, doc in jobs]


class Sandbox:
    """A real signac project holding one corpus; ids[i] is the job id of corpus position i+1."""

    def __init__(self, root, jobs, empty_doc_file=False):
        import signac
        self.project = signac.init_project(root)
        self.root = root
        self.ids = []
        self.jobs = jobs
        for sp, doc in jobs:
            job = self.project.open_job(sp).init()
            if doc or empty_doc_file:
                # written raw: the document file is the observable the query reads
                with open(os.path.join(job.path, "signac_job_document.json"), "w") as fh:
                    json.dump(doc, fh)
            self.ids.append(job.id)
        assert len(set(self.ids)) == len(self.ids), "corpus with duplicate state points"
        self.pos = {i: k for k, i in enumerate(self.ids)}

    def fresh(self):
        import signac
        return signac.get_project(self.root)

    def mask(self, ids):
        m = 0
        for i in ids:
            m |= 1 << self.pos[i]
        return m

    def find_mask(self, flt):
        """ids yielded by Project.find_jobs(filter) as a bit mask over corpus positions, or 'ERR:<type>'"""
        try:
            ids = [job.id for job in self.project.find_jobs(flt)]
        except Exception as e:  # noqa: BLE001 - the exception class is the observation
            return "ERR:" + type(e).__name__
        if len(set(ids)) != len(ids):
            return "ERR:duplicate-ids"
        return self.mask(ids)


def mask_to_list(m):
    return [i + 1 for i in range(m.bit_length()) if m >> i & 1] if isinstance(m, int) else m


# ---- seeded random executions (code -> spec direction) -------------------------------------

_STRS = ["1", "ab", "a", "b", "abc", "true", "x y", "2.5", ""]
_REGEX = ["^1$", "a", "", "b$", "^a", "[0-9]", "a|b", "x y"]


def rand_scalar(rnd):
    k = rnd.randrange(10)
    if k == 0:
        return None
    if k == 1:
        return rnd.random() < 0.5
    if k in (2, 3):
        return rnd.choice([0, 1, 2, 3, 7, -1, 10])
    if k in (4, 5):
        return rnd.choice([0.0, 1.0, 2.0, 2.5, 0.5, -1.0, 1.5, 3.0, 0.25, 10.0])
    if k == 6:
        return rnd.choice([0, 1, True, False, 1.0, 0.0])
    return rnd.choice(_STRS)


def rand_value(rnd, depth=1):
    r = rnd.random()
    if depth <= 0 or r < 0.8:
        return rand_scalar(rnd)
    if r < 0.93:
        return [rand_value(rnd, depth - 1) for _ in range(rnd.randrange(0, 3))]
    return {k: rand_scalar(rnd) for k in rnd.sample(["x", "y"], rnd.randrange(0, 3))}


SP_KEYS = ["a", "b", "c"]
DOC_KEYS = ["x", "y"]


def rand_job(rnd):
    sp = {}
    for k in SP_KEYS:
        if rnd.random() < 0.7:
            sp[k] = rand_value(rnd, 2)
    if rnd.random() < 0.5:
        sp["n"] = rnd.choice([{"x": rand_scalar(rnd)}, {"x": rand_scalar(rnd), "y": rand_scalar(rnd)}, {}, 1, {"m": {"z": rand_scalar(rnd)}}])
    doc = {}
    if rnd.random() < 0.75:
        for k in DOC_KEYS:
            if rnd.random() < 0.6:
                doc[k] = rand_value(rnd, 1)
        if rnd.random() < 0.3:
            doc["n"] = {"x": rand_scalar(rnd)}
    return sp, doc


def rand_corpus(rnd, nmax=6):
    n = rnd.choice([0, 1, 2, 3, 3, 4, 4, 5, 6][: nmax + 3])
    jobs, seen = [], set()
    while len(jobs) < min(n, nmax):
        sp, doc = rand_job(rnd)
        if jobs and rnd.random() < 0.35:  # a near-twin: same state point, one value re-typed
            sp = json.loads(json.dumps(rnd.choice(jobs)[0]))
            sp[rnd.choice(SP_KEYS)] = rnd.choice([0, 1, 1.0, True, False, 0.0, "1"])
        key = json.dumps(sp, sort_keys=True)
        if key in seen:
            continue
        seen.add(key)
        jobs.append((sp, doc))
    return jobs


_PATHS = [["sp", "a"], ["sp", "b"], ["sp", "c"], ["sp", "n", "x"], ["sp", "n"], ["sp", "n", "m", "z"], ["sp", "a", "x"],
          ["doc", "x"], ["doc", "y"], ["doc", "n", "x"], ["sp", "zz"], ["doc", "zz"]]


def _values_at(jobs, path):
    out = []
    for sp, doc in jobs:
        v = doc if path[0] == "doc" else sp
        for k in path[1:]:
            if isinstance(v, dict) and k in v:
                v = v[k]
            else:
                v = ABS
                break
        if v is not ABS:
            out.append(v)
    return out


def rand_atom(rnd, jobs):
    """a random atom; the argument is drawn near the values the corpus really has under the key.
    Ordering / $near atoms are only generated where every present value is of the argument's kind
    (the generator avoids ill-typed pairs; TLC's WellTyped has the last word)."""
    path = rnd.choice(_PATHS)
    present = _values_at(jobs, path)
    scal = [v for v in present if not isinstance(v, (list, dict))]

    def arg():
        if scal and rnd.random() < 0.6:
            return rnd.choice(scal)
        if present and rnd.random() < 0.3:
            v = rnd.choice(present)
            if not isinstance(v, dict) and not (isinstance(v, list) and any(isinstance(y, dict) for y in v)):
                return v
        return rand_scalar(rnd)

    allnum = all(isinstance(v, (int, float)) for v in present)
    allstr = all(isinstance(v, str) for v in present)
    ops = ["eq", "eq", "$eq", "$ne", "$in", "$nin", "$exists", "$type", "$regex"]
    if allnum:
        ops += ["$gt", "$gte", "$lt", "$lte", "$near", "$gt", "$lte"]
    elif allstr:
        ops += ["$gt", "$gte", "$lt", "$lte"]
    op = rnd.choice(ops)
    if op in ("eq", "$eq", "$ne"):
        a = arg()
    elif op in ("$gt", "$gte", "$lt", "$lte"):
        if allnum and present:
            a = rnd.choice([v for v in scal] + [0, 1, 1.5, True, 2.5])
        elif allstr and present:
            a = rnd.choice(scal + ["a", "b", ""])
        else:
            a = rnd.choice([0, 1, "a", 1.5])
    elif op in ("$in", "$nin"):
        a = [arg() for _ in range(rnd.randrange(0, 4))]
    elif op == "$exists":
        a = rnd.random() < 0.5
    elif op == "$type":
        a = rnd.choice(["int", "float", "bool", "bool", "str", "list", "null"])
    elif op == "$regex":
        a = rnd.choice(_REGEX)
    else:  # $near
        x = rnd.choice([v for v in scal] + [1, 2, 2.5, 0])
        a = rnd.choice([x, [x], [x, rnd.choice([0.25, 0.5, 0.0])], [x, rnd.choice([0.0, 0.125]), rnd.choice([0.5, 1.0, 0.0])]])
    return {"tag": "atom", "path": path, "op": op, "arg": a, "kids": []}


def rand_filter(rnd, jobs, depth):
    r = rnd.random()
    if depth <= 1 or r < 0.25:
        return rand_atom(rnd, jobs) if rnd.random() < 0.97 else {"tag": "all", "kids": []}
    if r < 0.45:
        return {"tag": "not", "kids": [rand_filter(rnd, jobs, depth - 1)]}
    tag = "and" if r < 0.72 else "or"
    return {"tag": tag, "kids": [rand_filter(rnd, jobs, depth - 1) for _ in range(rnd.choice([1, 2, 2, 2, 3]))]}


def regex_pairs(f, jobs, acc):
    """(regex, string) pairs for which re.search succeeds, over the strings the corpus holds under the key
    (the re engine is trusted base: the table enters the specification as a constant)"""
    if f["tag"] == "atom":
        if f["op"] == "$regex":
            for v in _values_at(jobs, f["path"]):
                if isinstance(v, str) and _re.search(f["arg"], v):
                    acc.add((f["arg"], v))
    else:
        for k in f["kids"]:
            regex_pairs(k, jobs, acc)
    return acc


def py_concrete(f):
    """python-side filter AST (python values in 'arg') -> canonical Python spelling"""
    tag = f["tag"]
    if tag == "all":
        return {}
    if tag == "atom":
        key = ".".join(f["path"])
        return {key: f["arg"]} if f["op"] == "eq" else {key: {f["op"]: f["arg"]}}
    if tag == "not":
        return {"$not": py_concrete(f["kids"][0])}
    return {"$" + tag: [py_concrete(k) for k in f["kids"]]}


# ---- spelling descriptors (spec/query/Spelling.tla) -> Python objects / token strings -------------


def render_node(n):
    """concrete syntax tree -> Python object (mechanical: join key components with '.', literals via val_to_py)"""
    k = n["k"]
    if k == "lit":
        return val_to_py(n["v"])
    if k == "list":
        return [render_node(x) for x in n["items"]]
    if k == "map":
        out = {}
        for e in n["items"]:
            key = ".".join(e["key"])
            assert key not in out, "descriptor with duplicate key"
            out[key] = render_node(e["items"][0])
        return out
    raise ValueError(k)


def render_tokens(toks, compact=False):
    out = []
    for t in toks:
        if t["k"] == "key":
            out.append(".".join(t["key"]))
        elif t["k"] == "raw":
            out.append(uncps(t["cp"]))
        else:
            out.append(json.dumps(render_node(t["node"]), separators=(",", ":")) if compact else json.dumps(render_node(t["node"])))
    return out


def spelling_text(sp):
    """human-readable form of a spelling for messages and replay files"""
    if sp["form"] == "py":
        return "find_jobs(%r)" % (render_node(sp["node"]),)
    if sp["form"] == "json1":
        return "signac find %r" % json.dumps(render_node(sp["node"]))
    if sp["form"] == "cli":
        return "signac find " + " ".join(repr(t) for t in render_tokens(sp["toks"]))
    return "find_jobs(%r)" % " ".join(render_tokens(sp["toks"], compact=True))


# ---- scale tier (C06): large corpora with > 64 distinct values under one key ------------------------------------


def scale_corpus(rnd, n):
    """n jobs (70..200). sp.k: the job number (n distinct ints). sp.a: > 64 distinct values of mixed type - ints, floats equal
    to ints held by OTHER jobs, other floats, bools, strings, lists. doc.t: > 64 distinct numbers (ints, equal-valued floats,
    bools), missing for some jobs. sp.b / sp.n.x: few values. State points are distinct through sp.k."""
    jobs = []
    for i in range(n):
        r = i % 10
        if i < 66:
            a = i                                   # 66 distinct ints 0..65
        elif r in (0, 1, 2):
            a = float(rnd.randrange(0, 70))        # equal to an int of another job (3.0 vs 3), or a new value
        elif r == 3:
            a = rnd.choice([True, False])
        elif r == 4:
            a = rnd.randrange(0, 40) + 0.5
        elif r in (5, 6):
            a = "s%d" % rnd.randrange(0, 30)
        elif r == 7:
            a = [rnd.randrange(0, 5), 1]
        elif r == 8:
            a = None
        else:
            a = rnd.randrange(60, 90)
        sp = {"k": i, "b": rnd.randrange(0, 4)}
        if not (i >= 66 and rnd.random() < 0.1):
            sp["a"] = a
        if rnd.random() < 0.4:
            sp["n"] = {"x": rnd.choice([0, 1, 1.0, True, "ab", None])}
        doc = {}
        if rnd.random() < 0.9:
            j = (i * 7) % n
            doc["t"] = j if i % 3 == 0 else float(j) if i % 3 == 1 else (j + 0.25 if i % 2 else bool(j % 2))
        if rnd.random() < 0.3:
            doc["y"] = rnd.choice(["u", "v", 1])
        jobs.append((sp, doc))
    rnd.shuffle(jobs)
    return jobs


def _retype(v):
    """a value that compares equal but has another numeric type (the cross-type candidates)"""
    if isinstance(v, bool):
        return int(v)
    if isinstance(v, int):
        return float(v)
    if isinstance(v, float) and v.is_integer():
        return int(v)
    return v


def scale_filters(rnd, jobs, count):
    """a seeded family of atoms and combinations over the many-valued keys; candidates are drawn from the values the corpus
    holds and from their equal-valued twins of another numeric type"""
    def atom(path, op, arg):
        return {"tag": "atom", "path": path, "op": op, "arg": arg, "kids": []}

    def cand(path, retype=0.5):
        vals = [v for v in _values_at(jobs, path) if not isinstance(v, dict)]
        v = rnd.choice(vals) if vals and rnd.random() < 0.9 else rnd.choice([0, 1, 300, "zz", 2.5])
        return _retype(v) if rnd.random() < retype else v

    A, T, K, B = ["sp", "a"], ["doc", "t"], ["sp", "k"], ["sp", "b"]
    atoms = []
    for path in (A, T, K):
        for _ in range(max(2, count // 12)):
            atoms.append(atom(path, "$in", [cand(path) for _ in range(rnd.randrange(1, 5))]))
            atoms.append(atom(path, "$nin", [cand(path) for _ in range(rnd.randrange(1, 5))]))
            atoms.append(atom(path, rnd.choice(["eq", "$eq"]), cand(path)))
            atoms.append(atom(path, "$ne", cand(path)))
        atoms.append(atom(path, "$in", [cand(path, 1.0) for _ in range(3)] + [[0, 1]]))
        atoms.append(atom(path, "$in", []))
        atoms.append(atom(path, "$type", rnd.choice(["int", "float", "bool", "str", "list", "null"])))
        atoms.append(atom(path, "$exists", rnd.random() < 0.5))
    for path in (T, K):          # all-numeric keys: ordering and $near are well-typed
        for op in ("$gt", "$gte", "$lt", "$lte"):
            atoms.append(atom(path, op, cand(path)))
        atoms.append(atom(path, "$near", [cand(path), 0.0, rnd.choice([0.0, 0.5, 2.0])]))
    atoms.append(atom(B, "$in", [0, 1.0, True]))
    atoms.append(atom(["sp", "n", "x"], "$in", [1, "ab", None]))
    atoms.append(atom(["sp", "a"], "$regex", "^s1"))
    rnd.shuffle(atoms)
    atoms = atoms[:max(10, (2 * count) // 3)]
    out = list(atoms)
    ins = [a for a in atoms if a["op"] in ("$in", "$nin", "eq", "$eq", "$ne")] or atoms
    while len(out) < count:
        r = rnd.random()
        x, y = rnd.choice(ins), rnd.choice(atoms)
        if r < 0.3:
            out.append({"tag": "not", "kids": [x]})
        elif r < 0.55:
            out.append({"tag": "and", "kids": [x, y]})
        elif r < 0.8:
            out.append({"tag": "or", "kids": [x, y]})
        elif r < 0.9:
            out.append({"tag": "not", "kids": [{"tag": "or", "kids": [x, y]}]})
        else:
            out.append({"tag": "and", "kids": [{"tag": "not", "kids": [x]}, y, rnd.choice(ins)]})
    return out

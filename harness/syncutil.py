"""Shared machinery of the Sync family engines (C13, C14, C15); the oracle is spec/sync/Sync.tla.

Pipeline of one check (see drivers/c13.py):
  probe        minimal repros decide the deviation flags D1..D7 of the specification
  generate     TLC (MODE="gen", sharded) enumerates cases, checks the requirement properties on SyncFn, exports the cases
  execute      every case is materialised as two real projects (explicit utime), the real entry point is called,
               both trees are snapshot raw before/after, the sync is repeated (idempotence), parallel variants are run
  validate     TLC (MODE="file") decides for every recorded execution (a) whether it is a behaviour of SyncFn
               (exact post-state, or the partial-effect relation for raising syncs) and (b) every requirement of the
               property ON THE REAL POST-STATE.  Verdicts come from (b), conformance from (a).
  random       seeded deeper random trees go through execute + validate as well (code -> spec).
  scale        many tiny jobs x parallel in {False, 2, 3, True} (C13, C15).
  command line `signac sync <source> [destination] [flags]`: TLC (MODE="cligen") generates projects and flag combinations, the
               command-level outcome is CliFn = "flags -> arguments of destination.sync" ; SyncFn (Sync.tla 1d); every case runs the real
               entry point through clifront.run_cli (own process, cwd = destination), TLC (MODE="clifile") judges exit status, message
               class + payload, "Skipped key(s)", transfer statistics and the resulting tree; signatures are prefixed "cli:".
Python only translates (spec value <-> files on disk), executes signac and reads TLC's verdicts.
"""
import contextlib
import filecmp
import io
import json
import os
import random
import re
import shutil
import tempfile
import threading
from concurrent.futures import ThreadPoolExecutor

from . import core, tlaparse, tlc

SPEC = "sync/Sync.tla"
DOCFN = "signac_job_document.json"
SPFN = "signac_statepoint.json"
PDOCFN = "signac_project_document.json"
OLDTXT = '{"old": 1}'          # content of a stale roll-back copy (Sync.tla: OLDTXT)
NOW = 9
DEVIATIONS = ["DryCopyRaises", "DryCopytreeMkdirs", "DryNestedDocWrites", "ProjDeepDropped",
              "CopytreeIgnoresExclude", "DircmpIgnoreList", "DryJobNeedsDstDir", "CloneExcludeHitsSpecial", "SpecialByPrefix", "CliFilterOnCwd"]
REQS = {
    "C13": ["Superset", "FilesArrive", "DstOnlyUntouched", "SrcUntouched", "Idempotent", "NothingElse"],
    "C14": ["OverwriteIffStrategy", "ConflictLeavesFile", "DocOverwriteIffKeyStrategy", "DocRollbackExact"],
    "C15": ["DryRunFrame", "DeepByContent", "ExcludeFrame", "SelectionFrame"],
}
PROCS = int(os.environ.get("VERIF_PROCS", "16"))
JOPTS = "-XX:ParallelGCThreads=2 -XX:CICompilerCount=2 -Xss32m"     # many small single-worker TLC processes run side by side


def t_ns(rank):
    """model time (small integer) -> real mtime in ns; everything the sync writes is 'now', i.e. later"""
    return (1_000_000_000 + 100 * rank) * 1_000_000_000


def rank_of(ns):
    r, rem = divmod(ns - 1_000_000_000 * 1_000_000_000, 100 * 1_000_000_000)
    return r if rem == 0 and 0 < r < NOW else NOW


# ---- canonical python form of the spec's values (TLC prints empty functions as []) -----------------------
def _m(x):
    return {} if (x == [] or x == () or x is None) else dict(x)


def ndir(d):
    return {"f": {n: {"data": r["data"], "size": int(r["size"]), "mtime": int(r["mtime"])} for n, r in sorted(_m(d["f"]).items())},
            "d": {n: ndir(s) for n, s in sorted(_m(d["d"]).items())}}


def ndv(v):
    return {"t": v["t"], "s": v["s"], "m": {k: ndv(x) for k, x in sorted(_m(v["m"]).items())}}


def njob(j):
    return {"sp": bool(j["sp"]), "dir": ndir(j["dir"]), "doc": ndv(j["doc"]), "dex": bool(j["dex"]), "dmt": int(j["dmt"])}


def nproj(p):
    return {"jobs": {i: njob(j) for i, j in sorted(_m(p["jobs"]).items())}, "pdoc": ndv(p["pdoc"]), "pbak": bool(p.get("pbak", False))}


def _lst(x):
    return sorted(list(x)) if not isinstance(x, dict) else sorted(x)


def nopts(o):
    o = dict(o)
    o["custom"] = sorted([list(p) for p in o["custom"]])
    o["keysel"] = _lst(o["keysel"])
    o["exclude"] = {"on": bool(o["exclude"]["on"]), "names": _lst(o["exclude"]["names"]), "sp": bool(o["exclude"].get("sp", False)),
                    "doc": bool(o["exclude"].get("doc", False))}
    o["selection"] = {"on": bool(o["selection"]["on"]), "ids": _lst(o["selection"]["ids"])}
    o["order"], o["nord"], o["kord"] = list(o["order"]), list(o["nord"]), list(o["kord"])
    o["sps"] = {i: dict(_m(sp)) for i, sp in _m(o["sps"]).items()}
    return o


def ncmd(m):
    m = dict(m)
    m["keysel"] = _lst(m["keysel"])
    ex = m["exclude"]
    m["exclude"] = {"on": bool(ex["on"]), "names": _lst(ex["names"]), "sp": bool(ex.get("sp", False)), "doc": bool(ex.get("doc", False))}
    m["sel"] = dict(m["sel"], ids=_lst(m["sel"]["ids"]))
    m["order"], m["nord"], m["kord"] = list(m["order"]), list(m["nord"]), list(m["kord"])
    m["sps"] = {i: dict(_m(sp)) for i, sp in _m(m["sps"]).items()}
    return m


def ncase(c):
    out = {"id": c.get("id", 0), "src": nproj(c["src"]), "dst": nproj(c["dst"]), "o": nopts(c["o"]),
           "pred": c.get("pred"), "feat": sorted(c.get("feat", []))}
    if isinstance(c.get("cmd"), dict) and "strategy" in c["cmd"]:
        out["cmd"] = ncmd(c["cmd"])
    return out


def dv_to_py(v):
    return {k: dv_to_py(x) for k, x in v["m"].items()} if v["t"] == "m" else json.loads(v["s"])


def py_to_dv(x):
    if isinstance(x, dict):
        return {"t": "m", "s": "", "m": {k: py_to_dv(y) for k, y in sorted(x.items())}}
    return {"t": "s", "s": json.dumps(x), "m": {}}


EMPTY_DOC = {"t": "m", "s": "", "m": {}}


# ---- spec value -> files on disk ----------------------------------------------------------------------------
def sp_of(token_sp):
    """state point of the spec (key -> JSON text of the value) -> python state point"""
    return {k: json.loads(v) for k, v in token_sp.items()}


def real_id(token_sp):
    return core.my_id(sp_of(token_sp))


def _write(path, data, rank):
    with open(path, "w" if isinstance(data, str) else "wb") as f:
        f.write(data)
    os.utime(path, ns=(t_ns(rank), t_ns(rank)))


def expand(token):
    """content token of the specification -> bytes.  "@<size>:<v>" is a LARGE content: <size> bytes of a fixed pattern (v = a) with the
    first (f), middle (m) or last (z) byte changed; every other token is its own (latin-1) text"""
    if token.startswith("@"):
        size, v = token[1:].split(":")
        b = bytearray((b"0123456789abcdef" * (int(size) // 16 + 1))[:int(size)])
        if v != "a":
            i = {"f": 0, "m": int(size) // 2, "z": int(size) - 1}[v]
            b[i] = ord("X")
        return bytes(b)
    return token.encode("latin-1")


_BIG = {}


def contract(b):
    """bytes -> content token (inverse of expand; unknown large contents become a digest token, never a huge string)"""
    if len(b) < 4096:
        return b.decode("latin-1")
    if not _BIG:
        for size in (20480, 71680):
            for v in "afmz":
                t = "@%d:%s" % (size, v)
                _BIG[expand(t)] = t
    return _BIG.get(b) or "@%d:?%s" % (len(b), __import__("hashlib").md5(b).hexdigest()[:8])


def _write_dir(path, d):
    for n, r in d["f"].items():
        b = expand(r["data"])
        if len(b) != r["size"]:
            raise core.MachineryError("content token %r does not have the size %d the specification assumes" % (r["data"], r["size"]))
        _write(os.path.join(path, n), b, r["mtime"])
    for n, s in d["d"].items():
        os.mkdir(os.path.join(path, n))
        _write_dir(os.path.join(path, n), s)


def doc_text(dv):
    return json.dumps(dv_to_py(dv), sort_keys=True)


def materialise(root, P, sps):
    """Write project P (spec shape) under root, raw (no signac object involved except init_project's config file)."""
    os.makedirs(os.path.join(root, ".signac"))
    with open(os.path.join(root, ".signac", "config"), "w") as f:
        f.write("schema_version = 2\n")
    ws = os.path.join(root, "workspace")
    os.mkdir(ws)
    for tok, j in P["jobs"].items():
        jd = os.path.join(ws, real_id(sps[tok]))
        os.mkdir(jd)
        _write(os.path.join(jd, SPFN), json.dumps(sp_of(sps[tok])), 1)
        _write_dir(jd, j["dir"])
        if j["dex"]:
            _write(os.path.join(jd, DOCFN), doc_text(j["doc"]), j["dmt"])
        elif j["doc"]["m"]:
            raise core.MachineryError("document without a document file")
    if P["pdoc"]["m"]:
        _write(os.path.join(root, PDOCFN), doc_text(P["pdoc"]), 1)
    if P.get("pbak"):
        _write(os.path.join(root, PDOCFN + "~"), OLDTXT, 1)        # left behind by a sync that died inside the document sync


# ---- files on disk -> spec value (raw observation: os.walk / json, never through signac) ---------------------
def raw_snapshot(root):
    """relpath -> bytes for files, None for directories (structure + content; mtimes are not part of 'byte-identical')"""
    out = {}
    for r, ds, fs in os.walk(root):
        for d in ds:
            out[os.path.relpath(os.path.join(r, d), root) + "/"] = None
        for f in fs:
            p = os.path.join(r, f)
            with open(p, "rb") as fh:
                out[os.path.relpath(p, root)] = fh.read()
    return out


def _obs_dir(path, top):
    d = {"f": {}, "d": {}}
    for n in sorted(os.listdir(path)):
        p = os.path.join(path, n)
        if os.path.isdir(p) and not os.path.islink(p):
            d["d"][n] = _obs_dir(p, False)
        elif top and n in (SPFN, DOCFN):
            continue
        else:
            with open(p, "rb") as fh:
                b = fh.read()
            d["f"][n] = {"data": contract(b), "size": len(b), "mtime": rank_of(os.stat(p).st_mtime_ns)}
    return d


def _load_doc(fn):
    if not os.path.isfile(fn):
        return EMPTY_DOC, False, 0
    with open(fn) as f:
        txt = f.read()
    try:
        v = json.loads(txt)
    except ValueError:
        v = {"__unparseable__": txt}
    return py_to_dv(v), True, rank_of(os.stat(fn).st_mtime_ns)


def observe(root, sps):
    """project on disk -> spec shape; job directories are named by the spec's tokens where the id is known"""
    tok_of = {real_id(sp): tok for tok, sp in sps.items()}
    P = {"jobs": {}, "pdoc": _load_doc(os.path.join(root, PDOCFN))[0], "pbak": os.path.isfile(os.path.join(root, PDOCFN + "~"))}
    ws = os.path.join(root, "workspace")
    for n in sorted(os.listdir(ws)) if os.path.isdir(ws) else []:
        jd = os.path.join(ws, n)
        if not os.path.isdir(jd):
            continue
        tok = tok_of.get(n, n)
        spok = False
        try:
            with open(os.path.join(jd, SPFN)) as f:
                spok = tok in sps and json.load(f) == sp_of(sps[tok])
        except (OSError, ValueError):
            pass
        doc, dex, dmt = _load_doc(os.path.join(jd, DOCFN))
        P["jobs"][tok] = {"sp": spok, "dir": _obs_dir(jd, True), "doc": doc, "dex": dex, "dmt": dmt}
    return P


# ---- executing one case on the real code ---------------------------------------------------------------------
def _regex_for(names, universe, what):
    """a pattern that re.match()es exactly `names` among `universe` (the re engine is trusted base; the table is checked)"""
    pat = "(?:" + "|".join(re.escape(n) for n in sorted(names)) + ")$" if names else "(?!)"
    got = {n for n in universe if re.match(pat, n)}
    if got != set(names) & set(universe):
        raise core.MachineryError("%s pattern %r matches %r, wanted %r" % (what, pat, sorted(got), sorted(names)))
    return pat


def exclude_pattern(ex, names):
    """the regular expression for an exclude record of the specification ([on, names, sp, doc]); checked with re.match"""
    if ex.get("sp") or ex.get("doc"):
        pat = ".*"                                  # what `signac sync -x` (no pattern) passes
        if not (ex.get("sp") and ex.get("doc")) or {n for n in names if re.match(pat, n)} != set(names) or not set(names) <= set(ex["names"]):
            raise core.MachineryError("exclude record %r is not the pattern '.*' over %r" % (ex, sorted(names)))
        return pat
    return _regex_for(ex["names"], names, "exclude")


def _all_names(d, acc):
    acc.update(d["f"]); acc.update(d["d"])
    for s in d["d"].values():
        _all_names(s, acc)
    return acc


def _all_keynames(dv, acc, parent=""):
    for k, v in dv["m"].items():
        acc.add(parent + k)
        if v["t"] == "m":
            _all_keynames(v, acc, k + ".")
    return acc


class _ListOrder:
    """listing-order control: os.listdir(<source workspace>) returns job directories in the order the case prescribes"""

    def __init__(self, path, order):
        self.path, self.rank = os.path.realpath(path), {n: i for i, n in enumerate(order)}

    def __enter__(self):
        self.orig = os.listdir

        def listdir(p="."):
            out = self.orig(p)
            try:
                if isinstance(p, (str, os.PathLike)) and os.path.realpath(os.fspath(p)) == self.path:
                    out = sorted(out, key=lambda n: (self.rank.get(n, len(self.rank)), n))
            except (TypeError, ValueError):
                pass
            return out
        os.listdir = listdir
        return self

    def __exit__(self, *a):
        os.listdir = self.orig


def call_sync(case, src_root, dst_root, parallel=None, control_order=True, variant=0):
    """Call the real entry point once with fresh handles. Returns (res, fn, keys, consulted)."""
    import signac
    from signac import sync as ssync
    from signac import errors as serr
    o, sps = case["o"], case["o"]["sps"]
    src, dst = signac.Project(src_root), signac.Project(dst_root)
    consulted = []
    names = set([DOCFN])
    keynames = set()
    for P in (case["src"], case["dst"]):
        _all_keynames(P["pdoc"], keynames)
        for j in P["jobs"].values():
            _all_names(j["dir"], names)
            _all_keynames(j["doc"], keynames)
    custom = {"/".join(p) for p in o["custom"]}

    def custom_strategy(sjob, djob, fn):
        consulted.append([tok_of.get(sjob.id, sjob.id)] + fn.split(os.sep))
        return fn.replace(os.sep, "/") in custom
    tok_of = {real_id(sp): tok for tok, sp in sps.items()}
    strategy = {"none": None, "always": ssync.FileSync.always, "never": ssync.FileSync.never,
                "update": ssync.FileSync.update, "custom": custom_strategy}[o["strategy"]]
    ks = set(o["keysel"])
    ds = o["docSync"]
    if ds == "bykey":
        doc_sync = None if variant % 2 == 0 else ssync.DocSync.ByKey()          # the default IS ByKey()
    elif ds == "bykeyfn":
        doc_sync = ssync.DocSync.ByKey(lambda key: key in ks)
    elif ds == "bykeyre":
        doc_sync = ssync.DocSync.ByKey(_regex_for(ks, keynames | ks, "key"))
    else:
        doc_sync = {"update": ssync.DocSync.update, "nosync": ssync.DocSync.NO_SYNC, "copy": ssync.DocSync.COPY}[ds]
    exclude = None
    if o["exclude"]["on"]:
        exclude = exclude_pattern(o["exclude"], names)
        if "excludePattern" in o:                     # a realistic (prefix) pattern; the set of names it matches was computed with re.match
            exclude = o["excludePattern"]
            if {n for n in names if re.match(exclude, n)} != set(o["exclude"]["names"]):
                raise core.MachineryError("exclude pattern %r does not match the recorded names" % exclude)
        if variant % 3 == 1:
            exclude = [exclude]
    kw = dict(strategy=strategy, exclude=exclude, doc_sync=doc_sync, recursive=o["recursive"])
    # options are only passed when they are not at their default, half of the time (both spellings are exercised)
    if o["deep"] or variant % 2:
        kw["deep"] = o["deep"]
    if o["dryRun"] or variant % 2:
        kw["dry_run"] = o["dryRun"]
    proj = o["entry"] in ("Project.sync", "sync_projects")
    if proj:
        if o["selection"]["on"]:
            ids = [real_id(sps[t]) if t in sps else core.my_id({"no such job": t}) for t in o["selection"]["ids"]]
            if not ids:             # the empty selection, in three spellings: list, tuple, a query result without matches
                kw["selection"] = [[], (), src.find_jobs({"no_such_key_anywhere": 99})][variant % 3]
            else:
                kw["selection"] = ids if variant % 2 == 0 else [src.open_job(id=i) if os.path.isdir(os.path.join(src.workspace, i)) else i for i in ids]
        kw["check_schema"] = o["checkSchema"]
        par = o["parallel"] if parallel is None else parallel
        kw["parallel"] = {"no": False, "two": 2, "three": 3, "all": True}[par]
    else:
        sp = sp_of(sps[o["jid"]])
        sjob, djob = src.open_job(sp), dst.open_job(sp)
    res, fn, keys = "ok", "", []
    order = [real_id(sps[t]) for t in o["order"] if t in sps]
    filecmp.clear_cache()
    sink = io.StringIO()
    with contextlib.ExitStack() as st:
        if control_order:
            st.enter_context(_ListOrder(src.workspace, order))
        st.enter_context(contextlib.redirect_stdout(sink))
        try:
            if o["entry"] == "Project.sync":
                dst.sync(src, **kw)
            elif o["entry"] == "sync_projects":
                ssync.sync_projects(src, dst, **kw)
            elif o["entry"] == "Job.sync":
                djob.sync(sjob, **kw)
            else:
                ssync.sync_jobs(sjob, djob, **kw)
        except serr.FileSyncConflict as e:
            res, fn = "FileSyncConflict", str(e.filename)
        except serr.DocumentSyncConflict as e:
            res, keys = "DocumentSyncConflict", sorted(str(k) for k in e.keys)
        except serr.SchemaSyncConflict:
            res = "SchemaSyncConflict"
        except Exception as e:  # noqa: the class is the observation
            res = type(e).__name__
        # a raise inside the thread pool leaves workers running: wait for them before looking at the disk
        for t in threading.enumerate():
            if t is not threading.current_thread() and t is not threading.main_thread():
                t.join(120)
    return res, fn, keys, sorted(consulted)


def execute(case, work, control_order=True):
    """materialise, snapshot, call, snapshot, repeat; returns the record TLC validates (spec shapes only)"""
    o, sps = case["o"], case["o"]["sps"]
    base = tempfile.mkdtemp(prefix="c-", dir=work)
    try:
        def fresh(tag):
            a, b = os.path.join(base, tag + "-src"), os.path.join(base, tag + "-dst")
            materialise(a, case["src"], sps)
            materialise(b, case["dst"], sps)
            return a, b
        a, b = fresh("m")
        if not control_order:
            tok_of = {real_id(sp): tok for tok, sp in sps.items()}
            seen = [tok_of[n] for n in os.listdir(os.path.join(a, "workspace")) if n in tok_of]
            case = dict(case, o=dict(o, order=seen + [t for t in o["order"] if t not in seen]))
            o = case["o"]
        sa0, sb0 = raw_snapshot(a), raw_snapshot(b)
        pre_dst = observe(b, sps)
        if pre_dst != case["dst"] or observe(a, sps) != case["src"]:
            raise core.MachineryError("materialise/observe round trip failed for case %s" % case.get("id"))
        v = int(case.get("id", 0))
        res, fn, keys, cons = call_sync(case, a, b, control_order=control_order, variant=v)
        sa1, sb1 = raw_snapshot(a), raw_snapshot(b)
        post = observe(b, sps)
        rec = {"id": case.get("id", 0), "src": case["src"], "dst": case["dst"], "o": o,
               "post": post, "res": res, "fn": fn, "keys": keys, "cons": cons,
               "srcSame": sa0 == sa1, "srcAfter": observe(a, sps), "rawSame": sb0 == sb1,
               "post2": post, "res2": res, "seqPost": post, "seqRes": res}
        if res == "ok" and not o["dryRun"]:
            res2, _, _, _ = call_sync(case, a, b, control_order=control_order, variant=v)
            rec["post2"], rec["res2"] = observe(b, sps), res2
            if raw_snapshot(a) != sa0:
                rec["srcSame"] = False
        if o["parallel"] != "no" and o["entry"] in ("Project.sync", "sync_projects"):
            a2, b2 = fresh("s")
            rec["seqRes"] = call_sync(case, a2, b2, parallel="no", control_order=control_order, variant=v)[0]
            rec["seqPost"] = observe(b2, sps)
        return rec
    finally:
        shutil.rmtree(base, ignore_errors=True)


def _exec_chunk(arg):
    work, cases, control = arg
    out = []
    for c in cases:
        out.append(execute(c, work, control))
    return out


def execute_all(ctx, cases, control_order=True, procs=None):
    procs = procs or PROCS
    work = ctx.mkdtemp("exec")
    n = max(1, min(len(cases), procs * 8))
    chunks = [(work, cases[i::n], control_order) for i in range(n)]
    recs = [r for ch in core.pmap(_exec_chunk, chunks, procs=procs, chunks=1) for r in ch]
    recs.sort(key=lambda r: r["id"])
    return recs


# ---- TLC orchestration ----------------------------------------------------------------------------------------
def _consts(prop, mode, flags, ncase=1, fullopt=False, offset=0):
    c = {"MODE": tlc.lit(mode), "PROP": tlc.lit(prop), "NCASE": ncase, "FULLOPT": tlc.lit(bool(fullopt)), "OFFSET": offset}
    for d in DEVIATIONS:
        c[d] = tlc.lit(bool(flags[d]))
    return c


def generate(ctx, prop, flags, total, fullopt, shards, invariants, label="gen", offset0=0, salt=0, mode="gen"):
    """MODE="gen": TLC enumerates `total` cases over `shards` processes, checks `invariants` on SyncFn, exports the cases."""
    per = (total + shards - 1) // shards

    def one(k):
        wd = os.path.join(ctx.work, "%s-%d" % (label, k))
        out = os.path.join(wd, "cases.ndjson")
        cfgt = tlc.cfg(_consts(prop, mode, flags, per, fullopt, offset0 + k * per), invariants=invariants, postcondition="Export", alias="DebugAlias")
        r = tlc.run(SPEC, cfg_text=cfgt, workdir=wd, workers=1, seed=(ctx.seed + 7919 * k + 104729 * salt) % 10**6, env={"SYNC_OUT": out, "JAVA_TOOL_OPTIONS": JOPTS},
                    coverage=False, allow_violation=False, heap="3g")
        with open(out) as f:
            cases = [ncase(json.loads(line)) for line in f]
        if len(cases) != per or r.distinct != per:
            raise core.MachineryError("shard %d exported %d cases, %d states, wanted %d" % (k, len(cases), r.distinct, per))
        return r, cases
    with ThreadPoolExecutor(max(1, min(shards, PROCS))) as ex:
        results = list(ex.map(one, range(shards)))
    cases = []
    for k, (r, cs) in enumerate(results):
        ctx.add_tlc("%s %s shard %d (%d cases)" % (prop, label, k, len(cs)), r)
        cases += cs
    return cases


def validate(ctx, prop, flags, recs, label="file", shard_size=2500, mode="file"):
    """MODE="file": TLC decides conformance and the property's requirements for every recorded execution."""
    if not recs:
        return {}
    parts = [recs[i:i + shard_size] for i in range(0, len(recs), shard_size)]

    def one(k):
        wd = os.path.join(ctx.work, "%s-%d" % (label, k))
        os.makedirs(wd, exist_ok=True)
        fin, fout = os.path.join(wd, "recs.ndjson"), os.path.join(wd, "verdicts.ndjson")
        with open(fin, "w") as f:
            for r in parts[k]:
                f.write(json.dumps({x: r[x] for x in r if x not in ("pred", "feat")}) + "\n")
        cfgt = tlc.cfg(_consts(prop, mode, flags), postcondition="Export")
        r = tlc.run(SPEC, cfg_text=cfgt, workdir=wd, workers=1, env={"SYNC_IN": fin, "SYNC_OUT": fout, "JAVA_TOOL_OPTIONS": JOPTS}, coverage=False,
                    allow_violation=False, heap="4g")
        with open(fout) as f:
            vs = [json.loads(line) for line in f]
        if len(vs) != len(parts[k]):
            raise core.MachineryError("TLC returned %d verdicts for %d records" % (len(vs), len(parts[k])))
        os.remove(fin)
        return r, vs
    with ThreadPoolExecutor(max(1, min(len(parts), max(2, PROCS // 2)))) as ex:
        results = list(ex.map(one, range(len(parts))))
    out = {}
    for k, (r, vs) in enumerate(results):
        ctx.add_tlc("%s %s shard %d (%d recorded executions)" % (prop, label, k, len(vs)), r)
        for v in vs:
            out[v["id"]] = v
    return out


def model_counterexample(ctx, prop, flags, req, ncase_=400):
    """The pure requirement as an INVARIANT of the conformant model: TLC either proves it on the sample or gives a case."""
    wd = os.path.join(ctx.work, "pure-%s" % req)
    cfgt = tlc.cfg(_consts(prop, "gen", flags, ncase_, False, 0), invariants=["Pure" + req], alias="DebugAlias")
    r = tlc.run(SPEC, cfg_text=cfgt, workdir=wd, workers=1, seed=ctx.seed % 10**6, coverage=False, allow_violation=True, heap="3g")
    ctx.add_tlc("%s requirement %s on the conformant model" % (prop, req), r)
    if r.violation is None:
        return None
    m = re.search(r"is violated by the initial state:\n(.*?)\n\n", r.stdout, re.S)
    if not m:
        raise core.MachineryError("cannot find the counterexample state in TLC's output")
    st = tlaparse.parse_state(m.group(1))
    return ncase(_plain(st["case"]))


def _plain(v):
    """tlaparse value -> JSON-like python"""
    if isinstance(v, dict):
        return {k: _plain(x) for k, x in v.items()}
    if isinstance(v, (tuple, list, frozenset, set)):
        return [_plain(x) for x in v]
    return v


def steps_check(ctx, prop, flags, ncase_):
    """MODE="steps": the per-job steps as separate actions, every order explored; OrderConfluent is an invariant."""
    wd = os.path.join(ctx.work, "steps")
    cfgt = tlc.cfg(_consts(prop, "steps", flags, ncase_, False, 0), invariants=["OrderConfluent"])
    # (-coverage disables TLC's caching of the constant case table and runs out of memory: the vacuity guard is done by hand)
    r = tlc.run(SPEC, cfg_text=cfgt, workdir=wd, workers=min(8, PROCS), seed=ctx.seed % 10**6, coverage=False, allow_violation=False, heap="4g")
    m = re.search(r"Finished computing initial states: (\d+) distinct state", r.stdout)
    ninit = int(m.group(1)) if m else 0
    r.actions["JobStepAct"] = (max(0, r.distinct - ninit), max(0, r.generated - ninit))
    ctx.add_tlc("%s OrderConfluent: all orders of the per-job steps (%d project-level cases)" % (prop, ninit), r)
    ctx.require_actions(r, ["JobStepAct"])
    if r.depth < 3 or r.generated - ninit <= r.distinct - ninit:
        raise core.MachineryError("steps model is vacuous: depth %d, no two orders met in one state" % r.depth)
    return r


# ---- probes: the minimal repro of each named deviation decides the specification's flag -------------------------
def _case(src_jobs, dst_jobs, **opts):
    """hand-written case in spec shape (state points a=1 / a=2)"""
    def job(files=None, sub=None, doc=None, dmt=1):
        d = {"f": {n: {"data": c, "size": len(c), "mtime": m} for n, (c, m) in (files or {}).items()}, "d": {}}
        if sub is not None:
            d["d"]["s"] = {"f": {n: {"data": c, "size": len(c), "mtime": m} for n, (c, m) in sub.items()}, "d": {}}
        dv = py_to_dv(doc or {})
        return {"sp": True, "dir": d, "doc": dv, "dex": bool(doc), "dmt": dmt if doc else 0}
    o = {"strategy": "none", "custom": [], "docSync": "bykey", "keysel": [], "recursive": False,
         "exclude": {"on": False, "names": []}, "selection": {"on": False, "ids": []}, "checkSchema": False,
         "deep": False, "dryRun": False, "parallel": "no", "entry": "Project.sync", "jid": "j1", "order": ["j1", "j2"],
         "nord": sorted(["f", "g", "s", "tags", DOCFN, DOCFN + "~", SPFN, SPFN + ".bak"]), "kord": ["k", "n", "old", "x", "y"], "sps": {"j1": {"a": "1"}, "j2": {"a": "2"}}}
    ex = opts.pop("exclude", None)
    if ex == "*":
        o["exclude"] = {"on": True, "names": list(o["nord"]), "sp": True, "doc": True}
    elif ex:
        o["exclude"] = {"on": True, "names": [ex]}
    o.update(opts)
    return {"id": 0, "src": {"jobs": {k: job(**v) for k, v in src_jobs.items()}, "pdoc": EMPTY_DOC, "pbak": False},
            "dst": {"jobs": {k: job(**v) for k, v in dst_jobs.items()}, "pdoc": EMPTY_DOC, "pbak": False}, "o": o}


PROBES = {
    # name: (case, predicate on the record: TRUE = the pinned tree's defect is present)
    "DryCopyRaises": (lambda: _case({"j1": dict(files={"f": ("A", 1)})}, {"j1": {}}, entry="Job.sync", dryRun=True),
                      lambda r: r["res"] == "TypeError"),
    "DryCopytreeMkdirs": (lambda: _case({"j1": dict(files={"f": ("A", 1)})}, {}, dryRun=True),
                          lambda r: "j1" in r["post"]["jobs"]),
    "DryNestedDocWrites": (lambda: _case({"j1": dict(doc={"n": {"x": 1}})}, {"j1": dict(doc={"n": {"y": 2}})}, entry="Job.sync", dryRun=True),
                           lambda r: r["post"]["jobs"]["j1"]["doc"] != r["dst"]["jobs"]["j1"]["doc"]),
    "ProjDeepDropped": (lambda: _case({"j1": dict(files={"f": ("A", 1)})}, {"j1": dict(files={"f": ("B", 1)})}, deep=True),
                        lambda r: r["res"] == "ok"),
    "CopytreeIgnoresExclude": (lambda: _case({"j1": dict(files={"f": ("A", 1), "g": ("A", 1)})}, {}, exclude="f"),
                               lambda r: "f" in r["post"]["jobs"].get("j1", {"dir": {"f": {}}})["dir"]["f"]),
    "DircmpIgnoreList": (lambda: _case({"j1": dict(files={"tags": ("A", 1), "g": ("A", 1)})}, {"j1": {}}, entry="Job.sync"),
                         lambda r: "tags" not in r["post"]["jobs"]["j1"]["dir"]["f"]),
    "CloneExcludeHitsSpecial": (lambda: _case({"j1": dict(files={"f": ("A", 1)})}, {}, exclude="*"),
                                lambda r: "j1" in r["post"]["jobs"] and not r["post"]["jobs"]["j1"]["sp"]),
    "SpecialByPrefix": (lambda: _case({"j1": dict(files={SPFN + ".bak": ("A", 1), "g": ("A", 1)})}, {"j1": {}}, entry="Job.sync"),
                        lambda r: SPFN + ".bak" not in r["post"]["jobs"]["j1"]["dir"]["f"]),
    "DryJobNeedsDstDir": (lambda: _case({"j1": dict(files={"f": ("A", 1)})}, {}, entry="Job.sync", dryRun=True),
                          lambda r: r["res"] == "FileNotFoundError"),
}


def probe_deviations(ctx):
    work = ctx.mkdtemp("probe")
    flags = {}
    for name in DEVIATIONS:
        if name == "CliFilterOnCwd":              # `signac sync -m -f a 1` where the matching job exists only in the source
            c = _case({"j1": dict(files={"f": ("A", 1)})}, {})
            c["cmd"] = cli_cmd(c["o"], sel={"kind": "filter", "ids": [], "fk": "a", "fv": "1"}, merge=True)
            flags[name] = "j1" not in execute_cli(c, work)["post"]["jobs"]
            continue
        mk, pred = PROBES[name]
        flags[name] = bool(pred(execute(mk(), work)))
    ctx.cov["deviation_flags"] = dict(flags)
    return flags


# ---- seeded random deeper trees (code -> spec): inputs only; the judgement is TLC's --------------------------------
FILE_NAMES = ["f1", "f2", "g1", "data.txt", "h"]
DIR_NAMES = ["s", "t", "u"]
CONTENTS = ["A", "B", "CC", "DD", "EEE", "", "@20480:a", "@20480:m", "@20480:f", "@20480:z", "@71680:a", "@71680:m"]


def _rand_dir(rnd, depth, tags):
    d = {"f": {}, "d": {}}
    for n in FILE_NAMES + (["tags", SPFN + ".bak", "signac_statepointXjson", DOCFN + ".orig"] if tags else []):
        if rnd.random() < 0.45:
            c = rnd.choice(CONTENTS)
            d["f"][n] = {"data": c, "size": len(expand(c)), "mtime": rnd.randint(1, 4)}
    if depth > 0:
        for n in DIR_NAMES:
            if rnd.random() < 0.35:
                d["d"][n] = _rand_dir(rnd, depth - 1, False)
                if tags and rnd.random() < 0.4:          # an embedded project / exported sub-tree: a nested file named like the state point file
                    d["d"][n]["f"][SPFN] = {"data": "B", "size": 1, "mtime": 1}
    return d


def _mutate_dir(rnd, s, depth, conflict):
    """destination directory related to the source one"""
    d = {"f": {}, "d": {}}
    for n, r in s["f"].items():
        k = rnd.random()
        if k < 0.3:
            d["f"][n] = dict(r)
        elif k < 0.5:
            continue
        elif k < 0.6:
            d["f"][n] = dict(r, mtime=rnd.randint(1, 4))
        elif k < 0.6 + 0.3 * conflict:
            same = [x for x in CONTENTS if x != r["data"] and len(expand(x)) == r["size"]]
            c = rnd.choice(same) if same and rnd.random() < 0.6 else rnd.choice([x for x in CONTENTS if x != r["data"]])
            d["f"][n] = {"data": c, "size": len(expand(c)), "mtime": rnd.choice([r["mtime"], r["mtime"], rnd.randint(1, 4)])}
        else:
            d["f"][n] = dict(r)
    for n in FILE_NAMES:
        if n not in s["f"] and n not in d["f"] and rnd.random() < 0.15:
            c = rnd.choice(CONTENTS)
            d["f"][n] = {"data": c, "size": len(expand(c)), "mtime": rnd.randint(1, 4)}
    for n, sub in s["d"].items():
        k = rnd.random()
        if k < 0.6:
            d["d"][n] = _mutate_dir(rnd, sub, depth - 1, conflict)
        elif k < 0.65:
            d["f"][n] = {"data": "A", "size": 1, "mtime": 1}            # a file where the source has a directory (R-funny)
    for n in DIR_NAMES:
        if n not in s["d"] and n not in d["f"] and n not in d["d"] and depth > 0 and rnd.random() < 0.15:
            if n in s["f"]:
                continue
            d["d"][n] = _rand_dir(rnd, depth - 1, False)
    return d


SCALARS = [1, 2, 3, "x", "y", [1, 2], [], 0, [7, 8], "T=2.0"]
KEYS = ["k1", "k2", "k3", "k4", "n"]


def _rand_doc(rnd, depth=1):
    doc = {}
    for k in KEYS:
        r = rnd.random()
        if r < 0.35:
            doc[k] = rnd.choice(SCALARS)
        elif r < 0.5 and depth > 0:
            doc[k] = _rand_doc(rnd, depth - 1)
        elif r < 0.56 and depth == 0:
            doc[k] = {"x": rnd.choice([1, 2])}          # a mapping inside the nested mapping (nested mixed-type conflicts)
    return doc


def _mutate_doc(rnd, s, conflict):
    d = {}
    for k, v in s.items():
        r = rnd.random()
        if r < 0.35:
            d[k] = json.loads(json.dumps(v))
        elif r < 0.55:
            continue
        elif r < 0.55 + 0.35 * conflict:
            d[k] = rnd.choice([x for x in SCALARS if x != v]) if not isinstance(v, dict) or rnd.random() < 0.3 else _mutate_doc(rnd, v, conflict)
        elif isinstance(v, dict):
            d[k] = _mutate_doc(rnd, v, conflict)
        else:
            d[k] = json.loads(json.dumps(v))
    for k in KEYS:
        if k not in d and k not in s and rnd.random() < 0.2:
            d[k] = rnd.choice(SCALARS)
    return d


def _job_of(rnd, d, doc):
    return {"sp": True, "dir": d, "doc": py_to_dv(doc), "dex": bool(doc) or rnd.random() < 0.15, "dmt": 0}


def random_case(rnd, prop, cid):
    conflict = {"C13": 0.25, "C14": 1.0, "C15": 0.6}[prop]
    sp_pool = [{"a": "1"}, {"a": "2"}, {"a": "3"}, {"b": "1"}, {"a": "1", "b": "2"}]
    if rnd.random() < 0.6:
        sp_pool = sp_pool[:3]
    sps = {"j%d" % i: sp for i, sp in enumerate(sp_pool)}
    toks = sorted(sps)
    sids = [t for t in toks if rnd.random() < 0.6][:4]
    src = {"jobs": {}, "pdoc": None, "pbak": False}
    dst = {"jobs": {}, "pdoc": None, "pbak": prop == "C14" and rnd.random() < 0.25}
    tags = prop == "C13" and rnd.random() < 0.15
    for t in sids:
        sd = _rand_dir(rnd, 3, tags)
        sdoc = _rand_doc(rnd)
        src["jobs"][t] = _job_of(rnd, sd, sdoc)
        if rnd.random() < 0.65:
            dst["jobs"][t] = _job_of(rnd, _mutate_dir(rnd, sd, 3, conflict), _mutate_doc(rnd, sdoc, conflict))
    for t in toks:
        if t not in sids and rnd.random() < 0.3:
            dst["jobs"][t] = _job_of(rnd, _rand_dir(rnd, 2, False), _rand_doc(rnd))
    for P in (src, dst):
        for j in P["jobs"].values():
            j["dmt"] = rnd.randint(1, 4) if j["dex"] else 0
            if rnd.random() < (0.25 if prop == "C14" and P is dst else 0.04):
                j["dir"]["f"][DOCFN + "~"] = {"data": OLDTXT, "size": len(OLDTXT), "mtime": rnd.randint(1, 4)}
    spd = _rand_doc(rnd)
    src["pdoc"], dst["pdoc"] = py_to_dv(spd), py_to_dv(_mutate_doc(rnd, spd, conflict * 0.6))
    names, keys, keynames = {DOCFN, DOCFN + "~"}, set(KEYS) | {"old", "x"}, set()
    for P in (src, dst):
        _all_keynames(P["pdoc"], keynames)
        for j in P["jobs"].values():
            _all_names(j["dir"], names)
            _all_keynames(j["doc"], keynames)
    proj = rnd.random() < 0.6
    c15 = prop == "C15"
    o = {"strategy": rnd.choice(["none", "always", "never", "update", "custom"]), "custom": [],
         "docSync": rnd.choice(["bykey", "bykeyfn", "bykeyre", "update", "nosync", "copy"]), "keysel": [],
         "recursive": rnd.random() < 0.6, "exclude": {"on": False, "names": []}, "selection": {"on": False, "ids": []},
         "checkSchema": prop == "C13" and rnd.random() < 0.4, "deep": c15 and rnd.random() < 0.5,
         "dryRun": c15 and rnd.random() < 0.3, "parallel": rnd.choice(["no", "two", "all"]) if c15 else "no",
         "entry": rnd.choice(["Project.sync", "sync_projects"] if proj else ["Job.sync", "sync_jobs"]),
         "jid": rnd.choice(sids) if sids and rnd.random() < 0.9 else rnd.choice(toks), "order": toks,
         "nord": sorted(names), "kord": sorted(keys), "sps": sps}
    if o["strategy"] == "custom":
        paths = set()
        for j in src["jobs"].values():
            _paths(j["dir"], [], paths)
        o["custom"] = sorted([list(p) for p in paths if rnd.random() < 0.5] + ([[DOCFN]] if rnd.random() < 0.5 else []))
    if o["docSync"] in ("bykeyfn", "bykeyre"):
        o["keysel"] = sorted(k for k in keynames if rnd.random() < 0.4)
    if prop != "C14" and rnd.random() < 0.4:
        pat = rnd.choice(["f", "g", "data", "h$", "f1$"])
        o["exclude"] = {"on": True, "names": sorted(n for n in names if re.match(pat, n))}
        o["excludePattern"] = pat
    if proj and prop != "C14" and rnd.random() < 0.4:
        o["selection"] = {"on": True, "ids": sorted(t for t in toks if rnd.random() < 0.5) if rnd.random() < 0.75 else []}
    return {"id": cid, "src": src, "dst": dst, "o": o, "pred": None, "feat": []}


def scale_cases(rnd, prop, first_id):
    """SCALE: many tiny jobs x parallel in {False, 2, 3, True}: every selected source job must be processed whatever the pool does with
    the work list (inputs only; the expected destination is SyncFn's, job by job, decided by TLC in file mode)"""
    out = []
    plan = [(n, par) for n in (17, 21, 33) for par in ("no", "two", "three", "all")] + [(8 * (os.cpu_count() or 1) + 3, "all")]
    for n, par in plan:
        toks = ["q%03d" % i for i in range(n + 2)]
        sps = {t: {"a": str(i)} for i, t in enumerate(toks)}

        def job(c, m, doc):
            return {"sp": True, "dir": {"f": {"f": {"data": c, "size": len(c), "mtime": m}}, "d": {}}, "doc": py_to_dv(doc), "dex": bool(doc), "dmt": 1 if doc else 0}
        src = {"jobs": {t: job(rnd.choice("AB"), 1, {"k1": i % 3}) for i, t in enumerate(toks[:n])}, "pdoc": EMPTY_DOC, "pbak": False}
        dst = {"jobs": {}, "pdoc": EMPTY_DOC, "pbak": False}
        for i, t in enumerate(toks[:n]):
            if i % 3 == 1:                           # common job: same file or an older differing one, compatible document
                c = src["jobs"][t]["dir"]["f"]["f"]["data"]
                dst["jobs"][t] = job(c if i % 2 else "CC", 1, {"k2": 1})
        dst["jobs"][toks[n]] = job("A", 2, {"k1": 7})       # destination-only job
        order = toks[:]
        rnd.shuffle(order)
        sel = {"on": False, "ids": []}
        if len(out) % 4 == 3:
            sel = {"on": True, "ids": sorted(rnd.sample(toks[:n], n - 4))}
        o = {"strategy": "always", "custom": [], "docSync": "bykey", "keysel": [], "recursive": False,
             "exclude": {"on": False, "names": []}, "selection": sel, "checkSchema": False, "deep": False, "dryRun": False,
             "parallel": par, "entry": ["Project.sync", "sync_projects"][len(out) % 2], "jid": toks[0], "order": order,
             "nord": sorted(["f", DOCFN, DOCFN + "~"]), "kord": ["k1", "k2", "old"], "sps": sps}
        out.append({"id": first_id + len(out), "src": src, "dst": dst, "o": o, "pred": None, "feat": []})
    return out


def _paths(d, pfx, acc):
    for n in d["f"]:
        acc.add(tuple(pfx + [n]))
    for n, s in d["d"].items():
        _paths(s, pfx + [n], acc)


# ---- verdicts ---------------------------------------------------------------------------------------------------
def _describe(rec):
    if "argv" in rec:
        return "$ signac %s   -> exit %s, %s" % (" ".join(_short(a) for a in rec["argv"]), rec.get("exit"), rec["res"])
    o = rec["o"]
    call = {"Project.sync": "dst.sync(src, ...)", "sync_projects": "sync_projects(src, dst, ...)",
            "Job.sync": "dst_job.sync(src_job, ...)", "sync_jobs": "sync_jobs(src_job, dst_job, ...)"}[o["entry"]]
    opts = "strategy=%s doc_sync=%s recursive=%s exclude=%s selection=%s check_schema=%s deep=%s dry_run=%s parallel=%s" % (
        o["strategy"], o["docSync"], o["recursive"], o["exclude"]["names"] if o["exclude"]["on"] else None,
        o["selection"]["ids"] if o["selection"]["on"] else None, o["checkSchema"], o["deep"], o["dryRun"], o["parallel"])
    return "%s with %s -> %s" % (call, opts, rec["res"])


def judge(ctx, prop, flags, recs, verdicts, source, stats, prefix=""):
    """TLC's verdict per recorded execution -> violations (stated requirement false on the real execution) / spec drift"""
    per_sig = stats.setdefault("per_signature", {})
    for rec in recs:
        v = verdicts[rec["id"]]
        o = rec["o"] if "o" in rec else cli_view(rec["cmd"])
        feat = tuple(rec.get("feat") or ())
        row = (o["entry"], o["strategy"], o["docSync"], o["recursive"], o["exclude"]["on"], o["selection"]["on"], o["checkSchema"],
               o["deep"], o["dryRun"], o["parallel"])
        ctx.count(("case", source, row, feat, rec["res"]), traces=1 + (rec["res"] == "ok" and not o["dryRun"]) + (o["parallel"] != "no"))
        if v.get("abort"):      # R-parallel-abort: error under parallel, post-state not judged (only the timing-independent requirements)
            stats["error_under_parallel_post_state_not_judged"] = stats.get("error_under_parallel_post_state_not_judged", 0) + 1
        stats.setdefault("results", {}).setdefault(rec["res"], 0)
        stats["results"][rec["res"]] += 1
        for f in feat:
            stats.setdefault("features", {}).setdefault(f, 0)
            stats["features"][f] += 1
        for t in v["tags"]:
            sig = "%s%s:%s" % (prefix, t["req"], t["tag"])
            per_sig[sig] = per_sig.get(sig, 0) + 1
            if per_sig[sig] <= 2:
                ctx.violation(sig, "requirement %s of %s is false on a real execution (%s): %s" % (t["req"], prop, t["tag"], _describe(rec)),
                              {"prop": prop, "case": {k: rec[k] for k in ("id", "src", "dst", "o", "cmd") if k in rec}, "flags": flags, "cli": bool(prefix),
                               "control_order": source != "random", "requirement": t["req"], "tag": t["tag"]})
        if v["why"]:
            stats["nonconformant"] = stats.get("nonconformant", 0) + 1
            if len(stats.setdefault("nonconformant_examples", [])) < 5:
                stats["nonconformant_examples"].append({"why": v["why"], "call": _describe(rec), "expected": v["exp"], "src": rec["src"],
                                                        "dst": rec["dst"], "post": rec["post"], "order": o["order"], "jid": o["jid"],
                                                        "fn": rec["fn"], "keys": rec["keys"], "cons": rec["cons"], "custom": o["custom"], "keysel": o["keysel"]})
            if not v["viol"]:
                ctx.spec_drift("%s: recorded execution is not a behaviour of Sync.tla (%s): %s; specification expects %s" % (
                    source, v["why"], _describe(rec), v["exp"]["res"]))
            else:
                ctx.cov["conformant"] = False


def selftest(ctx, prop, flags, work):
    """binding self-test: corrupted observations must be rejected by TLC (conformance) and trip the requirement"""
    base = execute(_case({"j1": dict(files={"f": ("A", 2), "g": ("A", 1)}, doc={"k": 1})},
                         {"j1": dict(files={"f": ("B", 1), "h": ("A", 1)}, doc={"x": 1}), "j2": dict(files={"f": ("A", 1)})},
                         strategy="never", entry="Project.sync"), work)
    dry = execute(_case({"j1": dict(files={"f": ("A", 1)})}, {"j1": dict(files={"f": ("A", 1)})}, dryRun=True, entry="Job.sync"), work)
    muts = []

    def mut(name, rec, fn, expect):
        r = json.loads(json.dumps(rec))
        try:
            fn(r)
        except (KeyError, TypeError):
            return          # the base execution itself is off (a broken tree under test): the main run reports that
        r["id"] = len(muts) + 1
        muts.append((name, r, expect))
    mut("intact", base, lambda r: None, None)
    mut("post file content flipped", base, lambda r: r["post"]["jobs"]["j1"]["dir"]["f"]["g"].update(data="B"), "conf")
    mut("result class changed", base, lambda r: r.update(res="FileSyncConflict", fn="f"), "conf")
    if prop == "C13":
        mut("selected job dropped from post-state", base, lambda r: r["post"]["jobs"].pop("j1"), "Superset")
        mut("destination-only file modified", base, lambda r: r["post"]["jobs"]["j1"]["dir"]["f"]["h"].update(data="B"), "DstOnlyUntouched")
        mut("source changed", base, lambda r: r.update(srcSame=False), "SrcUntouched")
        mut("second run changed the destination", base, lambda r: r["post2"]["jobs"]["j2"]["dir"]["f"]["f"].update(data="B"), "Idempotent")
    elif prop == "C14":
        mut("file overwritten although strategy said no", base, lambda r: r["post"]["jobs"]["j1"]["dir"]["f"]["f"].update(data="A", mtime=NOW), "OverwriteIffStrategy")
    else:
        mut("dry run changed the raw tree", dry, lambda r: r.update(rawSame=False), "DryRunFrame")
    ver = validate(ctx, prop, flags, [m[1] for m in muts], label="selftest")
    out = {}
    for name, r, expect in muts:
        v = ver[r["id"]]
        if expect is None:
            good = not v["why"] and not v["viol"]
        elif expect == "conf":
            good = bool(v["why"])
        else:
            good = expect in v["viol"]
        out[name] = bool(good)
    if not out.get("intact"):
        return {"skipped": "the base executions are already rejected by TLC on this tree (see the violations of the main run)"}
    if not all(out.values()):
        raise core.MachineryError("binding self-test failed: %r" % out)
    return out


NEED = {
    "C13": ["clone", "sync-existing", "leftonly-file", "leftonly-nested", "dst-only-file", "dst-only-key", "excluded-src-file",
            "unselected-src-job", "job-dst-absent", "multi-job", "empty-selection", "special-like-name-top", "special-name-nested-common-dir",
            "special-name-nested-source-only-dir", "res:ok", "res:SchemaSyncConflict"],
    "C14": ["diff-newer", "diff-older", "diff-eqtime", "diff-shallow-equal", "diff-nested", "diff-large-before-last-block", "diff-large-last-byte", "doc-conflict", "doc-conflict-nested",
            "doc-conflict-with-mergeable-key", "doc-mixed-type", "doc-map-over-plain", "doc-mixed-type-nested", "stale-backup", "stale-backup-at-doc-conflict",
            "res:ok", "res:FileSyncConflict", "res:DocumentSyncConflict", "res:TypeError", "res:RuntimeError"],
    "C15": ["clone", "sync-existing", "diff-shallow-equal", "diff-large-before-last-block", "diff-large-nested", "diff-large-last-byte", "diff-excluded", "excluded-src-file", "unselected-src-job", "multi-job",
            "job-dst-absent", "leftonly-nested", "doc-conflict-nested", "empty-selection"],
}
EXCUSABLE = {"C13": ["FilesArrive"], "C14": [], "C15": ["DryRunFrame", "DeepByContent", "ExcludeFrame"]}
SIZES = {  # (generated cases, shards, random deeper trees, cases of the steps model)
    "quick": {"C13": (4000, 4, 500, 60), "C14": (3000, 4, 500, 60), "C15": (3000, 4, 400, 120)},
    # thorough = FULL option product (C13 5760 rows, C14 960, C15 36000), every row with several project pairs; measured at 8 processes on a
    # machine with load average > 100: C13 100000+6000 executions 37 min, C14 64000+6000 26 min -> sized for <= 30 min at 16 processes
    "thorough": {"C13": (80000, 16, 5000, 400), "C14": (56000, 16, 5000, 400), "C15": (72000, 16, 4000, 1500)},
}


def run_property(ctx, prop):
    ntot, shards, nrand, nsteps = SIZES[ctx.tier][prop]
    if os.environ.get("VERIF_SYNC_SCALE"):
        k = float(os.environ["VERIF_SYNC_SCALE"])
        ntot, nrand = max(shards, int(ntot * k)), max(10, int(nrand * k))
    shards = min(shards, PROCS)
    full = not ctx.quick
    reqs = REQS[prop]
    stats = {}
    ctx.assumptions += ["TLC and the TLA+ community modules (Json, Randomization)", "the re engine (which names / keys a pattern matches is computed with re.match and checked)",
                        "shutil / filecmp of the standard library are exercised as part of signac, os.walk + json for observation",
                        "mtimes are set explicitly (os.utime ns); everything the sync writes is later than all of them",
                        "job listing order: os.listdir of the source workspace is ordered as the case prescribes (generated cases) or recorded (random trees)"]
    ctx.cov["rule"] = ("case = (source project, destination project, options, listing order); generated by TLC from Sync.tla: option rows = "
                       + ("full product" if full else "pairwise covering rows (PairwiseCovered is an ASSUME checked by TLC)")
                       + " of the property's option dimensions x random project pairs over 3 state points, files f g [tags] + directory s/f, 3 contents of 2 sizes, "
                       "2 mtimes, documents over k1 k2 n (scalar / {} / nested mapping), project documents; distinct = distinct (entry, option row, feature set, result); "
                       "plus seeded random deeper trees (depth 3, 6 contents, 4 mtimes, lists/strings in documents) validated code -> spec")
    flags = probe_deviations(ctx)
    work = ctx.mkdtemp("st")
    ctx.cov["binding_selftest"] = selftest(ctx, prop, flags, work)
    # 1. the requirements hold on SyncFn with every deviation switched off (what the code should do)
    ideal = {d: False for d in DEVIATIONS}
    generate(ctx, prop, ideal, 400 if ctx.quick else 4000, False, min(4, shards), reqs + ["ExcusesOnlyWithDeviation"], label="ideal")
    # 3. the pure requirement on the conformant model: TLC's counterexample is replayed on the real code
    for req in EXCUSABLE[prop]:
        cx = model_counterexample(ctx, prop, flags, req)
        if cx is None:
            continue
        cx["id"] = 10**9 + len(stats.setdefault("counterexamples", {}))
        rec = execute(cx, work)
        v = validate(ctx, prop, flags, [rec], label="cx-" + req)
        confirmed = req in v[rec["id"]]["viol"]
        stats["counterexamples"][req] = {"confirmed_on_real_code": confirmed, "call": _describe(rec)}
        if confirmed:
            judge(ctx, prop, flags, [rec], v, "counterexample", stats)
        else:
            ctx.spec_drift("TLC's counterexample to %s does not reproduce on the real code: %s" % (req, _describe(rec)))
    if prop == "C15":
        steps_check(ctx, prop, flags, nsteps)
    # 2 + 4. the conformant model (requirements hold except where a named deviation explains the failure) generates the cases;
    #        spec -> code: every case is run on the real code and TLC judges the recorded executions.  In rounds, to bound memory.
    stats["predicted_violations"] = {}
    per_round = 2000 * shards
    done = rnd_no = 0
    while done < ntot:
        n = min(per_round, ntot - done)
        cases = generate(ctx, prop, flags, n, full, shards, reqs + ["ExcusesOnlyWithDeviation"], label="gen%d" % rnd_no, offset0=done, salt=rnd_no)
        for c in cases:
            for nm in c["pred"]["viol"]:
                stats["predicted_violations"][nm] = stats["predicted_violations"].get(nm, 0) + 1
        recs = execute_all(ctx, cases)
        feats = {c["id"]: c["feat"] for c in cases}
        del cases
        for r in recs:
            r["feat"] = feats[r["id"]]
        ver = validate(ctx, prop, flags, recs, label="file%d" % rnd_no)
        judge(ctx, prop, flags, recs, ver, "generated", stats)
        if rnd_no == 0:
            for r in recs[:3]:
                ctx.sample({"source": "generated", "call": _describe(r), "options": {k: v for k, v in r["o"].items() if k not in ("nord", "kord", "sps")},
                            "src": r["src"], "dst": r["dst"], "post": r["post"], "tlc": {k: ver[r["id"]][k] for k in ("why", "viol")}})
        done += len(recs)
        rnd_no += 1
        del recs, ver
    stats["generated_cases"] = done
    missing = [f for f in NEED[prop] if not stats.get("features", {}).get(f)]
    if missing:
        raise core.MachineryError("vacuous run: no generated case exercises %s" % missing)
    # 5. code -> spec: seeded deeper random trees, uncontrolled listing order
    rnd = random.Random(ctx.seed * 31 + {"C13": 13, "C14": 14, "C15": 15}[prop])
    rcases = [random_case(rnd, prop, 2 * 10**9 + i) for i in range(nrand)]
    rrecs = execute_all(ctx, rcases, control_order=False)
    rver = validate(ctx, prop, flags, rrecs, label="random")
    rstats = {}
    judge(ctx, prop, flags, rrecs, rver, "random", rstats)
    for r in rrecs[:2]:
        ctx.sample({"source": "random deeper tree", "call": _describe(r), "src": r["src"], "dst": r["dst"], "post": r["post"],
                    "tlc": {k: rver[r["id"]][k] for k in ("why", "viol")}})
    # 6. SCALE: many jobs x parallel in {False, 2, 3, True}; Superset / OrderConfluent on the real destination, job by job
    if prop in ("C13", "C15"):
        scases = scale_cases(rnd, prop, 2 * 10**9 + 10**6)
        srecs = execute_all(ctx, scases, procs=4)
        sver = validate(ctx, prop, flags, srecs, label="scale")
        sstats = {}
        judge(ctx, prop, flags, srecs, sver, "scale", sstats)
        stats["scale"] = {"executions": len(srecs), "jobs": sorted({len(c["src"]["jobs"]) for c in scases}),
                          "results": sstats.get("results"), "nonconformant": sstats.get("nonconformant", 0)}
        if sstats.get("results", {}).get("ok", 0) != len(srecs) and not sstats.get("per_signature"):
            raise core.MachineryError("scale cases are meant to return: %r" % sstats.get("results"))
    # 7. the command line front end
    cli_phase(ctx, prop, flags, stats)
    stats["random"] = {"executions": len(rrecs), "results": rstats.get("results"), "nonconformant": rstats.get("nonconformant", 0),
                       "per_signature": rstats.get("per_signature")}
    ctx.cov["sync"] = stats
    ctx.cov["exhaustive"] = False
    ctx.notes.append("R-parallel-abort: a project-level sync with parallel != False that ends in an error has a timing-dependent post-state; only the "
                     "error / exit status, the untouched source, the unselected jobs and 'fails iff sequential fails' are judged for it (counted as "
                     "error_under_parallel_post_state_not_judged in coverage.sync[...])")
    ctx.notes.append("calibrated rules (never flagged): R-shallow, R-funny, R-update, R-copy, R-mixed - see Sync.tla section 2")


def replay(ctx, data):
    """re-run one violation: execute the case on the real tree, let TLC judge it, print both"""
    su_work = ctx.mkdtemp("replay")
    flags = probe_deviations(ctx)
    if data.get("cli"):
        rec = execute_cli(data["case"], su_work)
        v = validate(ctx, data["prop"], flags, [rec], label="replay", mode="clifile")[rec["id"]]
    else:
        rec = execute(data["case"], su_work, control_order=data.get("control_order", True))
        v = validate(ctx, data["prop"], flags, [rec], label="replay")[rec["id"]]
    print(_describe(rec))
    print("source     :", json.dumps(data["case"]["src"]))
    print("destination:", json.dumps(data["case"]["dst"]))
    print("after      :", json.dumps(rec["post"]), "raw tree unchanged:", rec["rawSame"], "source unchanged:", rec["srcSame"])
    print("TLC: conformance %s; violated requirements %s %s" % (v["why"] or "ok", v["viol"], v["tags"]))
    if data.get("cli"):
        print("exit status %s; skipped keys %s; statistics %s %s" % (rec["exit"], rec["skipped"], rec["nstat"], rec["stderr"]))
    hit = any(t["req"] == data.get("requirement") and t["tag"] == data.get("tag") for t in v["tags"]) if data.get("requirement") else bool(v["viol"])
    return 1 if hit else 0


# ---- the command line front end: `signac sync <source> [destination] [flags]` (Sync.tla section 1d) -------------------
def cli_cmd(o, **kw):
    """a command record of the specification with every flag off (hand-written cases / probes)"""
    m = {"strategy": "none", "viaU": False, "bad": "none", "keyMode": "default", "keysel": [], "recursive": False, "archive": False,
         "perms": False, "times": False, "exclude": {"on": False, "names": [], "sp": False, "doc": False}, "deep": False,
         "sizeOnly": False, "roundTimes": False, "dryRun": False, "merge": False, "force": False, "parallel": "no",
         "sel": {"kind": "none", "ids": [], "fk": "", "fv": ""}, "stats": False, "destArg": False,
         "order": o["order"], "nord": o["nord"], "kord": o["kord"], "sps": o["sps"]}
    m.update(kw)
    return m


def cli_view(m):
    """display / counting only: the flags in the vocabulary of the library-level option rows"""
    return {"entry": "signac sync", "strategy": "update" if m["viaU"] else m["strategy"], "docSync": "key:" + m["keyMode"], "recursive": m["recursive"] or m["archive"],
            "exclude": m["exclude"], "selection": {"on": m["sel"]["kind"] != "none", "ids": m["sel"]["ids"] or [m["sel"]["fk"], m["sel"]["fv"]]},
            "checkSchema": not (m["merge"] or m["force"]), "deep": m["deep"], "dryRun": m["dryRun"], "parallel": m["parallel"],
            "order": m["order"], "jid": "", "custom": [], "keysel": m["keysel"]}


def _short(a):
    a = str(a)
    return a if len(a) < 60 else "..." + a[-40:]


def cli_argv(m, src_root, dst_root, names, keynames, variant=0):
    """command record -> argv as a user types it (pure spelling; which names a pattern matches is checked with re.match)"""
    sps = m["sps"]
    argv = ["sync", src_root] + ([dst_root] if m["destArg"] else [])
    bad = m["bad"]
    if m["viaU"]:
        argv.append("-u" if variant % 2 else "--update")
        if bad == "u+s":
            argv += ["-s", "never"]
    elif m["strategy"] != "none":
        argv += ["-s" if variant % 2 else "--strategy", m["strategy"]]
        if bad == "u+s":
            argv.append("-u")
    elif bad == "u+s":
        argv += ["-u", "-s", "always"]
    if bad == "two-keys":
        argv += ["--all-keys", "--no-keys"]
    elif m["keyMode"] == "all":
        argv.append("--all-keys")
    elif m["keyMode"] == "none":
        argv.append("--no-keys")
    elif m["keyMode"] == "regex":
        argv += ["-k", _regex_for(set(m["keysel"]), set(keynames) | set(m["keysel"]), "key")]
    if bad == "t-no-p":
        argv.append("-t")
    else:
        for flag, on in (("-r", m["recursive"]), ("-a", m["archive"]), ("-p", m["perms"]), ("-t", m["times"])):
            if on:
                argv.append(flag)
    if m["deep"]:
        argv.append("-I" if variant % 2 else "--ignore-times")
    for flag, on in (("--size-only", m["sizeOnly"]), ("--round-times", m["roundTimes"]), ("-n" if variant % 2 else "--dry-run", m["dryRun"]),
                     ("-m", m["merge"]), ("--force", m["force"])):
        if on:
            argv.append(flag)
    if m["stats"]:
        argv += ["--stats", "--json"]
    if m["exclude"]["on"]:
        pat = exclude_pattern(m["exclude"], names)
        argv += ["-x"] if pat == ".*" else ["-x", pat]          # -x alone means ".*"
    if m["parallel"] != "no":
        argv += ["--parallel"] + ({"two": ["2"], "three": ["3"], "all": []}[m["parallel"]])
    if m["sel"]["kind"] == "jobid":
        argv += ["-j"] + [real_id(sps[t]) if t in sps else core.my_id({"no such job": t}) for t in m["sel"]["ids"]]
    elif m["sel"]["kind"] == "filter":
        argv += ["-f", m["sel"]["fk"], m["sel"]["fv"]]
    return argv


def parse_cli(code, out, err):
    """exit status + what was printed -> the specification's tokens (message class, payload, skipped keys, statistics)"""
    res, fn, keys, skipped, nstat = "unknown", "", [], [], -1
    m = re.search(r"no strategy defined to synchronize keys:\n(.*)\n", err)
    f = re.search(r"no strategy defined to synchronize files:\n.*?filename '(.*)' caused a conflict", err)
    if "requires the -m/--merge option" in err:
        res = "SchemaSyncConflict"
    elif m:
        res, keys = "DocumentSyncConflict", sorted(k.strip() for k in m.group(1).split(",") if k.strip())
    elif f:
        res, fn = "FileSyncConflict", f.group(1)
    elif re.search(r"^Error: ", err, re.M):
        res = "Error"
    elif re.search(r"^Done\.$", err, re.M):
        res = "ok"
    m = re.search(r"^Skipped key\(s\): (.*)$", err, re.M)
    if m:
        skipped = sorted(k.strip() for k in m.group(1).split(",") if k.strip())
    m = re.search(r"# Transfer statistics.*\n(\{.*\})", out)
    if m:
        nstat = int(json.loads(m.group(1))["num_files"])
    return res, fn, keys, skipped, nstat


def execute_cli(case, work):
    """one command line case on the real entry point (clifront.run_cli: its own forked process, cwd = destination project)"""
    from .clifront import run_cli
    m, sps = case["cmd"], case["cmd"]["sps"]
    base = tempfile.mkdtemp(prefix="cli-", dir=work)
    try:
        names, keynames = set([DOCFN]), set()
        for P in (case["src"], case["dst"]):
            _all_keynames(P["pdoc"], keynames)
            for j in P["jobs"].values():
                _all_names(j["dir"], names)
                _all_keynames(j["doc"], keynames)
        order = [real_id(sps[t]) for t in m["order"] if t in sps]
        v = int(case.get("id", 0))

        def once(a, b, cmd):
            argv = cli_argv(cmd, a, b, names, keynames, v)
            filecmp.clear_cache()
            with _ListOrder(os.path.join(a, "workspace"), order):          # inherited by the forked command
                code, out, err = run_cli(base, b, argv)
            return argv, code, parse_cli(code, out, err), err

        def fresh(tag):
            a, b = os.path.join(base, tag + "-src"), os.path.join(base, tag + "-dst")
            materialise(a, case["src"], sps)
            materialise(b, case["dst"], sps)
            return a, b
        a, b = fresh("m")
        sa0, sb0 = raw_snapshot(a), raw_snapshot(b)
        argv, code, (res, fn, keys, skipped, nstat), err = once(a, b, m)
        sa1, sb1 = raw_snapshot(a), raw_snapshot(b)
        post = observe(b, sps)
        rec = {"id": case.get("id", 0), "src": case["src"], "dst": case["dst"], "cmd": m, "argv": ["sync", "<src>"] + argv[2 + bool(m["destArg"]):],
               "post": post, "res": res, "fn": fn, "keys": keys, "cons": [], "exit": code, "skipped": skipped, "nstat": nstat,
               "stderr": err[-400:] if res in ("unknown", "Error") else "",
               "srcSame": sa0 == sa1, "srcAfter": observe(a, sps), "rawSame": sb0 == sb1,
               "post2": post, "res2": res, "seqPost": post, "seqRes": res}
        if res == "ok" and not m["dryRun"]:
            rec["res2"] = once(a, b, m)[2][0]
            rec["post2"] = observe(b, sps)
            if raw_snapshot(a) != sa0:
                rec["srcSame"] = False
        if m["parallel"] != "no":
            a2, b2 = fresh("s")
            rec["seqRes"] = once(a2, b2, dict(m, parallel="no"))[2][0]
            rec["seqPost"] = observe(b2, sps)
        return rec
    finally:
        shutil.rmtree(base, ignore_errors=True)


def _exec_cli_chunk(arg):
    work, cases = arg
    return [execute_cli(c, work) for c in cases]


def cli_phase(ctx, prop, flags, stats):
    """spec -> code over the command line: TLC generates (projects, flags), checks the requirements on CliFn = flags ; SyncFn,
    every case is run through the real `signac sync`, TLC judges exit status, messages, statistics and the resulting tree"""
    n = (300 if ctx.quick else 6000)
    if os.environ.get("VERIF_SYNC_SCALE"):
        n = max(40, int(n * float(os.environ["VERIF_SYNC_SCALE"])))
    shards = 2 if ctx.quick else min(8, PROCS)
    reqs = REQS[prop] + ["ExcusesOnlyWithDeviation"]
    cases = generate(ctx, prop, flags, n, False, shards, reqs, label="cligen", salt=77, mode="cligen")
    work = ctx.mkdtemp("cli")
    k = max(1, min(len(cases), PROCS * 4))
    recs = [r for ch in core.pmap(_exec_cli_chunk, [(work, cases[i::k]) for i in range(k)], procs=PROCS, chunks=1) for r in ch]
    recs.sort(key=lambda r: r["id"])
    feats = {c["id"]: c["feat"] for c in cases}
    for r in recs:
        r["feat"] = feats[r["id"]]
    ver = validate(ctx, prop, flags, recs, label="clifile", mode="clifile")
    cst = {}
    judge(ctx, prop, flags, recs, ver, "command line", cst, prefix="cli:")
    flagcount = {}
    for r in recs:
        m = r["cmd"]
        for f in ["viaU", "recursive", "archive", "perms", "times", "deep", "sizeOnly", "roundTimes", "dryRun", "merge", "force", "stats", "destArg"]:
            flagcount[f] = flagcount.get(f, 0) + bool(m[f])
        for f, val in (("strategy", m["strategy"]), ("key", m["keyMode"]), ("bad", m["bad"]), ("sel", m["sel"]["kind"]), ("parallel", m["parallel"]),
                       ("exclude", "all" if m["exclude"]["sp"] else ("pattern" if m["exclude"]["on"] else "off"))):
            flagcount["%s=%s" % (f, val)] = flagcount.get("%s=%s" % (f, val), 0) + 1
    need = ["recursive", "archive", "times", "merge", "force", "stats", "destArg", "viaU", "key=all", "key=none", "key=regex", "sel=jobid", "sel=filter",
            "exclude=all", "exclude=pattern", "bad=u+s", "bad=t-no-p", "bad=two-keys"] + (["deep", "dryRun", "sizeOnly", "parallel=two", "parallel=all"] if prop == "C15" else [])
    missing = [f for f in need if not flagcount.get(f)]
    rs = cst.get("results", {})
    missing += [r for r in ("ok", "Error", "DocumentSyncConflict", "FileSyncConflict", "SchemaSyncConflict") if not rs.get(r)]
    if missing:
        raise core.MachineryError("vacuous command line phase: never exercised %s" % missing)
    if rs.get("unknown"):
        ctx.spec_drift("command line: %d outputs could not be classified" % rs["unknown"])
    # binding self-test of this phase: a corrupted expectation (exit status, message class) must be rejected by TLC
    good = next((r for r in recs if r["res"] == "ok" and not ver[r["id"]]["why"] and not ver[r["id"]]["viol"]), None)
    st = {}
    if good is not None:
        bad1 = dict(json.loads(json.dumps(good)), id=1, exit=1)
        bad2 = dict(json.loads(json.dumps(good)), id=2, res="FileSyncConflict", fn="f", exit=1)
        sv = validate(ctx, prop, flags, [bad1, bad2], label="cli-selftest", mode="clifile")
        st = {"exit status flipped": "CliExit" in sv[1]["viol"] or bool(sv[1]["why"]), "message class changed": bool(sv[2]["why"])}
        if not all(st.values()):
            raise core.MachineryError("command line binding self-test failed: %r" % st)
        if isinstance(ctx.cov.get("binding_selftest"), dict):
            ctx.cov["binding_selftest"].update({"cli: " + k: v for k, v in st.items()})
    for r in recs[:2]:
        ctx.sample({"source": "command line", "call": _describe(r), "src": r["src"], "dst": r["dst"], "post": r["post"],
                    "tlc": {k: ver[r["id"]][k] for k in ("why", "viol")}})
    stats["cli"] = {"executions": len(recs), "results": rs, "error_under_parallel_post_state_not_judged": cst.get("error_under_parallel_post_state_not_judged", 0), "flags": flagcount, "nonconformant": cst.get("nonconformant", 0),
                    "per_signature": cst.get("per_signature"), "nonconformant_examples": cst.get("nonconformant_examples", [])[:3]}

"""Helpers of the C05 engine (documents / buffering): value translation between TLC's printed values,
the wire format and Python; a sandbox that executes ONE specification operation on real signac; raw
observation of the document files; state-graph reader and edge cover; seeded random operation sequences.

Nothing here knows what an operation is supposed to DO - expected values always come from TLC."""
import json
import os
import re
import shutil

from . import core, tlaparse
from .jsonenc import cps, to_wire, uncps

JOBDOC = "signac_job_document.json"          # file names as the property's anchors state them
PROJDOC = "signac_project_document.json"
DEFAULT_CAP = 32 * 2 ** 20
ABSENT = "<ABSENT>"


# ---- values ----------------------------------------------------------------------------------
def spec_to_py(v):
    """parsed TLC value (ordered JSON value of Documents.tla) -> Python value (dicts in spec key order)"""
    t = v["t"]
    if t == "null":
        return None
    if t == "bool":
        return bool(v["b"])
    if t == "int":
        return int(v["n"])
    if t == "big":
        return int(uncps(v["a"]))
    if t == "flt":
        return float(uncps(v["a"]))
    if t == "str":
        return uncps(v["a"])
    if t == "list":
        return [spec_to_py(x) for x in v["l"]]
    if t == "map":
        return {uncps(p[0]): spec_to_py(p[1]) for p in v["m"]}
    raise ValueError(t)


def wire_to_py(w):
    if w["t"] == "list":
        return [wire_to_py(x) for x in w["l"]]
    if w["t"] == "map":
        return {uncps(k): wire_to_py(x) for k, x in w["m"]}
    return spec_to_py(w)


def eq_exact(a, b, order=False):
    """JSON equality, type exact (1 != 1.0 != True); dict key order compared only if order=True"""
    if isinstance(a, dict) and isinstance(b, dict):
        if order and list(a) != list(b):
            return False
        return a.keys() == b.keys() and all(eq_exact(a[k], b[k], order) for k in a)
    if isinstance(a, (list, tuple)) and isinstance(b, (list, tuple)):
        return len(a) == len(b) and all(eq_exact(x, y, order) for x, y in zip(a, b))
    if type(a) is not type(b):
        return False
    if isinstance(a, float):
        return repr(a) == repr(b)
    return a == b


def plain(x):
    """a returned value -> plain JSON value, without triggering a load (the dependency's own encoder)"""
    if x is None or isinstance(x, (bool, int, float, str)):
        return x
    from synced_collections.utils import SyncedCollectionJSONEncoder
    return json.loads(json.dumps(x, cls=SyncedCollectionJSONEncoder))


def is_ident(k):
    return bool(re.fullmatch(r"[A-Za-z][A-Za-z0-9]*", k)) and len(k) < 12


# ---- sandbox ----------------------------------------------------------------------------------
class Sandbox:
    """A real signac project in a temporary directory plus the table  handle -> Python object."""

    def __init__(self, root):
        import signac
        self.signac = signac
        self.root = root
        os.makedirs(root, exist_ok=True)
        signac.init_project(root)
        self.projects, self.jobs, self.rk = {}, {}, {}
        self.depth = 0
        self._hard_reset()

    # -- buffer hygiene between runs (class level state of the dependency survives a run)
    def _hard_reset(self):
        s = self.signac
        try:
            while s.is_buffered():
                s.buffered().__exit__(None, None, None)
        except Exception:
            pass
        for cls in {getattr(s, "JSONDict", None), type(self.project(0).doc)}:
            if cls is None:
                continue
            try:
                ctx = cls._buffer_context
                while ctx:
                    try:
                        ctx.__exit__(None, None, None)
                    except Exception:
                        pass
                getattr(ctx, "_original_buffer_capacitys", []).clear()
                cls._buffer.clear()
                cls._buffered_collections.clear()
                cls._CURRENT_BUFFER_SIZE = 0
                cls.set_buffer_capacity(DEFAULT_CAP)
            except Exception:
                pass
        try:
            s.set_buffer_capacity(DEFAULT_CAP)
        except Exception:
            pass
        self.depth = 0

    def close(self):
        self._hard_reset()
        self.projects.clear()
        self.jobs.clear()
        shutil.rmtree(self.root, ignore_errors=True)

    # -- handles
    def project(self, i):
        if i not in self.projects:
            self.projects[i] = self.signac.get_project(self.root)
        return self.projects[i]

    def sp(self, f):
        return {"j": f, "r": self.rk.get(f, 0)}

    def owner(self, h):
        f, i = h
        if f.startswith("p"):
            return self.project(i)
        if h not in self.jobs:
            self.jobs[h] = self.project(i).open_job(self.sp(f))
        return self.jobs[h]

    def drop_others(self, h):
        for x in [x for x in self.jobs if x[0] == h[0] and x != h]:
            del self.jobs[x]

    # -- raw observation, never through signac
    def docpath(self, f):
        if f.startswith("p"):
            return os.path.join(self.root, PROJDOC)
        return os.path.join(self.root, "workspace", core.my_id(self.sp(f)), JOBDOC)

    def disk(self, files):
        out = {}
        for f in files:
            p = self.docpath(f)
            try:
                with open(p, "rb") as fh:
                    out[f] = json.loads(fh.read())
            except FileNotFoundError:
                out[f] = ABSENT
            except ValueError:
                out[f] = "<UNPARSEABLE>"
        return out

    def litter(self):
        """temporary files left behind next to a document"""
        out = []
        for r, _, fs in os.walk(self.root):
            out += [os.path.join(r, x) for x in fs if x.startswith("._") or x.endswith("~")]
        return out

    # -- one operation
    def apply(self, ev):
        """ev: dict(op, h=(f, i), k, k2, ix, form, v (Python values), sp = spelling variant).
        Returns (exception class names (mro) or None, plain return value)."""
        try:
            return None, plain(self._do(ev))
        except Exception as e:  # the class is the observation
            return [c.__name__ for c in type(e).__mro__], None

    def _do(self, ev):
        op, sp = ev["op"], ev.get("sp", 0)
        s = self.signac
        if op == "enter":
            cm = s.buffered(ev["ix"]) if ev["form"] == "cap" else s.buffered()
            cm.__enter__()
            self.depth += 1
            return None
        if op == "exit":
            self.depth -= 1
            s.buffered().__exit__(None, None, None)
            return None
        h = tuple(ev["h"])
        own = self.owner(h)
        if op == "remove":
            try:
                own.remove()
            finally:
                self.drop_others(h)
            return None
        if op == "jclear":          # Job.clear(): remove all job data but not the job (clears the document)
            own.clear()
            return None
        if op == "jreset":
            own.reset()
            return None
        if op == "reinit":          # inside a block: remove and initialise again (the other handles hold no document object)
            own.remove()
            own.init()
            return None
        if op == "rekey":
            try:
                own.sp.r = self.rk.get(h[0], 0) + 1
            finally:
                self.rk[h[0]] = self.rk.get(h[0], 0) + 1
                self.drop_others(h)
            return None
        d = own.doc if sp % 2 == 0 else own.document
        k, v = ev.get("k"), ev.get("v")
        if op in ("set", "setbad"):
            if sp % 4 >= 2 and is_ident(k):
                setattr(d, k, v)
            else:
                d[k] = v
            return None
        if op == "del":
            if sp % 4 >= 2 and is_ident(k):
                delattr(d, k)
            else:
                del d[k]
            return None
        if op == "update":
            m = sp % 3
            if m == 1 and all(is_ident(x) for x in v):
                return d.update(**v)
            if m == 2:
                return d.update(list(v.items()))
            return d.update(v)
        if op == "setdefault":
            return d.setdefault(k, v)
        if op == "pop":
            return d.pop(k, v) if ev["form"] == "default" else d.pop(k)
        if op == "clear":
            return d.clear()
        if op == "reset":
            m = sp % 3
            if m == 0:
                own.doc = v
            elif m == 1:
                own.document = v
            else:
                d.reset(v)
            return None
        if op == "nset":
            if ev["form"] == "attr":
                setattr(getattr(d, k), ev["k2"], v)
            else:
                d[k][ev["k2"]] = v
            return None
        if op == "append":
            return d[k].append(v)
        if op == "lset":
            d[k][ev["ix"]] = v
            return None
        if op == "read":
            return d()
        if op == "get":
            fm = ev["form"]
            if fm == "item":
                return d[k]
            if fm == "attr":
                return getattr(d, k)
            if fm == "get":
                return d.get(k)
            return k in d
        raise core.MachineryError("unknown op %r" % op)


def exc_matches(got_mro, want):
    """expected exception class name vs the real one (subclass tolerance)"""
    if not want:
        return got_mro is None
    return got_mro is not None and want in got_mro


# ---- TLC state graph --------------------------------------------------------------------------
_EDGE = re.compile(r'^(-?\d+) -> (-?\d+) ')
_NODE = re.compile(r'^(-?\d+) \[label="((?:[^"\\]|\\.)*)"(.*)$')
WANT = ("disk", "ideal", "depth", "dev", "last")


def _parse_label(label):
    label = label.replace("\\n", "\n").replace('\\"', '"').replace("\\\\", "\\")
    st = {}
    for part in re.split(r"(?:^|\n)/\\ ", label):
        name, _, rest = part.partition(" = ")
        name = name.strip()
        if name in WANT:
            st[name] = tlaparse.parse_value(rest)
    return st


class LazyNodes:
    """node id -> state, parsed on demand from the raw dot label (a 100 000-state graph parsed eagerly needs GBs)"""

    def __init__(self, raw):
        self.raw = raw
        self._cache = {}

    def __getitem__(self, nid):
        st = self._cache.get(nid)
        if st is None:
            if len(self._cache) > 30000:
                self._cache.clear()
            st = self._cache[nid] = _parse_label(self.raw[nid])
        return st

    def __len__(self):
        return len(self.raw)

    def exc(self, nid):
        """expected exception class of the edge into this node ('' = none), read off the raw label"""
        m = re.search(r'res \|-> \[exc \|-> \\"(\w*)\\"', self.raw[nid])
        return m.group(1) if m else self[nid]["last"]["res"]["exc"]

    def op(self, nid):
        m = re.search(r'last = \[[^\]]*?\bop \|-> \\"(\w+)\\"', self.raw[nid])
        return m.group(1) if m else self[nid]["last"]["op"]


def load_graph(path, procs=8):
    """-> nodes (LazyNodes), edges [(src, dst)], init id.  The spec carries `last`, so an edge's operation
    and expected result are read off its destination node."""
    raw, edges, init = {}, [], None
    with open(path) as f:
        for line in f:
            m = _EDGE.match(line)
            if m:
                edges.append((m.group(1), m.group(2)))
                continue
            m = _NODE.match(line)
            if m:
                raw[m.group(1)] = m.group(2)
                if "filled" in m.group(3):
                    init = m.group(1)
    if init is None:
        raise core.MachineryError("no initial state in %s" % path)
    return LazyNodes(raw), edges, init


def edge_cover(nodes, edges, init):
    """Paths (lists of node ids starting at init) such that every edge of the graph lies on at least one
    path: shortest path to the edge's source (walking back along not yet covered edges where possible),
    then the edge.  Deepest edges first, so that shallow edges are covered on the way."""
    out_e, in_e = {}, {}
    for u, v in set(edges):
        if u == v and u == init:
            continue
        out_e.setdefault(u, []).append(v)
        in_e.setdefault(v, []).append(u)
    dist, order = {init: 0}, [init]
    for u in order:
        for v in sorted(out_e.get(u, ())):
            if v not in dist:
                dist[v] = dist[u] + 1
                order.append(v)
    alle = sorted(((u, v) for u in out_e for v in out_e[u] if u in dist), key=lambda e: (-dist[e[0]], e))
    covered, paths = set(), []
    for u, v in alle:
        if (u, v) in covered:
            continue
        rev = [v, u]
        x = u
        while x != init:
            cands = [p for p in in_e[x] if dist.get(p) == dist[x] - 1]
            fresh = [p for p in cands if (p, x) not in covered]
            p = min(fresh or cands)
            rev.append(p)
            x = p
        path = rev[::-1]
        for a, b in zip(path, path[1:]):
            covered.add((a, b))
        paths.append(path)
    return paths, len(alle)


def last_to_ev(last):
    """observation variable of a TLC state -> operation for Sandbox.apply (translation only)"""
    return {"op": last["op"], "h": (last["h"][0], last["h"][1]), "k": uncps(last["k"]), "k2": uncps(last["k2"]),
            "ix": last["i"], "form": last["form"], "v": spec_to_py(last["v"])}


# ---- recording (code -> spec) -------------------------------------------------------------------
TRACE_FILES = ("j1", "j2", "j3", "p")


def ev_record(ev, exc_mro, ret, post, known_exc):
    """one Hoare triple as a JSON object for DocumentsTrace.tla (all fields always present)"""
    if exc_mro is None:
        res = {"exc": "", "v": to_wire(ret)}
    else:
        name = next((c for c in exc_mro if c in known_exc), exc_mro[0])
        res = {"exc": name, "v": to_wire(None)}
    h = ev.get("h") or ("", 0)
    return {"op": ev["op"], "f": h[0], "i": h[1], "k": cps(ev.get("k") or ""), "k2": cps(ev.get("k2") or ""),
            "ix": ev.get("ix") or 0, "form": ev.get("form") or "", "v": to_wire(ev.get("v")), "res": res,
            "post": [{"f": f, "ex": not _absent(post[f]), "v": to_wire({} if _absent(post[f]) else post[f])} for f in TRACE_FILES]}


def _absent(x):
    return isinstance(x, str) and x == ABSENT


KNOWN_EXC = ("KeyError", "AttributeError", "TypeError", "IndexError", "KeyTypeError", "InvalidKeyError")


def run_recorded(root, evs):
    """execute a list of operations on a fresh project, recording every step"""
    sb = Sandbox(root)
    recs, raw = [], []
    try:
        for ev in evs:
            exc, ret = sb.apply(ev)
            post = sb.disk(TRACE_FILES)
            if any(isinstance(x, str) and x == "<UNPARSEABLE>" for x in post.values()):
                post = {f: ({"<unparseable>": True} if x == "<UNPARSEABLE>" else x) for f, x in post.items()}
            recs.append(ev_record(ev, exc, ret, post, KNOWN_EXC))
            raw.append((exc, ret, post))
        litter = sb.litter()
    finally:
        sb.close()
    return recs, raw, litter


# ---- seeded random operation sequences over large values ---------------------------------------
def rand_scalar(rnd):
    k = rnd.randrange(10)
    if k == 0:
        return None
    if k == 1:
        return rnd.random() < 0.5
    if k == 2:
        return rnd.choice([0, 1, -1, 2, 7, 10, 2 ** 31 - 1, 2 ** 31, -2 ** 31, 2 ** 53 - 1, rnd.randrange(-10 ** 15, 10 ** 15)])
    if k == 3:  # floats: "<int>.0" forms equal their integer; exponent forms never equal a generated int (spec guard)
        return rnd.choice([0.0, -0.0, 1.0, -1.0, 2.0, 7.0, 10.0, 0.5, 0.1, 1 / 3, -2.5, 1e-7, 5e-324, 1.5e300, 1e22,
                           round(rnd.uniform(-1000, 1000), 3) + 0.0001])
    if k == 4:
        return rnd.randrange(-3, 4)
    if k == 5:
        return float(rnd.randrange(-3, 4))
    alphabet = ["a", "b", "Z", "0", " ", "_", "\"", "\\", "\n", "\t", "\x00", "\x1f", "\x7f", "é", "ä", "ß", "€", "中", "😀", "𝒳", "/", "'"]
    return "".join(rnd.choice(alphabet) for _ in range(rnd.randrange(0, 6)))


KEYPOOL = ["a", "b", "n", "c", "aa", "B", "ä", "é", "key with space", "0", "1", "😀", "_x", "", "Z9", "中"]


def rand_value(rnd, depth):
    r = rnd.random()
    if depth <= 0 or r < 0.55:
        return rand_scalar(rnd)
    if r < 0.78:
        return [rand_value(rnd, depth - 1) for _ in range(rnd.randrange(0, 4))]
    return rand_map(rnd, depth - 1, rnd.randrange(0, 4))


def rand_map(rnd, depth, n):
    return {k: rand_value(rnd, depth) for k in rnd.sample(KEYPOOL, n)}


def rand_ops(rnd, length, njobs, nh, maxnest=3, lifecycle=True):
    """a random operation sequence; the generator only tracks the nesting depth (so that exit / remove are
    legal) - it does not know what the operations do"""
    files = ["j%d" % (i + 1) for i in range(njobs)] + ["p"]
    keys = rnd.sample(KEYPOOL, rnd.randrange(2, 6))
    depth, evs = 0, []
    pyeq_pool = [1, 1.0, True, 0, 0.0, False, -0.0, 2, 2.0]
    def val(d=2):
        return rnd.choice(pyeq_pool) if rnd.random() < 0.25 else rand_value(rnd, d)
    for _ in range(length):
        r = rnd.random()
        h = (rnd.choice(files), rnd.randrange(1, nh + 1))
        k = rnd.choice(keys)
        sp = rnd.randrange(12)
        if r < 0.10 and depth < maxnest:
            c = rnd.random()
            if c < 0.4:
                evs.append({"op": "enter", "form": "", "ix": 0})
            else:
                evs.append({"op": "enter", "form": "cap", "ix": rnd.choice([0, 1, 2, 10, 16, 30, 60, 200, DEFAULT_CAP])})
            depth += 1
        elif r < 0.20 and depth > 0:
            evs.append({"op": "exit"})
            depth -= 1
        elif r < 0.24 and depth == 0 and lifecycle and h[0] != "p":
            evs.append({"op": rnd.choice(["remove", "rekey"]), "h": h})
        elif r < 0.27 and lifecycle and h[0] != "p":
            evs.append({"op": rnd.choice(["jclear", "jreset"]), "h": h})
        elif r < 0.40:
            evs.append({"op": "set", "h": h, "k": k, "v": val(), "sp": sp})
        elif r < 0.46:
            evs.append({"op": "del", "h": h, "k": k, "sp": sp})
        elif r < 0.52:
            evs.append({"op": "update", "h": h, "v": {kk: val(1) for kk in rnd.sample(keys, rnd.randrange(0, min(3, len(keys) + 1)))}, "sp": sp})
        elif r < 0.57:
            evs.append({"op": "setdefault", "h": h, "k": k, "v": val(), "sp": sp})
        elif r < 0.62:
            evs.append({"op": "pop", "h": h, "k": k, "form": rnd.choice(["default", "nodefault"]), "v": rand_scalar(rnd), "sp": sp})
        elif r < 0.65:
            evs.append({"op": "clear", "h": h, "sp": sp})
        elif r < 0.71:
            evs.append({"op": "reset", "h": h, "v": {kk: val() for kk in rnd.sample(keys, rnd.randrange(0, min(4, len(keys) + 1)))}, "sp": sp})
        elif r < 0.77:
            evs.append({"op": "nset", "h": h, "k": k, "k2": rnd.choice(keys), "form": rnd.choice(["item", "attr"]) if is_ident(k) else "item",
                        "v": val(1), "sp": sp})
        elif r < 0.82:
            evs.append({"op": "append", "h": h, "k": k, "v": val(1), "sp": sp})
        elif r < 0.86:
            evs.append({"op": "lset", "h": h, "k": k, "ix": rnd.randrange(0, 3), "v": val(1), "sp": sp})
        elif r < 0.95:
            evs.append({"op": "read", "h": h, "sp": sp})
        else:
            evs.append({"op": "get", "h": h, "k": k, "form": rnd.choice(["item", "get", "in"] + (["attr"] if is_ident(k) else [])), "sp": sp})
    evs += [{"op": "exit"}] * depth
    # final reads through every handle: outside blocks every handle must see the files
    for f in files:
        for i in range(1, nh + 1):
            evs.append({"op": "read", "h": (f, i)})
    for e in evs:
        e.setdefault("form", "")
        if e["op"] == "nset" and e["form"] == "attr" and not is_ident(e["k2"]):
            e["form"] = "item"
    return evs


# ---- edits that are hard for weak fingerprints of the serialised document ------------------------
def hard_pairs(rnd, n=36):
    """Pairs of documents (label, before, after) whose JSON texts have EQUAL LENGTH and collide under cheap fingerprints,
    found by brute force over short texts: equal Adler-32 (equal byte sum and equal position-weighted byte sum, also what
    Fletcher checks), or at least equal byte sum / equal xor (digit permutations, swapped elements, swapped values).
    The buffered flush decides by a fingerprint of the text whether a document is written at all."""
    import itertools
    import zlib

    def text(d):
        return json.dumps(d).encode()

    fixed = [("adler:121->202", {"k": 121}, {"k": 202}), ("adler:[0,2,0]->[1,0,1]", {"k": [0, 2, 0]}, {"k": [1, 0, 1]}),
             ("adler:'bdb'->'cbc'", {"k": "bdb"}, {"k": "cbc"}),
             ("sum:12->21", {"k": 12}, {"k": 21}), ("sum:[1,2]->[2,1]", {"k": [1, 2]}, {"k": [2, 1]}),
             ("sum:swapped-values", {"a": 1, "b": 2}, {"a": 2, "b": 1}), ("sum:'ab'->'ba'", {"k": "ab"}, {"k": "ba"}),
             ("sum:nested-swap", {"n": {"c": 1, "d": 2}}, {"n": {"c": 2, "d": 1}}), ("sum:1.5->5.1", {"k": 1.5}, {"k": 5.1}),
             ("adler:two-keys", {"a": 13, "b": 31}, {"a": 22, "b": 22})]
    universe = [{"k": i} for i in range(100, 1000)]
    universe += [{"k": "".join(t)} for t in itertools.product("abcde", repeat=3)]
    universe += [{"k": list(t)} for t in itertools.product(range(5), repeat=3)]
    universe += [{"a": i, "b": j} for i in range(10, 40) for j in range(10, 40)]
    universe += [{"k": i / 10} for i in range(11, 100) if i % 10]
    groups = {}
    for d in universe:
        t = text(d)
        groups.setdefault((len(t), zlib.adler32(t)), []).append(d)
    found = []
    for (ln, _), ds in sorted(groups.items(), key=lambda kv: kv[0]):
        if len(ds) > 1:
            a, b = rnd.sample(ds, 2)
            found.append(("adler:brute-force", a, b))
    rnd.shuffle(found)
    out = fixed + found[:max(0, n - len(fixed))]
    for label, a, b in out:
        ta, tb = text(a), text(b)
        assert len(ta) == len(tb) and sum(ta) == sum(tb) and a != b, (label, a, b)
        if label.startswith("adler"):
            assert zlib.adler32(ta) == zlib.adler32(tb), (label, a, b)
    return out


def hard_pair_ops(f, before, after, spelling):
    """the buffered edit before -> after through ONE handle of file f (default capacity), then reads through it and another handle"""
    h, h2 = (f, 1), (f, 2)
    evs = [{"op": "reset", "h": h, "v": before, "sp": 2 * spelling}, {"op": "read", "h": h}, {"op": "enter", "form": "", "ix": 0}]
    if spelling == 0:
        evs += [{"op": "set", "h": h, "k": k, "v": v, "sp": spelling} for k, v in after.items() if not eq_exact(before.get(k), v)]
    else:
        evs.append({"op": "update", "h": h, "v": after, "sp": 0})
    evs += [{"op": "read", "h": h}, {"op": "exit"}, {"op": "read", "h": h}, {"op": "read", "h": h2}]
    for e in evs:
        e.setdefault("form", "")
    return evs

"""Job.open() / Job.close() (`with job:`) bound to spec/workspace/Context.tla - an extension of the workspace model beyond the
listed properties: the process's current directory and the handles' directory stacks next to every Workspace operation.

Conformance: every edge of the bounded graph executed on the real library, the disk / handles compared as in the
workspace family and, in addition, `os.getcwd()` with the model's `cwd` after every step.  The C03 post-conditions are
judged as in every other configuration (entering / leaving a context must keep the workspace equal to the plain model).
The documented promise of the context manager itself (`Balanced`) is not one of the listed properties: where TLC refutes it
on the conformant model (DEVIATION D6) the counterexample is replayed on the real code and recorded in the evidence as an
observation - never as a VIOLATION or KNOWN-FINDING of C03.
"""
import collections
import os
import random
import shutil
import zlib

from . import core, tlc
from . import wsengine as W
from . import wsfamily as F

OPS = {"open_sp", "open_id", "init", "enter", "exit", "setkey", "remove", "move"}


class CtxWorld(F.World2):
    def __init__(self, *a, **k):
        super().__init__(*a, **k)
        self.home = self.base
        os.chdir(self.home)

    def close(self):
        os.chdir("/")
        super().close()

    def do(self, last):
        op, a = last["op"], last["args"]
        if op == "enter":
            try:
                self.h[a[0]].open()
                return "ok", frozenset()
            except Exception as e:  # noqa
                return type(e).__name__, frozenset()
        if op == "exit":
            try:
                self.h[a[0]].close()
                return "ok", frozenset()
            except Exception as e:  # noqa
                return type(e).__name__, frozenset()
        return super().do(last)

    def where(self):
        try:
            c = os.getcwd()
        except FileNotFoundError:
            return "gone"
        if os.path.realpath(c) == os.path.realpath(self.home):
            return "home"
        for p, root in self.roots.items():
            wsd = os.path.realpath(os.path.join(root, "workspace"))
            rc = os.path.realpath(c)
            if os.path.dirname(rc) == wsd:
                return (p, self.uni.by_id.get(os.path.basename(rc), "?" + os.path.basename(rc)))
        return "?" + c


def _cwd_token(v):
    return v["k"] if v["k"] != "dir" else (v["p"], v["n"])


def replay(uni, projects, states, base, judge=True):
    import logging
    logging.disable(logging.CRITICAL)
    w = CtxWorld(uni, projects, base=base)
    try:
        w.materialise(states[0])
        os.chdir(w.home)
        mismatch, verdicts = None, []
        for k, st in enumerate(states[1:]):
            pre = core.snapshot(w.base)
            w.pre_handles = {x: {"id": j.id, "proj": os.path.basename(j.project.path)} for x, j in w.h.items()}
            w.pre_spec = states[k]
            w.pre_stat = {key: F._stat(os.path.join(w.base, key)) for key in pre if key.endswith(W.SP_FILE)}
            w.is_last = k == len(states) - 2
            res, val = w.do(st["last"])
            post = core.snapshot(w.base)
            bad = W.compare(st, w, res, val, projects)
            got, want = w.where(), _cwd_token(st["cwd"])
            if got != want:
                bad.append(("cwd", want, got))
            w.step_conformant = not bad
            if judge and st["last"]["op"] not in ("enter", "exit"):
                here = w.where()
                if here != "gone":
                    os.chdir(w.home)
                with F.observer_isolation():
                    for sig, what in F.judge_c03(w, st, pre, post, res, val):
                        verdicts.append((k, sig, what))
                # the judge observes through fresh sessions only; put the process back where the behaviour left it
                if isinstance(here, tuple) and not isinstance(here[1], str):
                    try:
                        os.chdir(w.jobdir(here[0], here[1]))
                    except OSError:
                        pass
            elif judge:
                # entering / leaving a context: only initialisation of that job may change the disk
                changed = sorted(kk for kk in set(pre) | set(post) if pre.get(kk, 0) != post.get(kk, 0))
                if st["last"]["op"] == "exit" and changed:
                    verdicts.append((k, "context:exit-wrote", "Job.close() changed %s" % changed[:5]))
            if bad:
                mismatch = (k, bad)
                break
        return {"mismatch": mismatch, "verdicts": verdicts, "steps": len(states) - 1, "cwd": w.where()}
    finally:
        w.close()


_G = {}


def _edge_worker(chunk):
    nodes, parent, uni, projects, base = (_G[k] for k in ("nodes", "parent", "uni", "projects", "base"))
    out = []
    for (u, v) in chunk:
        path, n = [], u
        while n is not None:
            path.append(n)
            n = parent[n]
        path = path[::-1] + [v]
        r = replay(uni, projects, [nodes[n] for n in path], base)
        on_edge = r["mismatch"] is not None and r["mismatch"][0] == len(path) - 2
        verd = [x for x in r["verdicts"] if x[0] == len(path) - 2]
        out.append((r["mismatch"] if on_edge else None, verd, W._script(nodes, path) if (on_edge or verd or len(out) < 2) else None,
                    (nodes[v]["last"]["op"], nodes[v]["last"]["res"])))
    return out


def _mc(ctx, uni, ops, init_jobs):
    d = os.path.join(ctx.work, "ctx")
    os.makedirs(d, exist_ok=True)
    for f in ("Workspace.tla", "Context.tla"):
        shutil.copy(os.path.join(tlc.SPEC_ROOT, "workspace", f), d)
    with open(os.path.join(d, "MCCtx.tla"), "w") as f:
        f.write(W.mc_module(uni, ops, name="MCCtx", init_jobs=init_jobs).replace("EXTENDS Workspace", "EXTENDS Context"))
    return os.path.join(d, "MCCtx.tla")


def _cfg(uni, projects, depth, invariants, properties, handles=("h1", "h2")):
    consts = {
        "Projects": tlc.lit(set(projects)), "Keys": tlc.lit(set(uni.keys)), "Vals": tlc.lit(set(uni.vals)), "Handles": tlc.lit(set(handles)),
        "DocVals": tlc.lit({"d1"}), "FileNames": tlc.lit({"f1"}), "FVals": tlc.lit({"c1"}), "MaxDepth": depth, "IdOrder": "<- IdOrderDef",
        "Ops": "<- OpsDef", "InitJobs": "<- InitJobsDef", "InitCache": "<- InitCacheDef", "FixedD3": tlc.lit(W.probe_d3()), "FixedD4": tlc.lit(W.probe_d4()), "FixedD7": tlc.lit(W.probe_d7()),
    }
    return tlc.cfg(consts, init="CInit", next="CNext", invariants=invariants, properties=properties, constraints=["CDepth"])


def run(ctx, pid="C03"):
    rnd = random.Random(ctx.seed ^ zlib.crc32(b"context"))
    uni = W.Universe(keys=("a", "b"), vals=("i0",))
    projects = ("P", "Q")
    depth = 5 if ctx.quick else 6
    handles = ("h1",) if ctx.quick else ("h1", "h2")
    mc = _mc(ctx, uni, OPS, uni.order[:1])
    work = os.path.dirname(mc)
    dot = os.path.join(work, "g.dot")
    r = tlc.run(mc, cfg_text=_cfg(uni, projects, depth, ("HashInv", "CheckPassesX"), ("EnterOnlyInits", "ExitWritesNothing"), handles), workdir=work, dump=dot, coverage=True)
    ctx.add_tlc("%s: context (Job.open/close) depth %d (Context.tla)" % (pid, depth - 1), r)
    if r.violation:
        trace = [s for _, s in r.violation["trace"]]
        out = replay(uni, projects, trace, ctx.work)
        script = [dict(op=s["last"]["op"], args=W._plain(s["last"]["args"]), res=s["last"]["res"]) for s in trace[1:]]
        rep = {"front": "context", "projects": list(projects), "keys": ["a", "b"], "vals": ["i0"], "script": script}
        for (k, sig, what) in out["verdicts"]:
            ctx.violation(sig, what, dict(rep, step=k))
        if not out["verdicts"]:
            ctx.violation("requirement:" + r.violation["name"], "TLC: %s violated on the context model (%s)" % (r.violation["name"], script), rep)
        return
    nodes, edges, parent, init = W.load_graph(dot)
    total = len(edges)
    limit = 1200 if ctx.quick else 12000
    if len(edges) > limit:
        groups = collections.defaultdict(list)
        for (u, v) in edges:
            a, b = nodes[u], nodes[v]
            groups[(b["last"]["op"], b["last"]["res"], repr(a["cwd"]) == repr(b["cwd"]), a["cwd"]["k"], tuple(sorted(len(s) for s in a["stk"].values())))].append((u, v))
        per = max(4, limit // (2 * len(groups)))
        chosen, rest = [], []
        for key in sorted(groups, key=repr):
            g = groups[key]
            rnd.shuffle(g)
            chosen += g[:per]
            rest += g[per:]
        chosen += rnd.sample(rest, max(0, min(len(rest), limit - len(chosen))))
        edges = chosen
    _G.update(nodes=nodes, parent=parent, uni=uni, projects=projects, base=ctx.work)
    n = 64
    flat = [x for ch in core.pmap(_edge_worker, [edges[i::n] for i in range(n) if edges[i::n]], procs=16, chunks=1) for x in ch]
    _G.clear()
    os.remove(dot)
    ops = collections.Counter()
    for (mismatch, verd, script, (op, res)) in flat:
        ctx.count(("ctx-edge", op, res), n=1, traces=1)
        ops[(op, res)] += 1
        rep = {"front": "context", "projects": list(projects), "keys": ["a", "b"], "vals": ["i0"], "script": script}
        for (k, sig, what) in verd:
            ctx.violation(sig, what, dict(rep, step=k))
        if mismatch:
            k, bad = mismatch
            kinds = sorted(set(b[0] for b in bad))
            if any(kd in ("ws", "cache", "strays", "litter") for kd in kinds):
                ctx.violation("diverges-from-model:%s:%s" % (op, "+".join(kd for kd in kinds if kd in ("ws", "cache", "strays", "litter"))),
                              "the workspace on disk differs from the model after %s (context configuration): %s" % (op, str(bad)[:500]), dict(rep, step=k))
            else:
                ctx.spec_drift("context step %d (%s): %s script=%s" % (k, op, str(bad)[:400], [[x["op"], x["args"], x["res"]] for x in (script or [])]))
    for need in ("enter", "exit"):
        if not any(k[0] == need for k in ops):
            raise core.MachineryError("context configuration never executed %s" % need)
    ctx.cov.setdefault("edge_cover", []).append({"config": "context (Job.open / Job.close; cwd compared after every step)", "edges_in_graph": total, "edges_replayed": len(flat),
                                                 "states": len(nodes), "exhaustive": len(flat) == total, "distinct_op_outcomes": len(ops)})
    # the context manager's own promise: expected to fail on the conformant model where the code does (D6)
    r2 = tlc.run(mc, cfg_text=_cfg(uni, projects, depth, ("Balanced",), (), handles), workdir=work, coverage=False)
    ctx.add_tlc("%s: context, requirement Balanced (beyond the listed properties)" % pid, r2)
    obs = {"requirement": "Balanced: once every `with job:` has been left, the process is back in its starting directory",
           "status": "holds on the model" if not r2.violation else "refuted on the conformant model"}
    if r2.violation:
        trace = [s for _, s in r2.violation["trace"]]
        out = replay(uni, projects, trace, ctx.work, judge=False)
        obs["script"] = [[s["last"]["op"], W._plain(s["last"]["args"]), s["last"]["res"]] for s in trace[1:]]
        obs["real_execution_follows_model"] = out["mismatch"] is None
        obs["real_cwd_after"] = str(out["cwd"])
        obs["note"] = ("DEVIATION D6: a successful re-key (or move) re-initialises the handle's lazily created fields, the stack of previous directories among them; leaving "
                       "the context then stays in the job directory. Documented behaviour of Job.open()/close(), not one of C01-C20: recorded, not reported as a violation.")
    ctx.cov.setdefault("observations_beyond_listed_properties", []).append(obs)


def replay_script(ctx, data):
    uni = W.Universe(keys=tuple(data.get("keys", ("a", "b"))), vals=tuple(data.get("vals", ("i0",))))
    w = CtxWorld(uni, tuple(data.get("projects", ["P", "Q"])), base=ctx.work)
    try:
        a = uni.order[0]
        # the context configuration starts from one initialised job (with document d1 and file f1, as InitDir of the spec gives it)
        j = w.proj["P"].open_job(uni.real(a)).init()
        j.doc = dict(W.DOCS["d1"])
        with open(j.fn(W.FILES["f1"]), "wb") as f:
            f.write(W.FVALS["c1"])
        w.proj = {p: w.signac.Project(r) for p, r in w.roots.items()}
        for s in data["script"]:
            res, val = w.do({"op": s["op"], "args": F._thaw(s["args"]), "res": s["res"]})
            print("%-10s %-50s -> %-22s (model: %s)   cwd: %s" % (s["op"], str(s["args"])[:50], res, s["res"], w.where()))
    finally:
        w.close()
    return 0

"""The command line front end (signac/__main__.py) bound to spec/workspace/Cli.tla.

TLC explores the command-level model (every command = one fresh process over the on-disk state); every edge of the
bounded state graph is executed by running the REAL entry point `signac.__main__.main()` in a forked child process
with the model's arguments (cwd = project directory, argv as a user would type them), and after every command the
raw projection of the disk, the exit status and what was printed are compared with the model's successor state.
The stated post-conditions of the properties (C02 C03 C04 C08 C09, as a command-line user meets them) are evaluated
on the real tree by `judge()` - independently of the model.

Verdict rule as everywhere: judge fails -> VIOLATION; model and code disagree without a false post-condition -> SPEC-DRIFT.
"""
import collections
import gzip
import json
import os
import random
import shutil
import sys
import traceback
import warnings
import zlib

from . import core, tlaparse, tlc
from . import wsengine as W

CLI_OPS = {"cli_job", "cli_job_c", "cli_statepoint", "cli_statepoint_all", "cli_document", "cli_rm", "cli_clear", "cli_move",
           "cli_clone", "cli_find_all", "cli_find", "cli_update_cache"}
READ_ONLY = {"cli_job", "cli_statepoint", "cli_statepoint_all", "cli_find", "cli_find_all"}
_main = [None]


def _entry():
    if _main[0] is None:
        saved = warnings.filters[:]
        import signac.__main__ as m          # (sets a global warnings filter on import: undone, the harness is not the CLI)
        warnings.filters[:] = saved
        _main[0] = m.main
    return _main[0]


def run_cli(scratch, cwd, argv):
    """one command line invocation in its own (forked) process -> (exit status, stdout, stderr)"""
    main = _entry()
    fo, fe = os.path.join(scratch, ".cli.out"), os.path.join(scratch, ".cli.err")
    sys.stdout.flush()
    sys.stderr.flush()
    pid = os.fork()
    if pid == 0:
        code = 70
        try:
            os.chdir(cwd)
            o = os.open(fo, os.O_WRONLY | os.O_CREAT | os.O_TRUNC, 0o600)
            e = os.open(fe, os.O_WRONLY | os.O_CREAT | os.O_TRUNC, 0o600)
            os.dup2(o, 1)
            os.dup2(e, 2)
            sys.stdout = open(1, "w", closefd=False)
            sys.stderr = open(2, "w", closefd=False)
            sys.stdin = open(os.devnull)
            sys.argv = ["signac"] + [str(x) for x in argv]
            import logging
            logging.disable(logging.NOTSET)
            try:
                main()
                code = 0
            except SystemExit as ex:
                code = ex.code if isinstance(ex.code, int) else (0 if ex.code is None else 1)
            sys.stdout.flush()
            sys.stderr.flush()
        except BaseException:
            try:
                traceback.print_exc()
                sys.stderr.flush()
            except BaseException:
                pass
        finally:
            os._exit(code)
    _, status = os.waitpid(pid, 0)
    code = os.waitstatus_to_exitcode(status)
    with open(fo, "r", errors="replace") as f:
        out = f.read()
    with open(fe, "r", errors="replace") as f:
        err = f.read()
    if code not in (0, 1):
        raise core.MachineryError("signac %s: exit status %s\n%s\n%s" % (" ".join(map(str, argv)), code, out[-500:], err[-1500:]))
    return code, out, err


class CliWorld(W.World):
    """a sandbox whose operations are command lines"""
    def __init__(self, *a, **k):
        super().__init__(*a, **k)
        self.proj = {}          # no session lives between commands
        self.log = []
        self.extra = []         # mismatches between equivalent spellings of one command

    def materialise(self, st):
        super().materialise(st)
        self.proj = {}

    def cli(self, p, argv):
        code, out, err = run_cli(self.base, self.roots[p], argv)
        self.log.append((p, list(argv), code, out[-300:], err[-300:]))
        return code, out, err

    def _sp_tokens(self, text):
        toks = set()
        for line in text.splitlines():
            if not line.strip():
                continue
            try:
                v = json.loads(line)
            except ValueError:
                toks.add("?" + line[:60])
                continue
            s = self.uni.abstract(v) if isinstance(v, dict) else None
            toks.add(s if s is not None else "?" + json.dumps(v, sort_keys=True))
        return frozenset(toks)

    def _id_tokens(self, text):
        return frozenset(self.uni.by_id.get(x.strip(), "?" + x.strip()) for x in text.splitlines() if x.strip())

    def filter_args(self, k, v):
        """(JSON form, simplified form or None) of the query <k> == <v>"""
        key = ".".join(self.uni.kmap[k])
        val = self.uni.vmap[v]
        simple = None
        if isinstance(val, (int, str)) and not isinstance(val, bool):
            simple = [key, str(val)] if isinstance(val, int) else None
        return [json.dumps({key: val})], simple

    def do(self, last):
        op, a = last["op"], last["args"]
        uni = self.uni
        none = frozenset()
        if op not in CLI_OPS:
            if op == "env_doc":
                with open(os.path.join(self.jobdir(a[0], a[1]), W.DOC_FILE), "w") as f:
                    json.dump(W.DOCS[a[2]], f)
                return "ok", none
            if op == "env_file":
                fn = os.path.join(self.jobdir(a[0], a[1]), W.FILES[a[2]])
                os.makedirs(os.path.dirname(fn), exist_ok=True)
                with open(fn, "wb") as f:
                    f.write(W.FVALS[a[3]])
                return "ok", none
            return super().do(last)
        if op in ("cli_job", "cli_job_c"):
            code, out, err = self.cli(a[0], ["job"] + (["-c"] if op == "cli_job_c" else []) + [json.dumps(uni.real(a[1]))])
            return ("ok", self._id_tokens(out)) if code == 0 else ("error", none)
        if op == "cli_statepoint":
            code, out, err = self.cli(a[0], ["statepoint", uni.id[a[1]]])
            return ("ok", self._sp_tokens(out)) if code == 0 else ("error", none)
        if op == "cli_statepoint_all":
            code, out, err = self.cli(a[0], ["statepoint"])
            return ("ok", self._sp_tokens(out)) if code == 0 else ("error", none)
        if op == "cli_document":
            code, out, err = self.cli(a[0], ["document", uni.id[a[1]]])
            if code != 0:
                return "error", none
            toks = set()
            for line in out.splitlines():
                if line.strip():
                    try:
                        dv = json.loads(line)
                        toks.add(next((k for k, v in W.DOCS.items() if W._type_exact(v, dv)), "?" + json.dumps(dv, sort_keys=True)))
                    except ValueError:
                        toks.add("?" + line[:60])
            return "ok", frozenset(toks)
        if op in ("cli_rm", "cli_clear"):
            code, out, err = self.cli(a[0], ["rm"] + (["-c"] if op == "cli_clear" else []) + [uni.id[a[1]]])
            return ("ok" if code == 0 else "error"), none
        if op in ("cli_move", "cli_clone"):
            code, out, err = self.cli(a[0], [op[4:], self.roots[a[1]], uni.id[a[2]]])
            if code != 0:
                return "error", none
            return ("exists" if "already exists" in err else "ok"), none
        if op == "cli_find_all":
            code, out, err = self.cli(a[0], ["find"])
            return ("ok", self._id_tokens(out)) if code == 0 else ("error", none)
        if op == "cli_find":
            js, simple = self.filter_args(a[1], a[2])
            code, out, err = self.cli(a[0], ["find"] + js)
            ans = ("ok", self._id_tokens(out)) if code == 0 else ("error", none)
            if simple is not None:
                code2, out2, err2 = self.cli(a[0], ["find"] + simple)
                ans2 = ("ok", self._id_tokens(out2)) if code2 == 0 else ("error", none)
                if ans2 != ans:
                    self.extra.append(("find-spellings-differ", js, simple, ans, ans2))
            return ans
        if op == "cli_update_cache":
            code, out, err = self.cli(a[0], ["update-cache"])
            if code != 0:
                return "error", none
            return ("none" if "up to date" in err else "written"), none
        raise core.MachineryError("unknown op " + op)


# ---- comparison with the model ----------------------------------------------------------------------
def compare(st, w, res, val, projects):
    uni = w.uni
    bad = []
    exp = st["last"]
    if res != exp["res"]:
        bad.append(("result", exp["res"], res))
    if frozenset(val) != frozenset(exp["val"]):
        bad.append(("value", sorted(map(str, exp["val"])), sorted(map(str, val))))
    for p in projects:
        real = W.project(w.roots[p], uni)
        spec = W.spec_project(st, p, uni)
        if real["ws"] != spec["ws"]:
            bad.append(("ws", p, spec["ws"], real["ws"]))
        if real["cache"] != spec["cache"]:
            bad.append(("cache", p, spec["cache"], real["cache"]))
        want = {W.STRAY_NAME[k](w.stray_base) for k in spec["strays"]}
        if real["strays"] != want:
            bad.append(("strays", p, want, real["strays"]))
        if real["litter"]:
            bad.append(("litter", p, real["litter"]))
    for x in w.extra:
        bad.append(x)
    w.extra = []
    return bad


# ---- the stated post-conditions, on the real tree ---------------------------------------------------
RULES = {
    "C02": {"read-only", "create-exact", "create-idempotent", "prints-id"},
    "C03": {"hash-invariant", "check-passes", "prints-id"},
    "C04": {"no-clobber", "move-keeps", "clone-independent", "error-frame", "rm-frame", "clear-result"},
    "C08": {"cache-sound", "update-cache-exact", "second-call-noop", "read-only"},
    "C09": {"never-prints-wrong", "find-exact", "read-only"},
}


def _jobfiles(snap, p, jid):
    pre = "%s/workspace/%s/" % (p, jid)
    return {k[len(pre):]: v for k, v in snap.items() if k.startswith(pre) and k != pre}


def _raw_dirs(snap, p):
    pre = "%s/workspace/" % p
    out = set()
    for k in snap:
        if k.startswith(pre) and k.endswith("/") and k.count("/") == 3 and W.HEX32.fullmatch(k[len(pre):-1]):
            out.add(k[len(pre):-1])
    return out


def _raw_sp(snap, p, jid):
    """('ok', value) | ('garbage', None) | ('missing', None)"""
    b = snap.get("%s/workspace/%s/%s" % (p, jid, W.SP_FILE))
    if b is None:
        return "missing", None
    try:
        return "ok", json.loads(b.decode())
    except ValueError:
        return "garbage", None


def _raw_valid(snap, p, jid):
    k, v = _raw_sp(snap, p, jid)
    return k == "ok" and isinstance(v, dict) and core.my_id(v) == jid


def _raw_cache(snap, p):
    b = snap.get("%s/.signac/statepoint_cache.json.gz" % p)
    if b is None:
        return None
    return json.loads(gzip.decompress(b).decode())


def _cache_honest(snap, p):
    c = _raw_cache(snap, p)
    return c is None or all(isinstance(v, dict) and core.my_id(v) == i for i, v in c.items())


def judge(w, rules, damaging, last, prev, pre, post, res, val):
    """-> [(signature, what)]; pre/post: byte snapshots of the sandbox (keys '<project>/...')"""
    op, a = last["op"], last["args"]
    uni = w.uni
    out = []

    def V(rule, detail, what):
        if rule in rules:
            out.append(("cli:%s:%s" % (rule, detail), what))

    drop = lambda s: {k: v for k, v in s.items() if not k.startswith(".cli.")}
    pre, post = drop(pre), drop(post)
    changed = sorted(k for k in set(pre) | set(post) if pre.get(k, 0) != post.get(k, 0))
    if op in READ_ONLY and changed:
        V("read-only", op, "`signac %s` changed the project: %s" % (op[4:].replace("_", " "), changed[:6]))
    if op in ("cli_job", "cli_job_c") and res == "ok":
        want = uni.id[a[1]]
        got = sorted(uni.id.get(t, t) for t in val)
        if got != [want]:
            V("prints-id", op, "`signac job` printed %s for state point %r (id %s)" % (got, uni.real(a[1]), want))
    if op == "cli_job_c":
        p, sp = a[0], a[1]
        jid = uni.id[sp]
        if res == "ok":
            k, v = _raw_sp(post, p, jid)
            if not (k == "ok" and W._type_exact(v, uni.real(sp))):
                V("create-exact", k, "`signac job -c %s` succeeded but the stored state point is %s %r" % (json.dumps(uni.real(sp)), k, v))
        if _raw_valid(pre, p, jid):
            if changed:
                V("create-idempotent", "wrote", "`signac job -c` on an existing, valid job changed %s" % changed[:6])
            if res != "ok":
                V("create-idempotent", "failed", "`signac job -c` on an existing, valid job exited with an error")
    if not damaging:
        for p in w.roots:
            for jid in _raw_dirs(post, p):
                k, v = _raw_sp(post, p, jid)
                if k == "ok" and not (isinstance(v, dict) and core.my_id(v) == jid):
                    V("hash-invariant", op, "after `%s`: directory %s/%s holds the state point %r (id %s)" % (op, p, jid, v, core.my_id(v) if isinstance(v, dict) else "-"))
                elif k != "ok" and not w.seen_mkdir:
                    V("check-passes", op, "after `%s`: job directory %s/%s has no readable state point file (%s)" % (op, p, jid, k))
            c = _raw_cache(post, p)
            for i, v in (c or {}).items():
                if not (isinstance(v, dict) and core.my_id(v) == i):
                    V("cache-sound", op, "after `%s`: the cache file of %s maps %s to %r" % (op, p, i, v))
    if res == "exists" and changed:
        V("no-clobber", op, "`signac %s` reported an existing destination but changed %s" % (op[4:], changed[:6]))
    if op in ("cli_move", "cli_clone") and res == "ok":
        p, q, jid = a[0], a[1], uni.id[a[2]]
        if _raw_valid(pre, p, jid):
            src = _jobfiles(pre, p, jid)
            dst = _jobfiles(post, q, jid)
            if src != dst:
                diff = sorted(k for k in set(src) | set(dst) if src.get(k, 0) != dst.get(k, 0))
                V("move-keeps" if op == "cli_move" else "clone-independent", "content",
                  "`signac %s`: the job's content at the destination differs from the source in %s" % (op[4:], diff[:6]))
            if op == "cli_move" and _jobfiles(post, p, jid):
                V("move-keeps", "source-left", "`signac move`: the job is still in the source project")
            if op == "cli_clone" and _jobfiles(post, p, jid) != src:
                V("clone-independent", "source-changed", "`signac clone` changed the source job")
            others = [k for k in changed if not (k.startswith("%s/workspace/%s/" % (q, jid)) or k == "%s/workspace/%s/" % (q, jid)
                                                 or (op == "cli_move" and (k.startswith("%s/workspace/%s/" % (p, jid)) or k == "%s/workspace/%s/" % (p, jid))))]
            if others:
                V("move-keeps" if op == "cli_move" else "clone-independent", "frame", "`signac %s` also changed %s" % (op[4:], others[:6]))
    if op in ("cli_rm", "cli_clear", "cli_move", "cli_clone") and res == "error" and not damaging and changed:
        V("error-frame", op, "`signac %s` failed but changed %s" % (op[4:], changed[:6]))
    if op in ("cli_rm", "cli_clear"):
        p, jid = a[0], uni.id[a[1]]
        mine = "%s/workspace/%s/" % (p, jid)
        others = [k for k in changed if not k.startswith(mine)]
        if others:
            V("rm-frame", op, "`signac rm%s %s` changed other entries: %s" % (" -c" if op == "cli_clear" else "", jid[:8], others[:6]))
        if op == "cli_clear" and res == "ok" and _raw_valid(pre, p, jid):
            left = _jobfiles(post, p, jid)
            keep = {k: v for k, v in left.items() if not k.endswith("/")}
            docv = keep.pop(W.DOC_FILE, None)
            spv = keep.pop(W.SP_FILE, None)
            if keep or spv != _jobfiles(pre, p, jid).get(W.SP_FILE) or (docv is not None and json.loads(docv.decode()) != {}):
                V("clear-result", "cli_clear", "`signac rm -c` left %s (state point kept: %s, document %r)" % (sorted(keep)[:5], spv is not None, docv))
    if op == "cli_update_cache":
        p = a[0]
        if res != "error":
            c = _raw_cache(post, p)
            dirs = _raw_dirs(post, p)
            if c is None or set(c) != dirs or any(not (isinstance(v, dict) and core.my_id(v) == i) for i, v in c.items()):
                V("update-cache-exact", res, "after `signac update-cache` (%s) the cache file lists %s for the directories %s" % (
                    res, None if c is None else sorted(i[:6] for i in c), sorted(i[:6] for i in dirs)))
        if prev is not None and prev["op"] == "cli_update_cache" and prev["args"] == a and prev["res"] != "error" and res != "none":
            V("second-call-noop", res, "a second `signac update-cache` with nothing changed reported %s" % res)
        other = [k for k in changed if k != "%s/.signac/statepoint_cache.json.gz" % p]
        if other:
            V("read-only", "cli_update_cache", "`signac update-cache` changed %s" % other[:6])
    if op == "cli_statepoint" and res == "ok" and _cache_honest(pre, a[0]):
        want = a[1]
        if set(val) != {want}:
            V("never-prints-wrong", "cli_statepoint", "`signac statepoint %s` printed %s; that id belongs to %r" % (uni.id[want][:8], sorted(map(str, val)), uni.real(want)))
    if op == "cli_find" and res == "ok" and _cache_honest(pre, a[0]):
        p = a[0]
        path, want = uni.kmap[a[1]], uni.vmap[a[2]]
        exp = set()
        for jid in _raw_dirs(pre, p):
            k, v = _raw_sp(pre, p, jid)
            c = _raw_cache(pre, p) or {}
            if jid in c:
                v = c[jid]
            elif not _raw_valid(pre, p, jid):
                exp = None          # an unreadable job: the model says the command fails; nothing is required of the answer
                break
            node = v
            for part in path:
                node = node.get(part, core) if isinstance(node, dict) else core
            if node is not core and W._type_exact(node, want):
                exp.add(jid)
        got = {uni.id.get(t, t) for t in val}
        if exp is not None and got != exp:
            V("find-exact", "cli_find", "`signac find %s` answered %s; the matching jobs are %s" % (json.dumps({".".join(path): want}), sorted(i[:6] for i in got), sorted(i[:6] for i in exp)))
    return out


# ---- replay -----------------------------------------------------------------------------------------
_G = {}


def _init_plain(st):
    """the initial disk state of a behaviour, JSON-able (functions with record keys as pair lists)"""
    pairs = lambda f: [[W._plain(k), W._plain(v)] for k, v in W.fdict(f).items()]
    return {"ws": {p: pairs(f) for p, f in st["ws"].items()}, "cacheEx": dict(st["cacheEx"]), "cacheF": {p: pairs(f) for p, f in st["cacheF"].items()}}


def _init_thaw(d):
    from .wsfamily import _thaw
    fn = lambda pairs: tlaparse.FrozenDict({_thaw(k): _thaw(v) for k, v in pairs})
    return {"ws": {p: fn(x) for p, x in d["ws"].items()}, "cacheEx": d["cacheEx"], "cacheF": {p: fn(x) for p, x in d["cacheF"].items()}}


def replay_behaviour(uni, projects, states, rules, damaging, base):
    import logging
    logging.disable(logging.CRITICAL)
    w = CliWorld(uni, projects, base=base)
    w.seen_mkdir = False
    try:
        w.materialise(states[0])
        mismatch, verdicts, prev = None, [], None
        for k, st in enumerate(states[1:]):
            last = st["last"]
            if last["op"] == "mkdir_empty":
                w.seen_mkdir = True
            pre = core.snapshot(w.base)
            res, val = w.do(last)
            post = core.snapshot(w.base)
            bad = compare(st, w, res, val, projects)
            for sig, what in judge(w, rules, damaging, last, prev, pre, post, res, val):
                verdicts.append((k, sig, what))
            prev = {"op": last["op"], "args": last["args"], "res": res}
            if bad:
                mismatch = (k, bad)
                break
        return {"mismatch": mismatch, "verdicts": verdicts, "steps": len(states) - 1, "log": w.log[-3:]}
    finally:
        w.close()


def _edge_worker(chunk):
    nodes, parent, uni, projects, rules, damaging, base = (_G[k] for k in ("nodes", "parent", "uni", "projects", "rules", "damaging", "base"))
    out = []
    for (u, v) in chunk:
        path, n = [], u
        while n is not None:
            path.append(n)
            n = parent[n]
        path = path[::-1] + [v]
        r = replay_behaviour(uni, projects, [nodes[n] for n in path], rules, damaging, base)
        on_edge = r["mismatch"] is not None and r["mismatch"][0] == len(path) - 2
        verd = [x for x in r["verdicts"] if x[0] == len(path) - 2]
        out.append((len(path) - 1, r["mismatch"] if on_edge else None, verd,
                    W._script(nodes, path) if (on_edge or verd or len(out) < 2) else None,
                    (nodes[v]["last"]["op"], nodes[v]["last"]["res"]), r["log"] if (on_edge or verd) else None,
                    _init_plain(nodes[path[0]]) if (on_edge or verd) else None))
    return out


def _stratified(nodes, edges, limit, rnd):
    """seeded sample that keeps every (command, outcome, shape of the pre-state, disk changed?) situation"""
    groups = collections.defaultdict(list)
    for (u, v) in edges:
        a, b = nodes[u], nodes[v]
        shape = tuple(sorted((p, len(W.fdict(x)), sum(1 for r in W.fdict(x).values() if r["spk"] != "ok"), bool(a["cacheEx"][p])) for p, x in a["ws"].items()))
        groups[(b["last"]["op"], b["last"]["res"], shape, a["ws"] != b["ws"], a["cacheF"] != b["cacheF"])].append((u, v))
    per = max(3, limit // (2 * max(1, len(groups))))
    chosen, rest = [], []
    for key in sorted(groups, key=repr):
        g = groups[key]
        rnd.shuffle(g)
        chosen += g[:per]
        rest += g[per:]
    if len(chosen) < limit:
        chosen += rnd.sample(rest, min(len(rest), limit - len(chosen)))
    return chosen if len(chosen) <= 2 * limit else rnd.sample(chosen, 2 * limit)


class Config:
    def __init__(self, name, ops, depth, spelling="int", keys=("a", "b"), vals=("i0", "i1"), projects=("P",), init_jobs=0, init_cache=(False,),
                 docvals=("d1",), files=("f1",), fvals=("c1",), invariants=(), properties=(), limit=None):
        self.__dict__.update(locals())


DAMAGE = {"corrupt", "corrupt_other", "rename_dir"}
INV = {"C02": (), "C03": ("CliHashInv", "CliCheckPasses"), "C04": (), "C08": ("CliCacheSound",), "C09": ()}
PROPS = {
    "C02": ("SessionUntouched", "CliReadOnly", "CliCreateExact", "CliCreateIdempotent", "CliJobPrintsId"),
    "C03": ("SessionUntouched", "CliJobPrintsId"),
    "C04": ("SessionUntouched", "CliNoClobber", "CliMoveKeepsId", "CliCloneIndependent", "CliErrorFrame", "CliRmFrame"),
    "C08": ("SessionUntouched", "CliUpdateCacheExact", "CliSecondCallNoop", "CliReadOnly"),
    "C09": ("SessionUntouched", "CliNeverPrintsWrong", "CliFindExact", "CliReadOnly"),
}


def configs(pid, quick):
    d = 0 if quick else 1
    if pid == "C02":
        return [Config("cli-create", {"cli_job", "cli_job_c", "cli_statepoint", "cli_find_all", "cli_rm", "mkdir_empty", "env_doc"}, 4 + d, vals=("i0",)),
                Config("cli-create-typed", {"cli_job", "cli_job_c", "cli_statepoint"}, 4 + d, spelling="typed")]
    if pid == "C03":
        return [Config("cli-lifecycle", {"cli_job_c", "cli_rm", "cli_clear", "cli_move", "cli_clone", "cli_document", "cli_update_cache", "env_doc"}, 4 + d,
                       vals=("i0",), projects=("P", "Q")),
                Config("cli-lifecycle-nested", {"cli_job_c", "cli_rm", "cli_move", "cli_clone", "cli_document", "env_file"}, 4 + d,
                       spelling="nested", vals=("i1",), projects=("P", "Q"), files=("f2",))]
    if pid == "C04":
        return [Config("cli-move-clone", {"cli_job_c", "cli_move", "cli_clone", "cli_rm", "cli_clear", "env_doc", "env_file", "mkdir_empty"}, 4 + d,
                       vals=("i0",), projects=("P", "Q"), init_jobs=2, files=("f2",)),
                Config("cli-move-clone-typed", {"cli_move", "cli_clone", "cli_clear", "cli_job_c"}, 4 + d, spelling="typed", keys=("a",), vals=("i0", "i1"),
                       projects=("P", "Q"), init_jobs=2)]
    if pid == "C08":
        return [Config("cli-cache", {"cli_job_c", "cli_rm", "cli_move", "cli_update_cache", "delete_cache", "cli_statepoint", "cli_find"}, 4 + d,
                       vals=("i0",), projects=("P", "Q"), init_jobs=1, init_cache=(False, True))]
    if pid == "C09":
        return [Config("cli-damage", {"corrupt", "corrupt_other", "rename_dir", "cli_statepoint", "cli_statepoint_all", "cli_find", "cli_update_cache", "cli_document"},
                       4 + d, vals=("i0",), init_jobs=2, init_cache=(False, True))]
    raise core.MachineryError("no command line configuration for " + pid)


def _mc(ctx, cfg, uni):
    d = os.path.join(ctx.work, "cli_" + cfg.name)
    os.makedirs(d, exist_ok=True)
    for f in ("Workspace.tla", "Cli.tla"):
        shutil.copy(os.path.join(tlc.SPEC_ROOT, "workspace", f), d)
    init_jobs = uni.order[:cfg.init_jobs] if isinstance(cfg.init_jobs, int) else cfg.init_jobs
    text = W.mc_module(uni, cfg.ops, name="MCCli", init_jobs=init_jobs, init_cache=cfg.init_cache).replace("EXTENDS Workspace", "EXTENDS Cli")
    with open(os.path.join(d, "MCCli.tla"), "w") as f:
        f.write(text)
    return os.path.join(d, "MCCli.tla")


def _cfg_text(cfg, uni, invariants, properties):
    consts = {
        "Projects": tlc.lit(set(cfg.projects)), "Keys": tlc.lit(set(uni.keys)), "Vals": tlc.lit(set(uni.vals)),
        "Handles": tlc.lit({"c"}), "DocVals": tlc.lit(set(cfg.docvals)), "FileNames": tlc.lit(set(cfg.files)),
        "FVals": tlc.lit(set(cfg.fvals)), "MaxDepth": cfg.depth, "IdOrder": "<- IdOrderDef", "Ops": "<- OpsDef",
        "InitJobs": "<- InitJobsDef", "InitCache": "<- InitCacheDef", "FixedD3": tlc.lit(W.probe_d3()), "FixedD4": tlc.lit(W.probe_d4()), "FixedD7": tlc.lit(W.probe_d7()),
    }
    return tlc.cfg(consts, init="Init", next="CliNext", invariants=invariants, properties=properties, constraints=["Depth"])


def run(ctx, pid, workers=16):
    """the command line phase of one property's check"""
    rules = RULES[pid]
    for cfg in configs(pid, ctx.quick):
        rnd = random.Random(ctx.seed ^ zlib.crc32(cfg.name.encode()))
        uni = W.Universe(keys=cfg.keys, vals=cfg.vals, spelling=cfg.spelling)
        mc = _mc(ctx, cfg, uni)
        work = os.path.dirname(mc)
        dot = os.path.join(work, "g.dot")
        damaging = bool(set(cfg.ops) & DAMAGE)
        r = tlc.run(mc, cfg_text=_cfg_text(cfg, uni, INV[pid], PROPS[pid]), workdir=work, dump=dot, coverage=True, workers=workers)
        ctx.add_tlc("%s: %s depth %d (Cli.tla)" % (pid, cfg.name, cfg.depth - 1), r)
        if r.violation:
            # the command-level model itself breaks a requirement: reproduce on the real entry point
            trace = [s for _, s in r.violation["trace"]]
            out = replay_behaviour(uni, cfg.projects, trace, rules, damaging, ctx.work)
            script = [dict(op=s["last"]["op"], args=W._plain(s["last"]["args"]), res=s["last"]["res"]) for s in trace[1:]]
            rep = {"front": "cli", "config": cfg.name, "spelling": cfg.spelling, "keys": list(cfg.keys), "vals": list(cfg.vals), "projects": list(cfg.projects),
                   "init": _init_plain(trace[0]), "script": script}
            if out["verdicts"]:
                for (k, sig, what) in out["verdicts"]:
                    ctx.violation(sig, what, dict(rep, step=k))
            else:
                ctx.violation("cli:requirement:" + r.violation["name"], "TLC: requirement %s is violated on the command-level model (%s)" % (r.violation["name"], script), rep)
            continue
        nodes, edges, parent, init = W.load_graph(dot)
        total = len(edges)
        limit = cfg.limit or (400 if ctx.quick else 8000)
        if len(edges) > limit:
            edges = _stratified(nodes, edges, limit, rnd)
        _G.update(nodes=nodes, parent=parent, uni=uni, projects=cfg.projects, rules=rules, damaging=damaging, base=ctx.work)
        n = 64
        flat = [x for ch in core.pmap(_edge_worker, [edges[i::n] for i in range(n) if edges[i::n]], procs=16, chunks=1) for x in ch]
        _G.clear()
        os.remove(dot)
        ops = collections.Counter()
        for (steps, mismatch, verd, script, (op, res), log, init0) in flat:
            ctx.count(("cli-edge", cfg.name, op, res), n=1, traces=1)
            ops[(op, res)] += 1
            rep = {"front": "cli", "config": cfg.name, "spelling": cfg.spelling, "keys": list(cfg.keys), "vals": list(cfg.vals), "projects": list(cfg.projects),
                   "init": init0, "script": script}
            for (k, sig, what) in verd:
                ctx.violation(sig, what + (" | last commands: %s" % (log,) if log else ""), dict(rep, step=k))
            if mismatch:
                k, bad = mismatch
                kinds = sorted(set(b[0] for b in bad))
                if pid == "C03" and any(kd in ("ws", "litter") for kd in kinds) and not damaging:
                    ctx.violation("cli:diverges-from-model:%s:%s" % (op, "+".join(kinds)),
                                  "the workspace on disk differs from the command-level model after `%s`: %s" % (op, str(bad)[:600]), dict(rep, step=k))
                else:
                    ctx.spec_drift("cli config %s step %d (%s): %s script=%s" % (cfg.name, k, op, str(bad)[:400], json.dumps([[x["op"], x["args"], x["res"]] for x in (script or [])])))
        missing = [o for o in cfg.ops if not any(k[0] == o for k in ops)]
        if missing:
            raise core.MachineryError("command line configuration %s never executed: %s" % (cfg.name, missing))
        ctx.cov.setdefault("edge_cover", []).append({"config": cfg.name, "front": "command line (signac.__main__.main in a child process)", "edges_in_graph": total,
                                                     "edges_replayed": len(flat), "states": len(nodes), "exhaustive": len(flat) == total, "distinct_op_outcomes": len(ops)})
        ex = sorted((s for (_, m, v, s, _, _, _) in flat if s and not m and not v), key=lambda sc: -len(sc))
        if ex:
            ctx.sample({"config": cfg.name, "kind": "edge of the command-level state graph executed through the real entry point", "script": ex[0]}, cap=8)
    selftest(ctx)


def selftest(ctx):
    """binding demonstration for the command line front: a corrupted expectation must be rejected, the true one accepted"""
    uni = W.Universe()
    a = uni.order[0]
    mk = lambda op, args, res, val=frozenset(): {"op": op, "args": args, "res": res, "val": val}
    empty = {"ws": {"P": ()}, "cacheEx": {"P": False}, "cacheF": {"P": ()}, "mem": {"P": ()}, "strays": {"P": frozenset()}, "h": {}, "last": mk("start", (), "ok")}
    rec = tlaparse.FrozenDict(spk="ok", spv=a, doc="nodoc", files=())
    s1 = dict(empty, ws={"P": {a: rec}}, last=mk("cli_job_c", ("P", a), "ok", frozenset([a])))
    s2 = dict(s1, last=mk("cli_statepoint", ("P", a), "ok", frozenset([a])))
    good = replay_behaviour(uni, ("P",), [empty, s1, s2], set(), False, ctx.work)
    b = uni.order[1]
    bad1 = replay_behaviour(uni, ("P",), [empty, s1, dict(s2, last=mk("cli_statepoint", ("P", a), "ok", frozenset([b])))], set(), False, ctx.work)
    bad2 = replay_behaviour(uni, ("P",), [empty, dict(s1, ws={"P": ()})], set(), False, ctx.work)
    ok = good["mismatch"] is None and bad1["mismatch"] is not None and bad2["mismatch"] is not None
    ctx.cov.setdefault("binding_selftests", []).append({"front": "cli", "accepted_true_behaviour": good["mismatch"] is None,
                                                        "rejected_wrong_printed_value": bad1["mismatch"] is not None, "rejected_wrong_disk_state": bad2["mismatch"] is not None})
    if not ok:
        # on a tree that breaks even this two-command behaviour the check must still end in a verdict
        ctx.violation("cli:selftest", "the two-command reference behaviour (job -c; statepoint) is not followed: %s" % (good["mismatch"],),
                      {"front": "cli", "config": "selftest", "spelling": "int", "keys": ["a", "b"], "vals": ["i0", "i1"], "projects": ["P"],
                       "script": [dict(op="cli_job_c", args=["P", dict(a)], res="ok"), dict(op="cli_statepoint", args=["P", dict(a)], res="ok")]}) if good["mismatch"] is not None else None
        if good["mismatch"] is None:
            raise core.MachineryError("command line binding self-test failed: a corrupted expectation was accepted")


def replay_script(ctx, data):
    uni = W.Universe(keys=tuple(data.get("keys", ("a", "b"))), vals=tuple(data.get("vals", ("i0", "i1"))), spelling=data.get("spelling", "int"))
    from .wsfamily import _thaw
    w = CliWorld(uni, tuple(data.get("projects", ["P"])), base=ctx.work)
    try:
        if data.get("init"):
            w.materialise(_init_thaw(data["init"]))
        for s in data["script"]:
            res, val = w.do({"op": s["op"], "args": _thaw(s["args"]), "res": s["res"]})
            print("%-18s %-60s -> %s %s (model: %s)" % (s["op"], str(s["args"])[:60], res, sorted(map(str, val)), s["res"]))
            for entry in w.log[-2:]:
                print("     $ (cd %s; signac %s) -> exit %s | %s | %s" % (entry[0], " ".join(entry[1]), entry[2], entry[3].strip()[:80], entry[4].strip()[:80]))
            w.log = []
    finally:
        w.close()
    return 0

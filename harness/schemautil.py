"""C18 helpers: translation Python value <-> Schema.tla wire value, raw normalisation of real results, comparison.

Nothing in here knows what a schema or a diff *should* be: expected results come out of TLC (Schema.tla);
this module only translates, executes signac and compares."""
import json
import os
import shutil

from .jsonenc import cps, uncps, from_wire

_BASE = {"b": False, "n": 0, "a": [], "l": [], "m": []}


def to_wire(v):
    """jsonenc.to_wire, plus: a float carries its integrality (b) and integer value (n) - all the spec needs for =="""
    w = dict(_BASE)
    if v is None:
        w["t"] = "null"
    elif isinstance(v, bool):
        w["t"] = "bool"; w["b"] = v
    elif isinstance(v, int):
        assert abs(v) < 2**31
        w["t"] = "int"; w["n"] = v
    elif isinstance(v, float):
        assert v == v and abs(v) != float("inf") and not (v == 0 and str(v).startswith("-"))
        w["t"] = "flt"; w["a"] = cps(repr(v))
        if v.is_integer():
            assert abs(v) < 2**31
            w["b"] = True; w["n"] = int(v)
    elif isinstance(v, str):
        w["t"] = "str"; w["a"] = cps(v)
    elif isinstance(v, (list, tuple)):
        w["t"] = "list"; w["l"] = [to_wire(x) for x in v]
    elif isinstance(v, dict):
        w["t"] = "map"; w["m"] = [[cps(k), to_wire(x)] for k, x in v.items()]
    else:
        raise TypeError(type(v))
    return w


def tkey(v):
    """hashable, TYPE-EXACT identity of a JSON-like value (list == tuple; 1 != 1.0 != True)"""
    if isinstance(v, (list, tuple)):
        return ("tuple",) + tuple(tkey(x) for x in v)
    if isinstance(v, dict):
        return ("dict",) + tuple(sorted((k, tkey(x)) for k, x in v.items()))
    return (type(v).__name__, repr(v))


def show(tk):
    """tkey -> readable text"""
    if tk[0] == "tuple":
        return "[" + ", ".join(show(x) for x in tk[1:]) + "]"
    if tk[0] == "dict":
        return "{" + ", ".join("%s: %s" % (k, show(x)) for k, x in tk[1:]) + "}"
    return tk[1]


def plain(v):
    """synced collections / tuples -> plain dict / list (observation of a returned value)"""
    if hasattr(v, "items"):
        return {str(k): plain(x) for k, x in v.items()}
    if isinstance(v, (list, tuple)) or (hasattr(v, "__iter__") and not isinstance(v, (str, bytes))):
        return [plain(x) for x in v]
    return v


def norm_schema(schema):
    """dict(project.detect_schema(...)) -> (set of keys, set of (key, type name, tkey(value)), {tkey: value})"""
    keys, triples, vals = set(), set(), {}
    for key, groups in dict(schema).items():
        keys.add(key)
        for typ, values in dict(groups).items():
            for v in values:
                triples.add((key, typ.__name__, tkey(v)))
                vals[tkey(v)] = v
    return keys, triples, vals


def want_schema(case):
    keys = {uncps(k) for k in case["keys"]}
    triples = {(uncps(x["k"]), x["t"], tkey(from_wire(x["v"]))) for x in case["triples"]}
    return keys, triples


def matches_dev(case, keys, triples):
    """is the real result one of the results the conformant model allows (one representative per index class)?"""
    if keys != {uncps(k) for k in case["dkeys"]}:
        return False
    n = 0
    for cl in case["dcls"]:
        k = uncps(cl["k"])
        members = {(k, m["t"], tkey(from_wire(m["v"]))) for m in cl["c"]}
        if len(members & triples) != 1:
            return False
        n += 1
    return n == len(triples)


def classify_schema(keys, triples, wkeys, wtriples):
    if keys - wkeys:
        return "key-extra"
    if wkeys - keys:
        return "key-missing"
    extra, missing = triples - wtriples, wtriples - triples
    if extra and missing and {(k, v) for k, _, v in extra} == {(k, v) for k, _, v in missing}:
        return "wrong-type-group"
    if missing:
        return "value-missing"
    if extra:
        return "value-extra"
    return None


def flat_types(sp, pre=""):
    """type shape of a state point, for distinct-case accounting / messages only"""
    out = []
    for k, v in sorted(sp.items()):
        if isinstance(v, dict) and v:
            out += flat_types(v, pre + k + ".")
        else:
            out.append(pre + k + ":" + type(v).__name__)
    return out


def deep_merge(x, y):
    out = dict(y)
    for k, v in x.items():
        if k in out and isinstance(v, dict) and isinstance(out[k], dict):
            out[k] = deep_merge(v, out[k])
        else:
            out[k] = v
    return out


def lists_to_tuples(v):
    if isinstance(v, dict):
        return {k: lists_to_tuples(x) for k, x in v.items()}
    if isinstance(v, (list, tuple)):
        return tuple(lists_to_tuples(x) for x in v)
    return v


class Corpus:
    """one real project holding the jobs of one corpus (jobs: list of plain state points)"""

    def __init__(self, root, sps):
        import signac
        self.root = root
        shutil.rmtree(root, ignore_errors=True)
        os.makedirs(root)
        self.project = signac.init_project(root)
        self.sps = sps
        self.ids = []
        for sp in sps:
            job = self.project.open_job(json.loads(json.dumps(sp)))
            job.init()
            self.ids.append(job.id)
        if len(set(self.ids)) != len(sps):
            raise RuntimeError("corpus with duplicate state points")

    def schema(self, sel, xc, spelling=0, use_none=False):
        """-> ('ok', keys, triples) | ('exc', class name, message). A FRESH Project object per call."""
        import signac
        project = signac.get_project(self.root)
        if use_none:
            subset = None
        elif spelling == 0:
            subset = [self.ids[i - 1] for i in sel]
        elif spelling == 1:
            subset = [project.open_job(id=self.ids[i - 1]) for i in sel]
        else:
            subset = tuple(project.open_job(self.sps[i - 1]) if n % 2 else self.ids[i - 1] for n, i in enumerate(sel))
        try:
            s = project.detect_schema(exclude_const=xc, subset=subset)
            keys, triples, vals = norm_schema(s)
        except Exception as e:  # noqa
            return ("exc", type(e).__name__, str(e)[:200])
        return ("ok", keys, triples, vals)

    def diff(self, sel, reverse=False):
        import signac
        project = signac.get_project(self.root)
        order = list(reversed(sel)) if reverse else list(sel)
        jobs = [project.open_job(id=self.ids[i - 1]) for i in order]
        try:
            d = signac.diff_jobs(*jobs)
        except Exception as e:  # noqa
            return ("exc", type(e).__name__, str(e)[:200])
        return ("ok", d)

    def close(self):
        shutil.rmtree(self.root, ignore_errors=True)

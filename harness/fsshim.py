"""In-process file-system shim: record / crash@k (freeze) / torn@k,p / fail@k,errno / gate.

The shim interposes, inside the Python process, on every file-system entry point that signac and the
standard-library helpers it uses (shutil.rmtree/copytree/copy2, gzip.open, os.makedirs, os.walk,
os.path.* predicates, tempfile) can reach, for paths under ONE sandbox directory (`root`).  Everything
outside `root` passes straight through (one `startswith` test).

HOOK POINTS (for the concurrency scheduler and other re-users)
--------------------------------------------------------------
* ``Shim(root, on_step=f, after_step=g)``
    ``f(ev)`` is called for EVERY intercepted call on a path under root (mutating or not) after the event
    has been numbered and BEFORE anything is done on disk, outside the shim's lock, on the calling thread.
    ``ev`` is the event dict (see below; ``ev["res"]`` is still None).  It may block (e.g. ``os.read`` on a
    pipe until a controller grants the turn - use ``shim.orig["os.read"]``/``shim.orig["os.write"]`` to bypass
    the shim), may raise ``OSError`` (becomes the result of the step, like fail@k) or ``Crash``.
    ``g(ev)`` is called after the real call returned or raised (``ev["res"]`` filled in).
    A gate that only wants the contended steps filters on ``ev["paths"]`` / ``ev["op"]`` / ``ev["mut"]``.
* ``shim.step(op, paths, mut, n=None, via=None)`` is the single choke point every wrapper goes through; subclass and
  override it to change numbering or fault decisions.  It returns ``(ev, None)`` (perform the call, then report with
  ``shim._call(ev, fn, ...)`` / ``shim._done(ev)``) or ``(ev, (kind, arg))`` for a partial write (``_partial_write``);
  it raises ``Crash`` / ``OSError`` for injected outcomes and ``Crash`` for every call once frozen.
* ``shim.orig``: the original callables (``"os.replace"``, ``"builtins.open"``, ...) for code that must
  bypass the shim (controllers, observers running inside the same process).
* ``shim.events``: list of event dicts in program order (per process; pool threads append under a lock).
  ``shim.log_fd``: if set, every finished event is also written as one JSON line to that descriptor with the
  original ``os.write`` (survives ``hard_exit``).
* ``install()`` / ``uninstall()`` (or ``with Shim(...) as sh:``) patch/unpatch ``os.*``, ``builtins.open``,
  ``io.open``, ``shutil._USE_CP_SENDFILE``.  Install AFTER importing signac/shutil/gzip (shutil decides on
  the dir_fd based rmtree at import time from the identity of the os functions; both variants are covered).

EVENT
-----
``{"seq": n, "k": m|None, "op": str, "paths": [relpath, ...], "mut": bool, "n": bytes|None,
   "res": "ok" | "E<NAME>" (the real call raised) | "fail:E<NAME>" (injected) | "crash" | "torn:<bytes>",
   "main": bool (main thread?)}``
``"r"`` numbers the non-mutating calls made on the main thread; ``"via": "os.path"`` marks a stat/lstat issued by an
``os.path`` predicate (isdir/isfile/exists/islink), which by design of the standard library reads ANY error as "not there".
``k`` numbers MUTATING steps only (1, 2, ...): non-mutating calls (stat, listdir, open for reading, read)
are recorded but never numbered, because e.g. ``update_cache`` reads state point files from pool threads in a
nondeterministic order.  Paths are relative to root with temp names normalised:
``._<uuid4>_name`` -> ``._<U>_name``.  Mutating ops: ``open:<mode>`` (w/a/x/+), ``write``, ``close`` (of a
file opened for writing; no disk effect but a protocol step), ``ftruncate``, ``replace``, ``rename``,
``remove``, ``unlink``, ``mkdir``, ``rmdir``, ``symlink``, ``link``, ``utime``, ``chmod``, ``chown``,
``truncate``, ``setxattr``, ``removexattr``, ``os.open:<flags>`` with a creating/writing flag, ``os.write``.
Files opened through the shim are UNBUFFERED wrapped objects, so every ``write`` call of the program is one
step (gzip: header, deflate blocks, trailer appear as separate writes).

MODES (combinable)
------------------
record           default: events only.
crash_at=k       steps < k execute; at step k the shim FREEZES: step k is not performed and every later
                 intercepted call (reads too) raises ``Crash`` (a BaseException) without touching the disk,
                 so finally blocks, __exit__ flushes, bare-except roll-backs have no effect - the disk is what
                 ``kill -9`` at that instant leaves.  ``hard_exit=True`` calls ``os._exit(CRASH_EXIT)`` instead
                 (for forked children; used to cross-check the freeze semantics).
torn=p           with crash_at=k where step k is a write: a prefix of the chunk reaches the disk first.
                 p is an int (bytes) or one of PREFIX_CLASSES ("p0","p1","half","allbut1").
faults={k: errno | (errno, prefix)}
                 step k raises ``OSError(errno)`` instead of being performed and execution CONTINUES, so the
                 library's own handlers run; several k give multiple faults.  For a write step a prefix
                 (int or class) may be persisted before the error (short write then ENOSPC/EIO).
                 A failed ``close`` still closes the descriptor (as close(2) does).
rfaults={r: errno}
                 the r-th NON-mutating call (stat, listdir, scandir, open for reading, read, ...) made on the main
                 thread fails with errno (``ev["r"]`` numbers them); used for "a read fails" enumerations.
listing="sorted" | "reversed" | callable
                 order of listdir/scandir results under root (crash point k must mean the same thing in the
                 recording run and in the faulty re-run; several properties depend on listing order).

Not interposed (documented limits): C extensions doing their own I/O (h5py), ``os.DirEntry`` methods
(read-only), modules that captured ``open`` at import (``tarfile.bltn_open``, ``zipfile``'s ``io.open`` are
looked up at call time and ARE covered; tarfile is not), ``mmap``.  Completeness is audited for concrete scenarios with
strace (``parse_strace`` / ``events_for_audit`` below, driven by ``drivers/c10.py:audit``): every successful mutating
syscall under root (open with a creating/writing flag, write, rename*, unlink*, mkdir*, rmdir, symlink*, link*, utimensat,
chmod*, chown*, truncate, setxattr) must have a shim event with the same path and byte count, in the same order.
"""
import builtins
import errno as _errno
import io
import json
import os
import re
import shutil
import sys
import threading

CRASH_EXIT = 97
PREFIX_CLASSES = ("p0", "p1", "half", "allbut1")
UUID_TMP = re.compile(r"\._[0-9a-f]{8}-[0-9a-f]{4}-[0-9a-f]{4}-[0-9a-f]{4}-[0-9a-f]{12}_")


class Crash(BaseException):
    """The simulated process is dead. Never catch it inside code under test."""


def prefix_len(p, n):
    """Number of bytes of an n-byte chunk that reach the disk for prefix class p (always < n for n > 0)."""
    if isinstance(p, int):
        return max(0, min(p, n))
    if p == "p0":
        return 0
    if p == "p1":
        return min(1, max(n - 1, 0))
    if p == "half":
        return n // 2
    if p == "allbut1":
        return max(n - 1, 0)
    raise ValueError(p)


def prefix_classes_for(n):
    """Distinct (class, length) pairs for an n-byte chunk: classes that coincide in length are merged."""
    out, seen = [], set()
    for p in PREFIX_CLASSES:
        ln = prefix_len(p, n)
        if ln not in seen and ln < max(n, 1):
            seen.add(ln)
            out.append((p, ln))
    return out


def ename(e):
    return _errno.errorcode.get(e, "E%s" % e)


_PATH2 = ("replace", "rename", "symlink", "link")  # (src, dst)
_PATH1_MUT = ("remove", "unlink", "mkdir", "rmdir", "utime", "chmod", "chown", "lchown", "truncate",
              "setxattr", "removexattr", "mkfifo")
_PATH1_RO = ("stat", "lstat", "listdir", "scandir", "access", "readlink", "listxattr", "getxattr")
_WFLAGS = os.O_WRONLY | os.O_RDWR | os.O_CREAT | os.O_TRUNC | os.O_APPEND


class Shim:
    def __init__(self, root, crash_at=None, torn=None, faults=None, hard_exit=False, on_step=None,
                 after_step=None, listing=None, log_fd=None, record_reads=True, rfaults=None):
        self.root = os.path.abspath(os.fspath(root)).rstrip("/")
        self._rootp = self.root + "/"
        self.crash_at, self.torn, self.hard_exit = crash_at, torn, hard_exit
        self.faults = dict(faults or {})
        self.rfaults = dict(rfaults or {})  # r -> errno: the r-th NON-mutating call on the main thread fails
        self.r = 0
        self.on_step, self.after_step = on_step, after_step
        self.listing, self.log_fd, self.record_reads = listing, log_fd, record_reads
        self.events, self.k, self.seq = [], 0, 0
        self.frozen = False
        self.orig = {}
        self.fds = {}  # os.open descriptors under root: fd -> (relpath, writable)
        self._lock = threading.RLock()
        self._main = threading.main_thread().ident
        self._installed = False

    # ---- paths ---------------------------------------------------------------------------
    def _abs(self, p, dir_fd=None):
        """absolute path text for a path-like / fd argument, or None when it is not under root"""
        try:
            if isinstance(p, int):
                if p in self.fds:
                    return os.path.join(self.root, self.fds[p][0])
                a = self.orig["os.readlink"]("/proc/self/fd/%d" % p)
            else:
                p = os.fspath(p)
                if isinstance(p, bytes):
                    p = os.fsdecode(p)
                if dir_fd is not None and not p.startswith("/"):
                    base = self.orig["os.readlink"]("/proc/self/fd/%d" % dir_fd)
                    a = os.path.normpath(os.path.join(base, p))
                elif p.startswith("/"):
                    a = os.path.normpath(p)
                else:
                    a = os.path.abspath(p)
        except (TypeError, OSError, ValueError):
            return None
        if a == self.root or a.startswith(self._rootp):
            return a
        return None

    def rel(self, a):
        if a == self.root:
            return "."
        r = a[len(self._rootp):] if a.startswith(self._rootp) else "<outside>" + a
        return UUID_TMP.sub("._<U>_", r)

    # ---- the choke point -----------------------------------------------------------------
    def step(self, op, paths, mut, n=None, via=None):
        """Number the event, apply the mode. Returns (ev, None) to perform the call, (ev, ("torn", nbytes))
        for a partial write followed by freeze/failure. Raises Crash / OSError for injected outcomes."""
        with self._lock:
            if self.frozen:
                raise Crash()
            self.seq += 1
            ev = {"seq": self.seq, "k": None, "op": op, "paths": [self.rel(p) for p in paths], "mut": bool(mut),
                  "n": n, "res": None, "main": threading.get_ident() == self._main}
            if via:
                ev["via"] = via
            if mut:
                self.k += 1
                ev["k"] = self.k
            elif ev["main"]:
                self.r += 1
                ev["r"] = self.r
            recorded = mut or self.record_reads
            if recorded:
                self.events.append(ev)
            action = None
            if mut and self.crash_at == ev["k"]:
                self.frozen = True
                if op in ("write", "os.write") and self.torn is not None:
                    ln = prefix_len(self.torn, n or 0)
                    ev["res"] = "torn:%d" % ln
                    action = ("torn-crash", ln)
                else:
                    ev["res"] = "crash"
                    action = ("crash", None)
            elif mut and ev["k"] in self.faults:
                f = self.faults[ev["k"]]
                en, pre = (f if isinstance(f, tuple) else (f, None))
                ev["res"] = "fail:" + ename(en)
                if pre is not None and op in ("write", "os.write"):
                    action = ("torn-fail", (prefix_len(pre, n or 0), en))
                    ev["res"] += ":%d" % action[1][0]
                else:
                    action = ("fail", en)
            elif not mut and ev.get("r") in self.rfaults:
                ev["res"] = "fail:" + ename(self.rfaults[ev["r"]])
                action = ("fail", self.rfaults[ev["r"]])
        if action is not None and not recorded:
            self.events.append(ev)  # an injected outcome is always recorded
        if action is None:
            if self.on_step is not None:
                try:
                    self.on_step(ev)
                except OSError as e:
                    ev["res"] = "fail:" + ename(e.errno)
                    self._done(ev)
                    raise
            return ev, None
        self._done(ev)
        kind, arg = action
        if kind == "crash":
            self._die()
        if kind == "fail":
            raise OSError(arg, os.strerror(arg))
        return ev, (kind, arg)

    def _die(self):
        if self.hard_exit:
            os._exit(CRASH_EXIT)
        raise Crash()

    def _done(self, ev, exc=None):
        if ev["res"] is None:
            ev["res"] = "ok" if exc is None else (ename(exc.errno) if isinstance(exc, OSError) and exc.errno else type(exc).__name__)
        if self.log_fd is not None:
            try:
                self.orig["os.write"](self.log_fd, (json.dumps(ev) + "\n").encode())
            except OSError:
                pass
        if self.after_step is not None and not self.frozen:
            self.after_step(ev)

    def _call(self, ev, fn, *a, **kw):
        try:
            r = fn(*a, **kw)
        except BaseException as e:
            self._done(ev, e)
            raise
        self._done(ev)
        return r

    def _partial_write(self, torn, rawwrite, data):
        """perform the partial write demanded by step(); then die or raise"""
        kind, arg = torn
        if kind == "torn-crash":
            if arg:
                rawwrite(bytes(data)[:arg])
            self._die()
        ln, en = arg
        if ln:
            rawwrite(bytes(data)[:ln])
        raise OSError(en, os.strerror(en))

    # ---- install / uninstall -------------------------------------------------------------
    def __enter__(self):
        self.install()
        return self

    def __exit__(self, *a):
        self.uninstall()
        return False

    def install(self):
        assert not self._installed
        shim = self
        o = self.orig
        for name in _PATH2 + _PATH1_MUT + _PATH1_RO + ("open", "close", "write", "read", "fsync", "ftruncate",
                                                       "fdopen", "sendfile"):
            if hasattr(os, name):
                o["os." + name] = getattr(os, name)
        o["builtins.open"], o["io.open"] = builtins.open, io.open
        o["_USE_CP_SENDFILE"] = getattr(shutil, "_USE_CP_SENDFILE", None)

        def two(name):
            fn = o["os." + name]

            def w(src, dst, *a, **kw):
                if name == "symlink":  # the link text is not a path operand; only the new name counts
                    pa = [shim._abs(dst, kw.get("dir_fd"))]
                    shown = pa
                else:
                    pa = [shim._abs(src, kw.get("src_dir_fd")), shim._abs(dst, kw.get("dst_dir_fd"))]
                    shown = [p if p else os.path.abspath(os.fspath(q)) for p, q in zip(pa, (src, dst))]
                if not any(pa):
                    return fn(src, dst, *a, **kw)
                ev, _ = shim.step(name, shown, True)
                return shim._call(ev, fn, src, dst, *a, **kw)
            w.__name__ = name
            return w

        def one(name, mut):
            fn = o["os." + name]

            def w(path=".", *a, **kw):
                pa = shim._abs(path, kw.get("dir_fd"))
                if pa is None:
                    return fn(path, *a, **kw)
                if not mut and not shim.record_reads and shim.on_step is None and not shim.frozen and not shim.rfaults:
                    r = fn(path, *a, **kw)
                else:
                    via = None
                    if name in ("stat", "lstat"):  # os.path.isdir/isfile/exists/islink swallow every OSError by design
                        cf = sys._getframe(1).f_code.co_filename  # "<frozen genericpath>" on 3.12
                        if "genericpath" in cf or "posixpath" in cf or "ntpath" in cf:
                            via = "os.path"
                    ev, _ = shim.step(name, [pa], mut, via=via)
                    r = shim._call(ev, fn, path, *a, **kw)
                if name == "listdir" and shim.listing is not None:
                    r = shim._order(list(r), key=lambda x: x)
                elif name == "scandir" and shim.listing is not None:
                    r = _Scandir(shim, r)
                return r
            w.__name__ = name
            return w

        for name in _PATH2:
            if "os." + name in o:
                setattr(os, name, two(name))
        for name in _PATH1_MUT:
            if "os." + name in o:
                setattr(os, name, one(name, True))
        for name in _PATH1_RO:
            if "os." + name in o:
                setattr(os, name, one(name, False))

        def os_open(path, flags, mode=0o777, *, dir_fd=None):
            pa = shim._abs(path, dir_fd)
            if pa is None:
                return o["os.open"](path, flags, mode, dir_fd=dir_fd)
            mut = bool(flags & _WFLAGS)
            ev, _ = shim.step("os.open:%s" % _flagtext(flags), [pa], mut)
            fd = shim._call(ev, o["os.open"], path, flags, mode, dir_fd=dir_fd)
            shim.fds[fd] = (shim.rel(pa), mut)
            return fd

        def os_close(fd):
            ent = shim.fds.pop(fd, None)
            if ent is None:
                return o["os.close"](fd)
            if ent[1]:
                try:
                    ev, _ = shim.step("close", [os.path.join(shim.root, ent[0])], True)
                except BaseException:
                    o["os.close"](fd)
                    raise
                return shim._call(ev, o["os.close"], fd)
            if shim.frozen:
                o["os.close"](fd)
                raise Crash()
            return o["os.close"](fd)

        def os_write(fd, data):
            ent = shim.fds.get(fd)
            if ent is None:
                return o["os.write"](fd, data)
            ev, torn = shim.step("os.write", [os.path.join(shim.root, ent[0])], True, n=len(data))
            if torn:
                shim._partial_write(torn, lambda b: o["os.write"](fd, b), data)
            return shim._call(ev, o["os.write"], fd, data)

        def os_read(fd, n):
            ent = shim.fds.get(fd)
            if ent is None:
                return o["os.read"](fd, n)
            ev, _ = shim.step("os.read", [os.path.join(shim.root, ent[0])], False)
            return shim._call(ev, o["os.read"], fd, n)

        def os_ftruncate(fd, length):
            pa = shim._abs(fd)
            if pa is None:
                return o["os.ftruncate"](fd, length)
            ev, _ = shim.step("ftruncate", [pa], True, n=length)
            return shim._call(ev, o["os.ftruncate"], fd, length)

        def os_fsync(fd):
            pa = shim._abs(fd)
            if pa is None:
                return o["os.fsync"](fd)
            ev, _ = shim.step("fsync", [pa], False)
            return shim._call(ev, o["os.fsync"], fd)

        def os_sendfile(out_fd, in_fd, offset, count, *a, **kw):
            pa = shim._abs(out_fd)
            if pa is None:
                return o["os.sendfile"](out_fd, in_fd, offset, count, *a, **kw)
            ev, _ = shim.step("sendfile", [pa], True, n=count)
            return shim._call(ev, o["os.sendfile"], out_fd, in_fd, offset, count, *a, **kw)

        os.open, os.close, os.write, os.read = os_open, os_close, os_write, os_read
        os.ftruncate, os.fsync = os_ftruncate, os_fsync
        if "os.sendfile" in o:
            os.sendfile = os_sendfile

        def wopen(file, mode="r", buffering=-1, encoding=None, errors=None, newline=None, closefd=True, opener=None):
            if isinstance(file, int):
                ent = shim.fds.get(file)
                if ent is None:
                    return o["builtins.open"](file, mode, buffering, encoding, errors, newline, closefd, opener)
                pa = os.path.join(shim.root, ent[0])
                fromfd = True
            else:
                pa = shim._abs(file)
                fromfd = False
                if pa is None:
                    return o["builtins.open"](file, mode, buffering, encoding, errors, newline, closefd, opener)
            writing = any(c in mode for c in "wax+")
            binary = "b" in mode
            rawmode = mode.replace("b", "").replace("t", "")
            if fromfd:
                raw = io.FileIO(file, rawmode, closefd=closefd)
                if closefd:
                    shim.fds.pop(file, None)
            else:
                ev, _ = shim.step("open:" + (rawmode + "b"), [pa], writing)
                raw = shim._call(ev, io.FileIO, file, rawmode, opener=opener) if opener else shim._call(ev, io.FileIO, file, rawmode)
            sraw = ShimRaw(shim, raw, pa, writing, mode)
            if binary:
                if writing:
                    return sraw
                return io.BufferedReader(sraw)
            buf = sraw if writing else io.BufferedReader(sraw)
            t = io.TextIOWrapper(buf, encoding, errors, newline, False, True)
            t.mode = mode
            return t

        builtins.open = wopen
        io.open = wopen
        if hasattr(os, "fdopen"):
            def fdopen(fd, mode="r", buffering=-1, encoding=None, *a, **kw):
                return wopen(fd, mode, buffering, encoding, *a, **kw)
            os.fdopen = fdopen
        shutil._USE_CP_SENDFILE = False
        self._installed = True
        return self

    def uninstall(self):
        if not self._installed:
            return
        for key, fn in self.orig.items():
            if key.startswith("os."):
                setattr(os, key[3:], fn)
        builtins.open = self.orig["builtins.open"]
        io.open = self.orig["io.open"]
        if self.orig.get("_USE_CP_SENDFILE") is not None:
            shutil._USE_CP_SENDFILE = self.orig["_USE_CP_SENDFILE"]
        self._installed = False

    # ---- listing order -------------------------------------------------------------------
    def _order(self, items, key):
        if self.listing == "sorted":
            return sorted(items, key=key)
        if self.listing == "reversed":
            return sorted(items, key=key, reverse=True)
        if callable(self.listing):
            return self.listing(items)
        return items

    # ---- views ---------------------------------------------------------------------------
    def mutating(self):
        return [e for e in self.events if e["mut"]]


def _flagtext(flags):
    names = []
    acc = flags & os.O_ACCMODE
    names.append({os.O_RDONLY: "RDONLY", os.O_WRONLY: "WRONLY", os.O_RDWR: "RDWR"}.get(acc, "ACC%d" % acc))
    for nm in ("O_CREAT", "O_EXCL", "O_TRUNC", "O_APPEND", "O_DIRECTORY"):
        v = getattr(os, nm, 0)
        if v and flags & v:
            names.append(nm[2:])
    return "|".join(names)


class _Scandir:
    """os.scandir result re-ordered; DirEntry objects stay valid after the underlying iterator is closed."""

    def __init__(self, shim, it):
        try:
            self._entries = shim._order(list(it), key=lambda e: e.name)
        finally:
            close = getattr(it, "close", None)
            if close:
                close()
        self._i = iter(self._entries)

    def __iter__(self):
        return self

    def __next__(self):
        return next(self._i)

    def close(self):
        self._i = iter(())

    def __enter__(self):
        return self

    def __exit__(self, *a):
        self.close()
        return False


class ShimRaw(io.RawIOBase):
    """Unbuffered file object: every write()/read call of the program is one shim step."""

    def __init__(self, shim, raw, path, writing, mode):
        self._shim, self._raw, self._path, self._writing = shim, raw, path, writing
        self._mode = mode
        self._done = False

    @property
    def name(self):
        return self._raw.name

    @property
    def mode(self):
        return self._mode

    def readable(self):
        return self._raw.readable()

    def writable(self):
        return self._raw.writable()

    def seekable(self):
        return self._raw.seekable()

    def fileno(self):
        return self._raw.fileno()

    def isatty(self):
        return False

    def seek(self, *a):
        return self._raw.seek(*a)

    def tell(self):
        return self._raw.tell()

    def flush(self):
        if self._shim.frozen:
            return
        return None

    def _writeall(self, b):
        mv = memoryview(b).cast("B") if not isinstance(b, (bytes, bytearray)) else b
        total, n = 0, len(mv)
        while total < n:
            total += self._raw.write(mv[total:])
        return n

    def write(self, b):
        n = len(b) if isinstance(b, (bytes, bytearray)) else memoryview(b).nbytes
        ev, torn = self._shim.step("write", [self._path], True, n=n)
        if torn:
            self._shim._partial_write(torn, self._writeall, bytes(b))
        return self._shim._call(ev, self._writeall, b)

    def truncate(self, size=None):
        ev, _ = self._shim.step("ftruncate", [self._path], True, n=size)
        return self._shim._call(ev, self._raw.truncate, size)

    def _rstep(self):
        sh = self._shim
        if sh.frozen:
            raise Crash()
        if sh.record_reads or sh.on_step is not None or sh.rfaults:
            return sh.step("read", [self._path], False)[0]
        return None

    def readinto(self, b):
        ev = self._rstep()
        return self._raw.readinto(b) if ev is None else self._shim._call(ev, self._raw.readinto, b)

    def readall(self):
        ev = self._rstep()
        return self._raw.readall() if ev is None else self._shim._call(ev, self._raw.readall)

    def read(self, size=-1):
        if size is None or size < 0:
            return self.readall()
        ev = self._rstep()
        return self._raw.read(size) if ev is None else self._shim._call(ev, self._raw.read, size)

    def close(self):
        if self._done:
            return
        self._done = True
        try:
            if self._writing:
                ev, _ = self._shim.step("close", [self._path], True)
                self._shim._done(ev)
            elif self._shim.frozen:
                raise Crash()
        finally:
            try:
                self._raw.close()
            finally:
                io.RawIOBase.close(self)

    def __del__(self):
        # garbage collection must never be a step
        try:
            self._done = True
            self._raw.close()
        except Exception:
            pass


# ---- strace audit --------------------------------------------------------------------------------
_ST_LINE = re.compile(r"^(?:\[pid\s+\d+\]\s+|\d+\s+)?(\w+)\((.*)\)\s+=\s+(-?\d+|\?)(.*)$")
_ST_MUT = {"rename", "renameat", "renameat2", "unlink", "unlinkat", "mkdir", "mkdirat", "rmdir", "symlink", "symlinkat",
           "link", "linkat", "utimensat", "utime", "utimes", "futimesat", "chmod", "fchmodat", "fchmodat2", "chown", "fchownat", "lchown",
           "truncate", "setxattr", "lsetxattr", "removexattr", "lremovexattr", "mknod", "mknodat", "creat"}
_ST_CLASS = {"rename": "rename", "renameat": "rename", "renameat2": "rename", "unlink": "unlink", "unlinkat": "unlink",
             "mkdir": "mkdir", "mkdirat": "mkdir", "rmdir": "rmdir", "symlink": "symlink", "symlinkat": "symlink",
             "link": "link", "linkat": "link", "utimensat": "utime", "utime": "utime", "utimes": "utime", "futimesat": "utime",
             "chmod": "chmod", "fchmodat": "chmod", "fchmodat2": "chmod", "chown": "chown", "fchownat": "chown", "lchown": "chown",
             "truncate": "truncate", "setxattr": "setxattr", "lsetxattr": "setxattr", "removexattr": "removexattr",
             "lremovexattr": "removexattr", "creat": "open", "mknod": "mknod", "mknodat": "mknod"}
_EV_CLASS = {"replace": "rename", "rename": "rename", "remove": "unlink", "unlink": "unlink", "mkdir": "mkdir", "rmdir": "rmdir",
             "symlink": "symlink", "link": "link", "utime": "utime", "chmod": "chmod", "chown": "chown", "lchown": "chown",
             "truncate": "truncate", "ftruncate": "truncate", "setxattr": "setxattr", "removexattr": "removexattr", "write": "write",
             "os.write": "write"}


def _st_paths(args):
    """quoted strings and fd</path> annotations of one strace argument list, in order"""
    out = []
    for m in re.finditer(r'(\d+|AT_FDCWD)<([^>]*)>|"((?:[^"\\]|\\.)*)"', args):
        if m.group(2) is not None:
            out.append(("fd", m.group(2)))
        else:
            out.append(("s", m.group(3)))
    return out


def parse_strace(text, root, cwd=None):
    """-> list of (class, relpath-ish absolute path, nbytes|None) for successful mutating syscalls under root."""
    root = root.rstrip("/")
    out = []

    def under(p):
        return p == root or p.startswith(root + "/")

    pending = {}  # pid -> text of an unfinished call (threads interleave in the -f output)
    lines = []
    for raw in text.splitlines():
        mp = re.match(r"^\s*(\d+)\s+(.*)$", raw)
        pid, body = (mp.group(1), mp.group(2)) if mp else ("", raw.strip())
        if body.endswith("<unfinished ...>"):
            pending[pid] = body[: -len("<unfinished ...>")].rstrip()
            continue
        mr = re.match(r"^<\.\.\. \w+ resumed>(.*)$", body)
        if mr:
            body = pending.pop(pid, "") + mr.group(1)
        lines.append(body)
    for line in lines:
        m = _ST_LINE.match(line.strip())
        if not m:
            continue
        name, args, ret = m.group(1), m.group(2), m.group(3)
        if ret == "?" or int(ret) < 0:
            continue
        ps = _st_paths(args)
        if name in ("open", "openat", "openat2"):
            if not re.search(r"O_(WRONLY|RDWR|CREAT|TRUNC|APPEND)", args):
                continue
            full = _resolve(ps)
            if full and under(full):
                out.append(("open", full, None))
        elif name == "write":
            if ps and ps[0][0] == "fd" and under(ps[0][1]) and int(ret) > 0:
                out.append(("write", ps[0][1], int(ret)))
        elif name == "ftruncate":
            if ps and ps[0][0] == "fd" and under(ps[0][1]):
                out.append(("truncate", ps[0][1], None))
        elif name in _ST_MUT:
            full = _resolve_all(ps)
            if name in ("symlink", "symlinkat"):
                full = full[-1:]  # the link target text is not a path operand
            hit = [p for p in full if under(p)]
            if hit:
                cls = "rmdir" if (name == "unlinkat" and "AT_REMOVEDIR" in args) else _ST_CLASS[name]
                out.append((cls, hit[-1] if name.startswith(("rename", "link", "symlink")) else hit[0], None))
    return out


def _resolve(ps):
    r = _resolve_all(ps)
    return r[0] if r else None


def _resolve_all(ps):
    """combine 'fd</dir>' followed by a relative string into absolute paths"""
    out, base = [], None
    for kind, v in ps:
        if kind == "fd":
            base = v
        else:
            if v.startswith("/"):
                out.append(os.path.normpath(v))
            elif base is not None and base != "":
                out.append(os.path.normpath(os.path.join(base, v)))
            else:
                out.append(v)
            base = None
    return out


def events_for_audit(events, root):
    """shim events -> comparable (class, abs path, nbytes) list (close has no syscall in the %file trace)"""
    out = []
    for e in events:
        if not e["mut"] or e["op"] == "close":
            continue
        if not (e["res"] == "ok"):
            continue
        op = e["op"]
        if op.startswith("open:") or op.startswith("os.open:"):
            cls = "open"
        else:
            cls = _EV_CLASS.get(op, op)
        p = e["paths"][-1]
        if cls == "write" and not e["n"]:
            continue  # a zero-byte write of the program is a step but not a system call
        out.append((cls, os.path.normpath(os.path.join(root, p)), e["n"] if cls == "write" else None))
    return out

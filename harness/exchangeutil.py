"""Helpers for C16 (export_to / import_from): translation spec value <-> Python, sandbox execution of one
case on the real library, raw observation of what was written where.

Nothing here decides what the *expected* result is - expectations are read from TLC's export of
spec/exchange/ExportImport.tla.  This module only (a) renders spec values as Python values / format strings /
callables, (b) executes signac, (c) observes the file system with os.walk / zipfile / tarfile / json and
evaluates the post-conditions that are literally part of the property statement.
"""
import json
import os
import re
import shutil
import tarfile
import tempfile
import warnings
import zipfile

from . import core
from .jsonenc import cps, from_wire, to_wire, type_exact_eq, uncps

KINDS = ["", ".zip", ".tar", ".tar.gz", ".tar.bz2", ".tar.xz"]  # target "kind" = file name suffix
FN_SP, FN_DOC = "signac_statepoint.json", "signac_job_document.json"
HEX32 = re.compile(r"^[0-9a-f]{32}$")


def kind_class(kind):
    return "dir" if kind == "" else ("zip" if kind == ".zip" else "tar")


# ---- spec -> Python ---------------------------------------------------------------------------
# text of the payload name tokens of the spec (FileToks / DirToks): unusual but legal file and directory names
NAMES = {
    "f_emoji": "\U0001F600.txt", "f_math": "\U0001D70E.dat", "f_cjkb": "\U00020000x", "f_ffff": "\uffffz", "f_fffd": "\ufffdz",
    "f_eacute": "\u00e9.txt", "f_cjk": "\u4e2d.txt", "f_space": "with space.txt", "f_dot": ".hidden", "f_tilde": "~tmp", "f_tdot": "trail.",
    "f_long": "L" * 200, "f_a": "a", "f_a_dot_b": "a.b", "f_a_space_b": "a b", "f_ab": "ab",
    "f_before_sp": "signac_statepoint.jso", "f_after_sp": "signac_statepoint.json.bak",
    "d_emoji": "\U0001F600d", "d_math": "\U0001D70Ed", "d_ffff": "\uffffd", "d_eacute": "\u00e9d", "d_space": "sp ace", "d_dot": ".d",
    "d_tilde": "~d", "d_tdot": "d.", "d_long": "D" * 200, "d_b": "b", "d_b_dot_c": "b.c", "d_b_space_c": "b c", "d_bc": "bc",
}
# which tokens are files / directories / repeated at depth 2 is decided by the spec (Describe); set by set_payload_tokens
FILE_TOKS, DIR_TOKS, DEEP2_TOKS = [], [], []


def set_payload_tokens(filetoks, dirtoks, deep2toks):
    missing = (set(filetoks) | set(dirtoks) | set(deep2toks)) - set(NAMES)
    if missing:
        raise core.MachineryError("the spec uses payload name tokens the harness has no text for: %s" % sorted(missing))
    FILE_TOKS[:], DIR_TOKS[:], DEEP2_TOKS[:] = sorted(filetoks), sorted(dirtoks), sorted(deep2toks)


def tables(leaves, universe, nametoks=()):
    """NDJSON lines for IOEnv.C16_TABLES: Python's str() of every leaf value, job id of every state point,
    text of every payload name token."""
    null = to_wire(None)
    lines = []
    for v in leaves:
        lines.append({"k": "render", "u": 0, "v": to_wire(v), "r": cps(str(v)), "tok": ""})
    for u, sp in enumerate(universe, 1):
        lines.append({"k": "id", "u": u, "v": null, "r": cps(core.my_id(sp)), "tok": ""})
    for t in nametoks:
        lines.append({"k": "name", "u": 0, "v": null, "r": cps(NAMES[t]), "tok": t})
    return lines


def leaves_of(sp):
    """leaf values of a (nested) state point; translation helper for the render table"""
    out = []
    for v in sp.values():
        if isinstance(v, dict) and v:
            out += leaves_of(v)
        else:
            out.append(v)
    return out


def _dotted(kp):
    return ".".join(uncps(k) for k in kp)


def _lookup(sp, kp):
    v = sp
    for k in kp:
        v = v[uncps(k)]
    return v


def py_pathspec(ps):
    """A path specification of the spec (kind + segments) as the Python object a user would pass."""
    if ps["kind"] == "none":
        return None
    if ps["kind"] == "false":
        return False
    segs = ps["segs"]
    if ps["kind"] == "str":
        out = []
        for s in segs:
            k = s["k"]
            if k == "lit":
                out.append(uncps(s["t"]))
            elif k == "field":
                out.append("{" + _dotted(s["kp"]) + "}")
            elif k == "spfield":
                out.append("{job.sp." + _dotted(s["kp"]) + "}")
            elif k == "id":
                out.append("{job.id}")
            elif k == "auto":
                out.append("{{auto" + (":" + uncps(s["t"]) if s["t"] else "") + "}}")
            else:
                raise core.MachineryError("segment %r not allowed in a format string" % k)
        return "".join(out)

    def fn(job, segs=segs):
        out = []
        sp = job.statepoint()
        for s in segs:
            k = s["k"]
            if k == "lit":
                out.append(uncps(s["t"]))
            elif k == "id":
                out.append(job.id)
            elif k == "get":
                try:
                    out.append(str(_lookup(sp, s["kp"])))
                except (KeyError, TypeError):
                    out.append(uncps(s["t"]))
            elif k in ("field", "spfield"):
                out.append(str(_lookup(sp, s["kp"])))
            else:
                raise core.MachineryError("segment %r not allowed in a callable" % k)
        return "".join(out)

    return fn


def schema_string(schema):
    return "/".join("%s/{%s:%s}" % (uncps(s["key"]), uncps(s["key"]), s["ty"]) for s in schema)


# ---- listing-order shim -------------------------------------------------------------------------
_REAL_LISTDIR = os.listdir
_ORDER = {}  # absolute directory -> names in the order in which they must be listed


def _listdir(path="."):
    names = _REAL_LISTDIR(path)
    try:
        want = _ORDER.get(os.path.abspath(os.fspath(path)))
    except TypeError:
        want = None
    if want:
        have = set(names)
        return [n for n in want if n in have] + [n for n in names if n not in set(want)]
    return names


_REAL_SCANDIR = os.scandir
_SCAN_MODE = [None]  # None | "sorted" | "reversed": order in which os.scandir (os.walk, shutil.copytree) yields entries


class _Scan:
    """os.scandir result with a forced order (iterator + context manager, like the real one)"""

    def __init__(self, it, reverse):
        with it:
            self._entries = sorted(it, key=lambda e: e.name, reverse=reverse)
        self._it = iter(self._entries)

    def __iter__(self):
        return self

    def __next__(self):
        return next(self._it)

    def __enter__(self):
        return self

    def __exit__(self, *a):
        return False

    def close(self):
        pass


def _scandir(path="."):
    it = _REAL_SCANDIR(path)
    mode = _SCAN_MODE[0]
    if mode is None:
        return it
    return _Scan(it, mode == "reversed")


def install_listing_shim():
    if os.listdir is not _listdir:
        os.listdir = _listdir
    if os.scandir is not _scandir:
        os.scandir = _scandir


class scan_order:
    def __init__(self, mode):
        self.mode = mode

    def __enter__(self):
        install_listing_shim()
        self.old, _SCAN_MODE[0] = _SCAN_MODE[0], self.mode

    def __exit__(self, *a):
        _SCAN_MODE[0] = self.old


class listing_order:
    def __init__(self, directory, names):
        self.d, self.names = os.path.abspath(directory), list(names)

    def __enter__(self):
        install_listing_shim()
        _ORDER[self.d] = self.names

    def __exit__(self, *a):
        _ORDER.pop(self.d, None)


# ---- raw observation ----------------------------------------------------------------------------
def tree(root):
    """relative path -> bytes for files, None for directories (core.snapshot, but {} for a missing root)"""
    if not os.path.lexists(root):
        return {}
    if os.path.isfile(root):
        with open(root, "rb") as f:
            return {".": f.read()}
    return core.snapshot(root)


def files_only(t):
    return {k: v for k, v in t.items() if v is not None}


def archive_members(path, kind):
    """number of members of an archive written by export_to (0 if missing / empty / unreadable because empty)"""
    if not os.path.exists(path) or os.path.getsize(path) == 0:
        return 0
    if kind == ".zip":
        with zipfile.ZipFile(path) as z:
            return len(z.namelist())
    try:
        with tarfile.open(path) as t:
            return len(t.getnames())
    except tarfile.ReadError:
        return 0


def diff_trees(before, after):
    ks = set(before) | set(after)
    return sorted(k for k in ks if before.get(k, "<absent>") != after.get(k, "<absent>"))


class Source:
    """A real source project holding the jobs of one case (any listing order), with its byte snapshot."""

    def __init__(self, root, jobs):
        """jobs: list of dict(sp, doc, nested) - created in the given order"""
        import signac
        self.root = root
        self.project = signac.init_project(os.path.join(root, "src"))
        self.jobs = jobs
        self.ids = []
        for n, j in enumerate(jobs):
            job = self.project.open_job(j["sp"]).init()
            want = core.my_id(j["sp"])
            if job.id != want:
                raise core.MachineryError("job id %s differs from the harness id %s (C01 territory)" % (job.id, want))
            self.ids.append(job.id)
            if j["doc"]:
                job.doc["who"] = job.id
                job.doc["sp"] = j["sp"]
                job.doc["nested"] = {"k": [1, 2.5, "x", None, True]}
            if "sel" in j:
                job.doc["sel"] = j["sel"]          # read by the command line filter `-f doc.sel true`
            with open(job.fn("top.txt"), "w") as f:
                f.write("top of " + job.id)
            if j["nested"]:
                os.makedirs(job.fn("sub/deep"))
                with open(job.fn("sub/deep/f.txt"), "w") as f:
                    f.write("nested file of " + job.id + "\n" * (n + 1))
                with open(job.fn("sub/g.bin"), "wb") as f:
                    f.write(bytes(range(256)) * 3 + job.id.encode())
            if j.get("embed", "none") != "none":
                # state point files that are payload, not jobs (depth 1, 2, 3 below the job directory)
                os.makedirs(job.fn("sub"), exist_ok=True)
                with open(job.fn("sub/" + FN_SP), "w") as f:
                    json.dump({"embedded_in": job.id, "at": "sub"}, f)
                os.makedirs(job.fn("emb/two"))
                if j["embed"] == "self":
                    shutil.copy(job.fn(FN_SP), job.fn("emb/two/" + FN_SP))     # the job's own state point once more
                else:
                    with open(job.fn("emb/two/" + FN_SP), "w") as f:
                        json.dump({"embedded_in": job.id, "at": "emb"}, f)
                inner = job.fn("inner/workspace/" + "0" * 32)
                os.makedirs(inner)
                with open(os.path.join(inner, FN_SP), "w") as f:
                    json.dump({"embedded_in": job.id, "at": "inner"}, f)
                with open(os.path.join(inner, "payload.dat"), "w") as f:
                    f.write("payload of the embedded job directory in " + job.id)
            if j.get("odd"):
                # unusual but legal file and directory names, depth 1 and 2 (structure as OddFiles in the spec)
                def put(rel, tag):
                    fn = job.fn(rel)
                    os.makedirs(os.path.dirname(fn), exist_ok=True)
                    with open(fn, "wb") as f:
                        f.write(("%s of %s\n" % (tag, job.id)).encode() + rel.encode("utf-8"))
                for t in FILE_TOKS:
                    put(NAMES[t], t)
                for t in DIR_TOKS:
                    put(NAMES[t] + "/in.txt", t)
                for t in DEEP2_TOKS:
                    put("odd2/" + NAMES[t], "deep " + t)
        self.workspace = self.project.workspace
        self.snap = core.snapshot(self.project.path)
        self.jobtrees = {i: files_only(core.snapshot(os.path.join(self.workspace, i))) for i in self.ids}
        for i, j in zip(self.ids, jobs):
            with open(os.path.join(self.workspace, i, FN_SP)) as f:
                if not type_exact_eq(json.load(f), j["sp"]):
                    raise core.MachineryError("state point file of %s is not the state point" % i)


def observe_project(path, source):
    """Raw projection of an importing project: which job directories exist, which are byte-identical to the
    source job, what lies outside job directories.  Never through signac."""
    snap = core.snapshot(path)
    ws = "workspace/"
    jobs, stray = {}, []
    for rel, content in snap.items():
        if rel.startswith(".signac/") or rel in (".signac", "workspace/", "signac.rc"):
            continue
        if rel.startswith(ws):
            first = rel[len(ws):].split("/", 1)[0]
            if HEX32.match(first):
                if content is not None:
                    jobs.setdefault(first, {})[rel[len(ws) + 33:]] = content
                else:
                    jobs.setdefault(first, {})
                continue
        stray.append(rel)
    present = {i for i, files in jobs.items() if FN_SP in files}
    alien = sorted(i for i in jobs if i not in source.jobtrees)
    exact = set()
    for i in present:
        if i in source.jobtrees and jobs[i] == source.jobtrees[i]:
            try:
                sp = json.loads(jobs[i][FN_SP].decode())
            except ValueError:
                continue
            if core.my_id(sp) == i:
                exact.add(i)
    missing, surplus = [], []
    for i in present - exact:
        if i in source.jobtrees:
            missing += ["%s/%s" % (i[:6], k) for k in source.jobtrees[i] if k not in jobs[i]]
            surplus += ["%s/%s" % (i[:6], k) for k in jobs[i] if k not in source.jobtrees[i]]
    return {"present": present, "exact": exact, "alien": alien, "stray": sorted(stray), "missing": sorted(missing), "surplus": sorted(surplus),
            "halfjobs": sorted(i for i in jobs if i not in present)}


def run_export(source, order_ids, target, path, copytree=None, project=None, scan=None):
    """export_to with the workspace listed in the given order. -> (mapping | None, exception | None)"""
    project = project or source.project
    import signac
    project = signac.get_project(project.path)  # fresh session
    with listing_order(project.workspace, order_ids), scan_order(scan), warnings.catch_warnings():
        warnings.simplefilter("ignore")
        try:
            kw = {} if copytree is None else {"copytree": copytree}
            return project.export_to(target=target, path=path, **kw), None
        except Exception as e:  # noqa: BLE001 - any exception is "the call raises"
            return None, e


def run_import(dst_root, origin, schema=None, scan=None):
    """import_from into the project at dst_root (fresh session). -> (mapping | None, exception | None)"""
    import signac
    project = signac.get_project(dst_root)
    with scan_order(scan), warnings.catch_warnings():
        warnings.simplefilter("ignore")
        try:
            return project.import_from(origin=origin, schema=schema), None
        except Exception as e:  # noqa: BLE001
            return None, e


def new_project(root, name):
    import signac
    p = os.path.join(root, name)
    signac.init_project(p)
    return p


PAYLOAD_DIRS = ("sub", "emb", "inner")   # top-level payload directories of a job (Source); never path components


def _is_payload(rel):
    return any(c in PAYLOAD_DIRS for c in rel.split("/")[:-1])


def exported_jobs_in_target(target, kind):
    """how many jobs' own state point files reached the target (raw; embedded payload state points do not count)"""
    if kind == "":
        if not os.path.isdir(target):
            return 0
        return sum(1 for r, _, fs in os.walk(target) if FN_SP in fs and not _is_payload(os.path.relpath(os.path.join(r, FN_SP), target)))
    if not os.path.exists(target) or os.path.getsize(target) == 0:
        return 0
    if kind == ".zip":
        with zipfile.ZipFile(target) as z:
            return sum(1 for n in z.namelist() if os.path.basename(n) == FN_SP and not _is_payload(n))
    try:
        with tarfile.open(target) as t:
            return sum(1 for n in t.getnames() if os.path.basename(n) == FN_SP and not _is_payload(n))
    except tarfile.ReadError:
        return 0


def strip_statepoint_files(src_dir, dst_dir):
    """a copy of an exported directory tree without state point files (a 'foreign' data space)"""
    shutil.copytree(src_dir, dst_dir)
    for r, _, fs in os.walk(dst_dir):
        if FN_SP in fs and not _is_payload(os.path.relpath(os.path.join(r, FN_SP), dst_dir)):
            os.remove(os.path.join(r, FN_SP))


def table_schema_callable(origin, kind, table):
    """A schema callable that knows the exported layout: normalised relative directory -> state point.
    (translation of the spec's expected path map; for directories the crawler passes absolute paths)"""
    def schema(path):
        rel = os.path.normpath(os.path.relpath(path, origin)) if kind == "" else os.path.normpath(path) if path else "."
        return table.get("" if rel == "." else rel)
    return schema


def use_private_tmp(root):
    d = os.path.join(root, "tmp")
    os.makedirs(d, exist_ok=True)
    tempfile.tempdir = d
    return d

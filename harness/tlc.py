"""Thin driver around TLC (tla2tools 1.8): run, parse statistics / coverage / violations."""
import os
import re
import subprocess
import time

from . import tlaparse

JAR = "/opt/veriftools/tla/tla2tools.jar:/opt/veriftools/tla/CommunityModules-deps.jar"
SPEC_ROOT = os.path.join(os.path.dirname(os.path.dirname(os.path.abspath(__file__))), "spec")


class TLCError(RuntimeError):
    """Machinery failure (parse error, crash, timeout) - never a property verdict."""


class TLCResult:
    def __init__(self):
        self.stdout = ""
        self.generated = 0
        self.distinct = 0
        self.depth = 0
        self.wall = 0.0
        self.actions = {}  # action name -> (distinct, total)
        self.violation = None  # dict(kind, name, trace=[(head, state)])
        self.printed = []  # values printed with PrintT/Print (raw text lines)
        self.returncode = 0

    @property
    def ok(self):
        return self.violation is None


def run(
    spec,
    cfg=None,
    cfg_text=None,
    workdir=None,
    workers=16,
    simulate=None,
    depth=None,
    seed=None,
    dump=None,
    env=None,
    timeout=3600,
    coverage=True,
    deadlock=False,
    heap="6g",
    extra=(),
    allow_violation=True,
    props=None,
):
    """spec: path relative to /verif/spec or absolute. cfg: path (same convention) or cfg_text."""
    spec = spec if os.path.isabs(spec) else os.path.join(SPEC_ROOT, spec)
    assert workdir, "workdir required"
    os.makedirs(workdir, exist_ok=True)
    if cfg_text is not None:
        cfg = os.path.join(workdir, os.path.basename(spec)[:-4] + "_%d.cfg" % (time.time_ns() % 10**9))
        with open(cfg, "w") as f:
            f.write(cfg_text)
    elif cfg is not None and not os.path.isabs(cfg):
        cfg = os.path.join(SPEC_ROOT, cfg)
    meta = os.path.join(workdir, "meta_%d" % (time.time_ns() % 10**9))
    libs = os.pathsep.join([os.path.join(SPEC_ROOT, "common"), os.path.dirname(spec)])
    cmd = ["java", "-XX:+UseParallelGC", "-Xmx" + heap, "-DTLA-Library=" + libs]
    for k, v in (props or {}).items():
        cmd.append("-D%s=%s" % (k, v))
    cmd += ["-cp", JAR, "tlc2.TLC", "-metadir", meta, "-noGenerateSpecTE", "-workers", str(workers)]
    if coverage and not simulate:
        cmd += ["-coverage", "1"]
    if not deadlock:
        cmd += ["-deadlock"]
    if simulate:
        cmd += ["-simulate", simulate]
    if depth is not None:
        cmd += ["-depth", str(depth)]
    if seed is not None:
        cmd += ["-seed", str(seed)]
    if dump:
        cmd += ["-dump", "dot,actionlabels", dump]
    cmd += list(extra)
    cmd += ["-config", cfg, spec]
    e = dict(os.environ)
    e.pop("JAVA_TOOL_OPTIONS", None)
    e.update(env or {})
    t0 = time.time()
    try:
        p = subprocess.run(cmd, cwd=workdir, env=e, stdout=subprocess.PIPE, stderr=subprocess.STDOUT, timeout=timeout)
    except subprocess.TimeoutExpired as ex:
        raise TLCError("TLC timed out after %ss: %s" % (timeout, " ".join(cmd))) from ex
    finally:
        subprocess.run(["rm", "-rf", meta])
    r = TLCResult()
    r.wall = time.time() - t0
    r.returncode = p.returncode
    r.stdout = out = p.stdout.decode("utf-8", "replace")
    m = None
    for m in re.finditer(r"(\d+) states generated, (\d+) distinct states found", out):
        pass
    if m:
        r.generated, r.distinct = int(m.group(1)), int(m.group(2))
    if simulate and not r.generated:
        m2 = re.search(r"The number of states generated: (\d+)", out)
        if m2:
            r.generated = int(m2.group(1))      # simulation mode: TLC does not count distinct states
    m = re.search(r"depth of the complete state graph search is (\d+)", out)
    if m:
        r.depth = int(m.group(1))
    for m in re.finditer(r"^<(\w+) line \d+, col \d+ to line \d+, col \d+ of module (\w+)>: (\d+):(\d+)", out, re.M):
        d, t = r.actions.get(m.group(1), (0, 0))
        r.actions[m.group(1)] = (d + int(m.group(3)), t + int(m.group(4)))
    # violations
    m = re.search(r"Error: Invariant (\S+) is violated", out)
    kind = "invariant"
    if not m:
        m = re.search(r"Error: Action property (\S+) is violated", out)
        kind = "action_property"
    if not m:
        m = re.search(r"Error: (Temporal properties were violated)", out)
        kind = "temporal"
    if not m:
        m = re.search(r"Error: (Deadlock reached)", out)
        kind = "deadlock"
    if not m:
        m = re.search(r"Error: (The postcondition .*? is violated|Assumption .*? is false)", out)
        kind = "postcondition"
    if m:
        name = m.group(1)
        if kind == "action_property":
            m2 = re.search(r"line (\d+), col \d+ to line \d+, col \d+ of module (\w+)", name + out[m.end(): m.end() + 200])
        tail = out[m.end():]
        r.violation = {"kind": kind, "name": name.rstrip("."), "trace": tlaparse.parse_trace_text(tail)}
    elif p.returncode != 0 or "Error:" in out:
        # anything else is a machinery failure
        if simulate and p.returncode == 0:
            pass
        else:
            raise TLCError("TLC failed (rc=%s):\n%s" % (p.returncode, out[-4000:]))
    if r.violation and not allow_violation:
        raise TLCError("unexpected violation %s in %s" % (r.violation["name"], spec))
    return r


def cfg(constants=None, init="Init", next="Next", spec=None, invariants=(), properties=(), constraints=(),
        action_constraints=(), view=None, postcondition=None, symmetry=None, alias=None):
    """Build cfg text. constants: name -> TLA literal text (already rendered)."""
    lines = []
    if constants:
        lines.append("CONSTANTS")
        for k, v in constants.items():
            lines.append("  %s = %s" % (k, v) if not str(v).startswith("<-") else "  %s %s" % (k, v))
    if spec:
        lines.append("SPECIFICATION %s" % spec)
    else:
        if init:
            lines.append("INIT %s" % init)
        if next:
            lines.append("NEXT %s" % next)
    for i in invariants:
        lines.append("INVARIANT %s" % i)
    for i in properties:
        lines.append("PROPERTY %s" % i)
    for i in constraints:
        lines.append("CONSTRAINT %s" % i)
    for i in action_constraints:
        lines.append("ACTION_CONSTRAINT %s" % i)
    if view:
        lines.append("VIEW %s" % view)
    if postcondition:
        lines.append("POSTCONDITION %s" % postcondition)
    if symmetry:
        lines.append("SYMMETRY %s" % symmetry)
    if alias:
        lines.append("ALIAS %s" % alias)
    lines.append("CHECK_DEADLOCK FALSE")
    return "\n".join(lines) + "\n"


def lit(v):
    """Render a Python value as a TLA+ literal (str, bool, int, list->tuple, set, dict->function/record)."""
    if isinstance(v, bool):
        return "TRUE" if v else "FALSE"
    if isinstance(v, int):
        return str(v)
    if isinstance(v, str):
        return '"' + v.replace("\\", "\\\\").replace('"', '\\"').replace("\n", "\\n").replace("\t", "\\t") + '"'
    if isinstance(v, (list, tuple)):
        return "<<" + ", ".join(lit(x) for x in v) + ">>"
    if isinstance(v, (set, frozenset)):
        return "{" + ", ".join(sorted(lit(x) for x in v)) + "}"
    if isinstance(v, dict):
        if not v:
            return "<<>>"
        if all(isinstance(k, str) and re.fullmatch(r"[A-Za-z_][A-Za-z0-9_]*", k) for k in v):
            return "[" + ", ".join("%s |-> %s" % (k, lit(x)) for k, x in v.items()) + "]"
        return "(" + " @@ ".join("%s :> %s" % (lit(k), lit(x)) for k, x in v.items()) + ")"
    raise TypeError(v)

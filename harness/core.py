"""Run context shared by all property drivers: work directory, evidence, findings, verdicts."""
import gzip
import hashlib
import json
import multiprocessing as mp
import os
import shutil
import tempfile
import time

VERIF = os.path.dirname(os.path.dirname(os.path.abspath(__file__)))
FINDINGS_FILE = os.path.join(VERIF, "known_findings.json")


def canon_json(v):
    """The harness's own canonical JSON (independent of signac.job.calc_id)."""
    return json.dumps(v, sort_keys=True)


def my_id(sp):
    return hashlib.md5(canon_json(sp).encode()).hexdigest()


class Violation:
    def __init__(self, signature, what, replay):
        self.signature, self.what, self.replay = signature, what, replay


class Ctx:
    def __init__(self, pid, tier, seed):
        self.pid, self.tier, self.seed = pid, tier, seed
        self.quick = tier == "quick"
        # scratch: tmpfs when there is one (replaying ~10^5 tiny sandboxes is dominated by file-system latency)
        shm = "/dev/shm"
        base = os.environ.get("VERIF_WORK") or (shm if os.path.isdir(shm) and os.access(shm, os.W_OK) else tempfile.gettempdir())
        os.makedirs(base, exist_ok=True)
        self.work = tempfile.mkdtemp(prefix="verif-%s-" % pid, dir=base)
        self.t0 = time.time()
        self.cov = {
            "states": 0, "transitions": 0, "traces_validated_against_impl": 0, "samples": [],
            "evaluations": 0, "distinct_nontrivial": 0, "rule": "", "tlc_runs": [], "spec_actions": {},
            "conformant": True, "binding_selftest": None,
        }
        self.assumptions = []
        self.violations = []
        self.drift = []
        self.notes = []
        self._distinct = set()

    # ---- scratch -------------------------------------------------------------------------
    def mkdtemp(self, prefix="d"):
        return tempfile.mkdtemp(prefix=prefix + "-", dir=self.work)

    def cleanup(self):
        shutil.rmtree(self.work, ignore_errors=True)

    # ---- accounting ----------------------------------------------------------------------
    def add_tlc(self, name, r):
        self.cov["states"] += r.distinct
        self.cov["transitions"] += r.generated
        self.cov["tlc_runs"].append({"run": name, "distinct": r.distinct, "generated": r.generated,
                                     "depth": r.depth, "wall_s": round(r.wall, 1)})
        for a, (d, t) in r.actions.items():
            x = self.cov["spec_actions"].get(a, 0)
            self.cov["spec_actions"][a] = x + t

    def count(self, key=None, n=1, traces=0):
        self.cov["evaluations"] += n
        self.cov["traces_validated_against_impl"] += traces
        if key is not None:
            self._distinct.add(key if isinstance(key, (str, int)) else hashlib.md5(repr(key).encode()).hexdigest())

    def sample(self, s, cap=6):
        if len(self.cov["samples"]) < cap:
            self.cov["samples"].append(s)

    def violation(self, signature, what, replay):
        self.violations.append(Violation(signature, what, replay))

    def spec_drift(self, what):
        self.cov["conformant"] = False
        if len(self.drift) < 50:
            self.drift.append(what)

    def require_actions(self, r, names):
        """Vacuity guard: every listed spec action must have been taken at least once."""
        missing = [n for n in names if r.actions.get(n, (0, 0))[1] == 0]
        if missing:
            raise MachineryError("vacuous model run: actions never taken: %s" % missing)


class MachineryError(RuntimeError):
    pass


# ---- known findings ----------------------------------------------------------------------
def load_findings():
    """known_findings.json plus (while families are developed separately) known_findings.d/*.json"""
    out = []
    files = [FINDINGS_FILE] if os.path.exists(FINDINGS_FILE) else []
    d = os.path.join(VERIF, "known_findings.d")
    if os.path.isdir(d):
        files += [os.path.join(d, f) for f in sorted(os.listdir(d)) if f.endswith(".json")]
    for f in files:
        out += json.load(open(f)).get("findings", [])
    return out


def finish(ctx, level="model_checking"):
    """Print verdict lines, write evidence, return exit code."""
    known = {(f["property"], f["signature"]): f for f in load_findings() if f.get("status", "open") == "open"}
    seen_known, fresh = {}, {}
    for v in ctx.violations:
        k = (ctx.pid, v.signature)
        if k in known:
            seen_known.setdefault(v.signature, v)
        else:
            fresh.setdefault(v.signature, v)
    for sig, v in sorted(seen_known.items()):
        print("KNOWN-FINDING: property=%s %s [%s]" % (ctx.pid, known[(ctx.pid, sig)].get("what", v.what), sig))
    os.makedirs(os.path.join(VERIF, "replays"), exist_ok=True)
    for n, (sig, v) in enumerate(sorted(fresh.items())):
        if n >= 12:
            print("... and %d further violation signatures (see evidence file)" % (len(fresh) - n))
            break
        fn = os.path.join(VERIF, "replays", "%s-%s.json" % (ctx.pid, hashlib.md5(sig.encode()).hexdigest()[:10]))
        with open(fn, "w") as f:
            json.dump({"property": ctx.pid, "signature": sig, "what": v.what, "replay": v.replay}, f, indent=1, default=str)
        print("VIOLATION property=%s replay=%s" % (ctx.pid, fn))
        print("  signature: %s\n  what: %s" % (sig, v.what))
    for d in ctx.drift[:10]:
        print("SPEC-DRIFT: property=%s %s" % (ctx.pid, d))
    cov = ctx.cov
    if not isinstance(cov.get("exhaustive", False), bool):      # the schema wants a boolean; keep the driver's words separately
        cov["exhaustive_scope"] = str(cov["exhaustive"])
        cov["exhaustive"] = False
    for k in ("states", "transitions", "traces_validated_against_impl", "evaluations"):
        cov[k] = int(cov.get(k, 0))
    cov["samples"] = list(cov.get("samples", []))
    cov["distinct_nontrivial"] = max(len(ctx._distinct), int(cov.get("distinct_nontrivial", 0) or 0))
    cov["known_findings_seen"] = sorted(seen_known)
    cov["violation_signatures"] = sorted(fresh)
    cov["spec_drift"] = ctx.drift[:20]
    cov["notes"] = ctx.notes
    ev = {
        "property_id": ctx.pid, "tier": ctx.tier, "seed": ctx.seed, "level": level, "coverage": cov,
        "assumptions": ctx.assumptions, "wall_s": round(time.time() - ctx.t0, 2), "violations": len(fresh),
    }
    if cov["states"] < 1 or cov["transitions"] < 1 or not cov["samples"]:
        raise MachineryError("evidence would be empty (states/transitions/samples) - check did not run")
    os.makedirs(os.path.join(VERIF, "evidence"), exist_ok=True)
    with open(os.path.join(VERIF, "evidence", ctx.pid + ".json"), "w") as f:
        json.dump(ev, f, indent=1, default=str, sort_keys=True)
    print("%s %s: states=%d transitions=%d impl_traces=%d evaluations=%d distinct=%d known=%d violations=%d conformant=%s wall=%.0fs" % (
        ctx.pid, ctx.tier, cov["states"], cov["transitions"], cov["traces_validated_against_impl"],
        cov["evaluations"], cov["distinct_nontrivial"], len(seen_known), len(fresh), cov["conformant"], time.time() - ctx.t0))
    return 1 if fresh else 0


# ---- raw file-system projection (never through signac) -----------------------------------
def snapshot(root, with_meta=False):
    """relpath -> bytes (files), None (dirs), ('L', target) (symlinks)."""
    out = {}
    for r, ds, fs in os.walk(root):
        for d in list(ds):
            p = os.path.join(r, d)
            if os.path.islink(p):
                out[os.path.relpath(p, root)] = ("L", os.readlink(p))
            else:
                out[os.path.relpath(p, root) + "/"] = None
        for f in fs:
            p = os.path.join(r, f)
            if os.path.islink(p):
                out[os.path.relpath(p, root)] = ("L", os.readlink(p))
            else:
                with open(p, "rb") as fh:
                    out[os.path.relpath(p, root)] = fh.read()
    return out


def read_cache_file(root):
    fn = os.path.join(root, ".signac", "statepoint_cache.json.gz")
    if not os.path.exists(fn):
        return None
    with gzip.open(fn, "rb") as f:
        return json.loads(f.read().decode())


def pmap(fn, items, procs=16, chunks=None):
    """Fork-pool map preserving order; fn must be a module-level function."""
    items = list(items)
    if not items:
        return []
    if procs <= 1 or len(items) < 2:
        return [fn(x) for x in items]
    with mp.get_context("fork").Pool(min(procs, len(items))) as pool:
        return pool.map(fn, items, chunksize=chunks or max(1, len(items) // (procs * 8)))

"""C17 helpers: universes (Python state points <-> LinkedView.tla constants), state-graph reading, edge-cover walks,
real execution of walks (sandbox project + view), raw observation of a view with os.walk / os.readlink, comparison.

Nothing in here knows what a view *should* contain: the expected states and results come out of TLC."""
import hashlib
import json
import os
import re
import shutil
from collections import deque

from . import tlaparse

SPECIAL = {"JOB": "job", "CUR": ".", "DOT": ".", "US": "_", "ALL": "all"}


# =========================================================================================================
# universes
# =========================================================================================================
def _render(v):
    """Python text of a state point value as it appears in a path (lists are indexed as tuples). Trusted base."""
    def h(x):
        return tuple(h(y) for y in x) if isinstance(x, list) else x
    return str(h(v))


class Universe:
    """jobs: list of state points (plain dicts). Job tokens j1.. in this (canonical listing) order."""

    def __init__(self, name, sps, pathspecs, orders=("asc",), speckey="a", max_subsets=64):
        self.name, self.sps = name, sps
        self.tokens = ["j%d" % (i + 1) for i in range(len(sps))]
        self.pathspecs, self.orders, self.speckey, self.max_subsets = list(pathspecs), list(orders), speckey, max_subsets
        self.text = dict(SPECIAL)          # atom -> text
        self._t2a = {"job": "JOB", "all": "ALL"}
        self._vals = {}                    # (type name, repr) -> value atom
        self.valpy = {}                    # value atom -> python value
        self.sp_of = dict(zip(self.tokens, sps))
        self.ids = {t: hashlib.md5(json.dumps(sp, sort_keys=True).encode()).hexdigest() for t, sp in self.sp_of.items()}
        if len(set(self.ids.values())) != len(sps):
            raise ValueError("duplicate state points in universe")
        self.tok_of_id = {i: t for t, i in self.ids.items()}
        self.leaves = {t: self._flatten(sp) for t, sp in self.sp_of.items()}
        self.render = {a: self.tatom(_render(v)) for a, v in self.valpy.items()}
        for t in self.tokens:
            self.text["ID_" + t] = self.ids[t]
        self.k = self.tatom(speckey)

    def tatom(self, text):
        if text not in self._t2a:
            a = "T%d" % len(self._t2a)
            self._t2a[text] = a
        self.text[self._t2a[text]] = text
        return self._t2a[text]

    def vatom(self, v):
        key = (type(v).__name__, repr(v))
        if key not in self._vals:
            self._vals[key] = "V%d" % len(self._vals)
            self.valpy[self._vals[key]] = v
        return self._vals[key]

    def _flatten(self, sp, pre=()):
        out = []
        for k, v in sp.items():
            if isinstance(v, dict):
                if not v:
                    raise ValueError("empty mappings are outside the C17 universes")
                out += self._flatten(v, pre + (self.tatom(k),))
            else:
                out.append((pre + (self.tatom(k),), self.vatom(v)))
        return out

    # ---- TLA+ constants ----------------------------------------------------------------------------
    def mc_module(self, modname, fixed):
        q = lambda s: '"%s"' % s
        seq = lambda xs: "<<" + ", ".join(xs) + ">>"
        st = lambda xs: "{" + ", ".join(sorted(xs)) + "}"
        sp = " @@ ".join("%s :> %s" % (q(t), st("[k |-> %s, v |-> %s]" % (seq(map(q, k)), q(v)) for k, v in self.leaves[t])) for t in self.tokens)
        keypaths = sorted({k for t in self.tokens for k, _ in self.leaves[t]}, key=lambda k: "sp." + ".".join(self.text[a] for a in k))
        sepvals = [a for a, v in self.valpy.items() if isinstance(v, str) and os.sep in v]
        sepkeys = [a for a, t in self.text.items() if a.startswith("T") and os.sep in t]
        lines = [
            "---- MODULE %s ----" % modname, "EXTENDS LinkedView",
            "MC_JobSeq == %s" % seq(map(q, self.tokens)),
            "MC_SP == (%s)" % sp,
            "MC_Render == (%s)" % " @@ ".join("%s :> %s" % (q(a), q(r)) for a, r in sorted(self.render.items())),
            "MC_SepVals == %s" % st(map(q, sepvals)), "MC_SepKeys == %s" % st(map(q, sepkeys)),
            "MC_KeyOrder == %s" % seq(seq(map(q, k)) for k in keypaths),
            "MC_IdAtom == (%s)" % " @@ ".join("%s :> %s" % (q(t), q("ID_" + t)) for t in self.tokens),
            "MC_PathSpecs == %s" % st(map(q, self.pathspecs)), "MC_Orders == %s" % st(map(q, self.orders)),
            "MC_SpecKey == %s" % q(self.k),
            "MC_CliFilters == %s" % st("[k |-> %s, v |-> %s]" % (q(k), q(v)) for k, v in self.cli_filters()), "===="]
        consts = {c: "<- MC_" + c for c in ["JobSeq", "SP", "Render", "SepVals", "SepKeys", "KeyOrder", "IdAtom", "PathSpecs", "Orders", "SpecKey", "CliFilters"]}
        consts["CliMode"] = "TRUE" if getattr(self, "cli", False) else "FALSE"
        consts["MaxSubsets"] = str(self.max_subsets)
        consts["MaxInside"] = str(getattr(self, "max_inside", 2))
        for k, v in fixed.items():
            consts[k] = "TRUE" if v else "FALSE"
        return "\n".join(lines) + "\n", consts

    # ---- spec value -> real text -------------------------------------------------------------------
    def seg_text(self, seg):
        return "".join(self.text[a] for a in seg)

    def path_text(self, p):
        return "/".join(self.seg_text(s) for s in p)

    def view_of(self, v):
        """spec view -> ({relative link path: job token}, {relative directory path})"""
        links = {}
        for l in v["links"]:
            rel = "/".join([self.seg_text(s) for s in l["d"]] + ["job"])
            if rel in links:
                raise RuntimeError("universe %s: two spec links render to the same text %r" % (self.name, rel))
            links[rel] = l["j"]
        dirs = {self.path_text(d) for d in v["dirs"]}
        if len(dirs) != len(v["dirs"]):
            raise RuntimeError("universe %s: two spec directories render to the same text" % self.name)
        return links, dirs

    def inside_of(self, raw):
        """spec variable `inside` (set of (job, path)) -> {(job token, relative path text)}"""
        return frozenset((j, self.path_text(p)) for j, p in raw)

    def cli_filters(self):
        """`-f key value` selections of the command-line model: every top-level (key, value) pair that occurs, plus one that matches nothing"""
        if not getattr(self, "cli", False):
            return []
        pairs = sorted({(k[0], v) for t in self.tokens for k, v in self.leaves[t] if len(k) == 1})
        return pairs + [(pairs[0][0], "NOMATCH")]

    def path_arg(self, ps):
        k = self.speckey
        return {"auto": None, "cliauto": None, "id": False, "tree": "%s/{%s}/{{auto}}" % (k, k), "flat": "%s_{%s}/{{auto:_}}" % (k, k), "const": "all"}[ps]


# =========================================================================================================
# the labelled state graph (TLC -dump dot,actionlabels; observation variable `last`, forgotten by an Idle step)
# =========================================================================================================
_EDGE = re.compile(r'^(-?\d+) -> (-?\d+) \[label="((?:[^"\\]|\\.)*)"')
_NODE = re.compile(r'^(-?\d+) \[label="((?:[^"\\]|\\.)*)"(.*)$')


def _unesc(s):
    return s.replace("\\n", "\n").replace('\\"', '"').replace("\\\\", "\\")


def _parts(label):
    out = {}
    for part in re.split(r"(?:^|\n)/\\ ", label):
        if part.strip():
            name, _, rest = part.partition(" = ")
            out[name.strip()] = rest
    return out


class Graph:
    """quotient graph: node = (ws, view) [the states with last = Idle]; edge = one labelled transition
    {id, src, dst, op, j1, j2, a, res, dev} read from the `last` of the intermediate state"""

    def __init__(self, path):
        self.nodes, self.edges, self.init = {}, [], None
        labelled, raw_edges, cache = {}, [], {}
        with open(path) as f:
            for line in f:
                m = _EDGE.match(line)
                if m:
                    raw_edges.append((m.group(1), m.group(2)))
                    continue
                m = _NODE.match(line)
                if m:
                    parts = _parts(_unesc(m.group(2)))
                    lt = parts["last"]
                    if lt not in cache:
                        cache[lt] = tlaparse.parse_value(lt)
                    last = cache[lt]
                    if last["op"] == "idle":
                        self.nodes[m.group(1)] = {"ws": tlaparse.parse_value(parts["ws"]), "view": tlaparse.parse_value(parts["view"]),
                                                  "inside": frozenset((x["j"], x["p"]) for x in tlaparse.parse_value(parts["inside"]))}
                        if "filled" in m.group(3) and self.init is None:
                            self.init = m.group(1)
                    else:
                        labelled[m.group(1)] = last
        fwd = {}
        for s_, d_ in raw_edges:
            if s_ in labelled:
                fwd[s_] = d_
        seen = set()
        for s_, d_ in raw_edges:
            if s_ in self.nodes and d_ in labelled and (s_, d_) not in seen:
                seen.add((s_, d_))
                last = labelled[d_]
                self.edges.append({"id": len(self.edges), "src": s_, "dst": fwd[d_], "op": last["op"], "j1": last["j1"], "j2": last["j2"],
                                   "a": last["a"], "res": last["res"], "dev": last["dev"]})
        self.out = {n: [] for n in self.nodes}
        for e in self.edges:
            self.out[e["src"]].append(e["id"])

    def action_key(self, e):
        """what the harness executes (results are not inputs)"""
        return (e["op"], e["j1"], e["j2"], e["a"])

    def alternatives(self, e):
        k = self.action_key(e)
        return [x for x in self.out[e["src"]] if self.action_key(self.edges[x]) == k]


def cover_walks(g, uncovered, maxlen, rnd, banned=(), prefer=()):
    """walks (lists of edge ids) from the initial state that together execute every edge in `uncovered`.
    banned: edges the implementation is known not to take (outcomes of nondeterministic model steps it never chooses);
    prefer: edges already executed once (known to be feasible) - used first to travel between states"""
    uncovered = set(uncovered) - set(banned)
    todo = {n: [e for e in g.out[n] if e in uncovered] for n in g.nodes}
    for n in todo:
        rnd.shuffle(todo[n])
    succ = {}
    for eid in prefer:
        e = g.edges[eid]
        succ.setdefault(e["src"], {}).setdefault(e["dst"], eid)
    if not prefer:
        for e in g.edges:
            if e["id"] not in banned:
                succ.setdefault(e["src"], {}).setdefault(e["dst"], e["id"])

    def nearest(cur):
        """shortest edge path from cur to a node that still has uncovered out-edges"""
        if todo[cur]:
            return []
        prev, dq = {cur: None}, deque([cur])
        while dq:
            n = dq.popleft()
            for d, eid in succ.get(n, {}).items():
                if d not in prev:
                    prev[d] = (n, eid)
                    if todo[d]:
                        path = []
                        while prev[d] is not None:
                            n2, e2 = prev[d]
                            path.append(e2)
                            d = n2
                        return path[::-1]
                    dq.append(d)
        return None

    walks = []
    while uncovered:
        cur, walk = g.init, []
        while len(walk) < maxlen:
            path = nearest(cur)
            if path is None:
                break
            if len(walk) + len(path) + 1 > maxlen and walk:
                break
            for eid in path:
                walk.append(eid)
                cur = g.edges[eid]["dst"]
            while todo[cur] and todo[cur][-1] not in uncovered:
                todo[cur].pop()
            if not todo[cur]:
                continue
            eid = todo[cur].pop()
            uncovered.discard(eid)
            walk.append(eid)
            cur = g.edges[eid]["dst"]
        if not walk:
            break          # what is left cannot be reached along the allowed edges
        walks.append(walk)
        for n in list(todo):
            if todo[n] and not any(e in uncovered for e in todo[n]):
                todo[n] = []
    return walks


def shortest_path_to(g, node):
    prev, dq = {g.init: None}, deque([g.init])
    while dq:
        n = dq.popleft()
        if n == node:
            break
        for eid in g.out[n]:
            d = g.edges[eid]["dst"]
            if d not in prev:
                prev[d] = eid
                dq.append(d)
    path, n = [], node
    while prev[n] is not None:
        path.append(prev[n])
        n = g.edges[prev[n]]["src"]
    return path[::-1]


# =========================================================================================================
# real execution
# =========================================================================================================
def observe_view(prefix, workspace, tok_of_id):
    """raw os.walk / os.readlink reading of a view: ({rel link path: job token | marker}, {rel dir}, [other entries])"""
    links, dirs, other = {}, set(), []
    if not os.path.lexists(prefix):
        return links, dirs, other
    wsreal = os.path.realpath(workspace)
    for r, ds, fs in os.walk(prefix):
        for n in list(ds) + list(fs):
            p = os.path.join(r, n)
            rel = os.path.relpath(p, prefix)
            if os.path.islink(p):
                raw = os.readlink(p)
                res = os.path.realpath(p)
                if os.path.dirname(res) == wsreal:
                    tok = tok_of_id.get(os.path.basename(res), "UNKNOWN-ID:" + os.path.basename(res))
                else:
                    tok = "OUTSIDE:" + res
                if os.path.isabs(raw):
                    tok = tok + "(absolute)"      # the statement says nothing about relative links; reported as drift only
                links[rel] = tok
            elif os.path.isdir(p):
                dirs.add(rel)
            else:
                other.append(rel)
    return links, dirs, other


class Sandbox:
    def __init__(self, root, uni):
        import signac
        self.uni, self.root = uni, root
        shutil.rmtree(root, ignore_errors=True)
        os.makedirs(root)
        self.project = signac.init_project(root)
        self.prefix = os.path.join(root, "view")
        self.nscratch = 0

    def ws(self):
        return frozenset(self.uni.tok_of_id.get(n, "STRAY:" + n) for n in os.listdir(self.project.workspace)) if os.path.isdir(self.project.workspace) else frozenset()

    def view(self, prefix=None):
        return observe_view(prefix or self.prefix, self.project.workspace, self.uni.tok_of_id)

    def inside(self):
        """raw snapshot of the job directories: everything below workspace/<id>/ except the state point file, as
        {(job token, relative path)} - a view operation must never create anything there (links are not followed)"""
        out = set()
        wsdir = self.project.workspace
        if not os.path.isdir(wsdir):
            return frozenset()
        for n in os.listdir(wsdir):
            d = os.path.join(wsdir, n)
            if os.path.islink(d) or not os.path.isdir(d):
                continue
            for r, ds, fs in os.walk(d):
                for x in ds + fs:
                    rel = os.path.relpath(os.path.join(r, x), d)
                    if rel != "signac_statepoint.json":
                        out.add((self.uni.tok_of_id.get(n, "STRAY:" + n), rel))
        return frozenset(out)

    def add(self, j):
        job = self.project.open_job(json.loads(json.dumps(self.uni.sp_of[j])))
        job.init()
        if job.id != self.uni.ids[j]:
            raise RuntimeError("id table mismatch for %s" % j)

    def remove(self, j):
        self.project.open_job(id=self.uni.ids[j]).remove()

    def rekey(self, j, j2):
        job = self.project.open_job(json.loads(json.dumps(self.uni.sp_of[j])))
        job.statepoint = json.loads(json.dumps(self.uni.sp_of[j2]))

    def spell_ids(self, ids, spell):
        """the SAME argument `job_ids` (documented: iterable) in another Python spelling; one-shot iterables included"""
        if spell == "tuple":
            return tuple(ids)
        if spell == "set":          # (only used when no order-dependent deviation is open)
            return set(ids) if getattr(self.uni, "order_free", False) else tuple(ids)
        if spell == "genexp":
            return (i for i in ids)
        if spell == "iter":
            return iter(ids)
        if spell == "map":
            return map(str, ids)
        if spell == "dictkeys":
            return dict.fromkeys(ids).keys()
        if spell == "cursor":       # ids derived lazily from a JobsCursor (listing order = the pinned order = the order of ids)
            wanted = set(ids)
            return (job.id for job in self.project.find_jobs() if job.id in wanted)
        return list(ids)

    def create_view(self, a, prefix=None, spell="list"):
        """a: spec argument record. Directory listing order is pinned to a.ord (the spec's listing order) -> class name | 'ok'"""
        uni = self.uni
        rank = {uni.ids[t]: i for i, t in enumerate(uni.tokens)}
        desc = a["ord"] == "desc"
        real_listdir = os.listdir
        wsdir = os.path.abspath(self.project.workspace)

        def listdir(path="."):
            names = real_listdir(path)
            try:
                if os.path.abspath(os.fspath(path)) == wsdir:
                    names = sorted(names, key=lambda n: rank.get(n, 10**6), reverse=desc)
            except TypeError:
                pass
            return names
        kw = {"prefix": prefix or self.prefix, "path": uni.path_arg(a["ps"])}
        if a["kind"] == "ids":
            toks = [t for t in uni.tokens if t in a["S"]]
            kw["job_ids"] = self.spell_ids([uni.ids[t] for t in (reversed(toks) if desc else toks)], spell)
        os.listdir = listdir
        try:
            self.project.create_linked_view(**kw)
            return "ok", None
        except Exception as e:  # noqa
            return type(e).__name__, e
        finally:
            os.listdir = real_listdir

    def cli_argv(self, a, variant=0, prefix=None):
        return cli_argv(self.uni, a, variant, prefix, self.prefix)

    def cli_view(self, a, variant=0, prefix=None):
        """run the real command line in its own process (cwd = project directory; listing order pinned as for the library calls)"""
        from .clifront import run_cli
        uni = self.uni
        rank = {uni.ids[t]: i for i, t in enumerate(uni.tokens)}
        desc = a["ord"] == "desc"
        real_listdir = os.listdir
        wsdir = os.path.abspath(self.project.workspace)

        def listdir(path="."):
            names = real_listdir(path)
            try:
                if os.path.abspath(os.fspath(path)) == wsdir:
                    names = sorted(names, key=lambda n: rank.get(n, 10**6), reverse=desc)
            except TypeError:
                pass
            return names
        argv = self.cli_argv(a, variant, prefix)
        os.listdir = listdir                            # inherited by the forked command process
        try:
            code, out, err = run_cli(self.root, self.root, argv)
        finally:
            os.listdir = real_listdir
        self.last_cli = (argv, code, out, err)
        if code == 0:
            return ("ok", None) if not out.strip() else ("exit-0-with-output", out[:200])
        return "exit-1", err.strip()[-300:]

    def scratch_build(self, a, spell="list"):
        """the same call into a fresh sibling directory: the real from-scratch build"""
        self.nscratch += 1
        p = os.path.join(self.root, "scratch%d" % self.nscratch)
        if a["kind"].startswith("cli"):
            res, exc = self.cli_view(a, self.nscratch, prefix=p)
            if res == "exit-1":
                exc = RuntimeError(exc)
        else:
            res, exc = self.create_view(a, prefix=p, spell=spell)
        obs = self.view(p)
        shutil.rmtree(p, ignore_errors=True)
        return res, exc, obs

    def close(self):
        shutil.rmtree(self.root, ignore_errors=True)


def cli_argv(uni, a, variant=0, prefix=None, default_prefix="<project>/view"):
    """`signac view ...` as a user types it for the spec's argument record a (the selection S was decided by TLC)"""
    argv = ["view"]
    if prefix is None and variant % 3 == 0:
        pass                                        # default prefix: ./view of the project directory
    elif prefix is None and variant % 3 == 1:
        argv += ["-p", "view"]
    else:
        argv += ["--prefix" if variant % 2 else "-p", prefix or default_prefix]
    path = uni.path_arg(a["ps"])
    if path is not None:
        argv.append(path)
    elif variant % 2:
        argv.append("{{auto}}")                     # the default, spelled out
    if a["kind"] == "cli_ids":
        toks = [t for t in uni.tokens if t in a["S"]]
        argv += ["-j" if variant % 2 == 0 else "--job-id"] + [uni.ids[t] for t in (reversed(toks) if a["ord"] == "desc" else toks)]
    elif a["kind"] == "cli_filter":
        val = 987654321 if a["fv"] == "NOMATCH" else uni.valpy[a["fv"]]
        argv += ["-f", uni.text[a["fk"]], val if isinstance(val, str) else json.dumps(val)]
    return argv


def res_matches(res, exc, want):
    """exception classes with subclass tolerance; a command line only has an exit status (1 = any error)"""
    if want == "ok" or res == "ok":
        return res == want
    if res == "exit-1":
        return True
    cls = {"RuntimeError": RuntimeError, "OSError": OSError, "KeyError": KeyError}.get(want)
    return isinstance(exc, cls) if cls else res == want


def classify(real_res, real_exc, real_links, real_dirs, real_other, want_res, want_links, want_dirs, pre_links, pre_dirs, selected, ws):
    """name the first stated post-condition that the real execution falsifies (None: all hold)"""
    if want_res == "ok" and real_res != "ok":
        return "unexpected-%s" % real_res
    if want_res != "ok" and real_res == "ok":
        return "unrepresentable-input-accepted"
    if want_res != "ok":
        if not res_matches(real_res, real_exc, want_res):
            return "wrong-exception-%s" % real_res
        if (real_links, real_dirs) != (pre_links, pre_dirs) or real_other:
            return "rejected-input-altered-view"
        return None
    if real_other:
        return "stray-entry"
    for rel, tok in sorted(real_links.items()):
        if rel not in want_links:
            base = tok.split("(")[0]
            if base.startswith(("OUTSIDE", "UNKNOWN")) or base not in ws:
                return "dangling-link"
            if base not in selected:
                return "obsolete-link-kept"
            return "link-at-wrong-path"
    for rel, tok in sorted(want_links.items()):
        if rel not in real_links:
            return "link-missing"
        got = real_links[rel].split("(")[0]
        if got != tok:
            return "dangling-link" if got not in ws else "link-target-not-updated"
    for d in sorted(real_dirs - want_dirs):
        if not any(l.startswith(d + "/") for l in real_links):
            return "empty-directory-left"
        return "extra-directory"
    if want_dirs - real_dirs:
        return "directory-missing"
    return None

"""C19 helpers: materialise a Discovery.tla tree on disk, call the real discovery functions, compare.

Only translation (spec value <-> files / paths), execution of signac and comparison live here; every expected
answer comes from the NDJSON TLC exported.
"""
import contextlib
import gzip
import hashlib
import json
import os
import re
import shutil

from . import core

NONE = ["*none*"]
PROJ_KINDS = ("proj", "jobproj")
SP_OF = {  # state points whose md5 ids are the spec's I1 / I2 (checked against core.my_id by the driver)
    "42b7b4f2921788ea14dac5566e6f06d0": {"a": 1},
    "9f8a8e5ba8c70c774d410a9107e2a32b": {"a": 2},
    "14fb5d016557165019abaac200785048": {"a": 3},
}
PLAIN_CONFIG = b"schema_version = 2\n"
RICH_CONFIG = (b"# project configuration written by hand\nschema_version = 2\n"
               b"statepoint_cache_miss_warning_threshold = 7   # an entry init_project must not reset\n"
               b"[extra]\nkey = 'value with spaces'\n")


def assert_clean_ancestry(base):
    """nothing above the sandbox may look like a project (the spec assumes so), and the path must be physical"""
    if os.path.realpath(base) != base:
        raise core.MachineryError("sandbox path %s is not physical" % base)
    if re.search(r"[0-9a-f]{32}", base):
        raise core.MachineryError("sandbox path %s contains an id-like component" % base)
    p = os.path.dirname(base)
    while True:
        if os.path.isfile(os.path.join(p, ".signac", "config")) or os.path.isfile(os.path.join(p, "signac.rc")):
            raise core.MachineryError("a signac project exists above the sandbox at %s" % p)
        if os.path.dirname(p) == p:
            break
        p = os.path.dirname(p)


def ap(base, path):
    return os.path.join(base, *path) if path else base


def _h(*xs):
    return int(hashlib.md5(repr(xs).encode()).hexdigest()[:8], 16)


def materialise(nodes, base, seed=0, skip_config_of=None, use_api=True, mounts=(), mount_root=None):
    """Create the tree under base (which must not exist). Returns a description of what was decorated.
    Projects are created either by signac.init_project (then decorated) or entirely by hand; which one, whether
    the configuration carries extra entries, and whether link targets are absolute or relative is decided
    by a hash of (seed, path) - deterministic."""
    import signac
    info = {"rich": [], "by_api": []}
    nodes = sorted(nodes, key=lambda n: (len(n["p"]), n["p"]))
    for n in nodes:
        if n["k"] == "link":
            continue
        d = ap(base, n["p"])
        if n["p"] in mounts and n["p"]:
            # CAL_DeviceBlind: the directory itself lives under mount_root (possibly another device), a link stands here
            real = os.path.join(mount_root, "m%d" % len(os.listdir(mount_root)))
            os.makedirs(real)
            os.symlink(real, d)
        else:
            os.makedirs(d, exist_ok=True)
        if n["k"] in PROJ_KINDS and n["p"] != skip_config_of:
            h = _h(seed, n["p"])
            cfg = os.path.join(d, ".signac", "config")
            if h % 3 == 0 and use_api:
                signac.init_project(d)
                info["by_api"].append(n["p"])
                if h % 2 == 0:
                    with open(cfg, "ab") as f:
                        f.write(RICH_CONFIG.split(b"\n", 2)[2])
                    info["rich"].append(n["p"])
            else:
                os.makedirs(os.path.join(d, ".signac"), exist_ok=True)
                with open(cfg, "wb") as f:
                    f.write(RICH_CONFIG if h % 2 == 0 else PLAIN_CONFIG)
                if h % 2 == 0:
                    info["rich"].append(n["p"])
            if h % 2 == 0:
                with open(os.path.join(d, "signac_project_document.json"), "w") as f:
                    json.dump({"owner": "/".join(n["p"]), "n": [1, 2, {"x": None}]}, f)
                ids = [m["p"][-1] for m in nodes if m["p"][:-1] == n["p"] + ["workspace"] and m["k"] in ("job", "jobproj")]
                with gzip.GzipFile(os.path.join(d, ".signac", "statepoint_cache.json.gz"), "wb", mtime=0) as f:
                    f.write(json.dumps({i: SP_OF[i] for i in ids}).encode())
                with open(os.path.join(d, ".signac", "shell_history"), "w") as f:
                    f.write("project\n")
        if n["k"] in ("job", "jobproj"):
            i = n["p"][-1]
            with open(os.path.join(d, "signac_statepoint.json"), "w") as f:
                json.dump(SP_OF[i], f)
            with open(os.path.join(d, "signac_job_document.json"), "w") as f:
                json.dump({"doc": i[:4]}, f)
            with open(os.path.join(d, "data.txt"), "w") as f:
                f.write("payload of " + i)
    for n in nodes:
        if n["k"] != "link":
            continue
        src = ap(base, n["p"])
        tgt = os.path.join(base, "nowhere", "at-all") if n["tgt"] == NONE else ap(base, n["tgt"])
        if _h(seed, n["p"], "rel") % 2 and not mounts:
            tgt = os.path.relpath(tgt, os.path.dirname(src))
        os.symlink(tgt, src)
    return info


def disk_nodes(base):
    """independent raw observation: the directory tree as a set of (path tuple, kind) - used to check that the
    materialisation is what the spec tree says (and for binding self-tests)"""
    out = {}

    def kind(p, path):
        if os.path.islink(p):
            return "link"
        name = path[-1] if path else ""
        isproj = os.path.isfile(os.path.join(p, ".signac", "config"))
        if re.fullmatch(r"[0-9a-f]{32}", name) and len(path) >= 2 and path[-2] == "workspace":
            return "jobproj" if isproj else "job"
        if name == "workspace" and len(path) >= 1 and os.path.isfile(os.path.join(os.path.dirname(p), ".signac", "config")):
            return "ws"
        return "proj" if isproj else "dir"

    def walk(p, path):
        out[tuple(path)] = kind(p, path)
        if os.path.islink(p):
            return
        for e in sorted(os.listdir(p)):
            c = os.path.join(p, e)
            if e == ".signac" or not (os.path.isdir(c) or os.path.islink(c)):
                continue
            walk(c, path + [e])
    walk(base, [])
    return out


@contextlib.contextmanager
def cwd(d):
    old = os.getcwd()
    os.chdir(d)
    try:
        yield
    finally:
        os.chdir(old)


def call(fn, *args, **kw):
    """-> ('project', path) | ('job', project path, id, job dir) | ('LookupError', cls name) | ('error', cls name, text)"""
    try:
        r = fn(*args, **kw)
    except LookupError as e:
        return ("LookupError", type(e).__name__)
    except Exception as e:  # noqa
        return ("error", type(e).__name__, str(e)[:200])
    if type(r).__name__ == "Job":
        return ("job", r.project.path, r.id, r.path)
    return ("project", r.path)


def want(base, ans, is_job=False):
    """spec answer record -> the tuple call() must return"""
    if not ans["ok"]:
        return ("LookupError",)
    if is_job:
        return ("job", ap(base, ans["path"]), ans["id"], ap(base, ans["dir"]))
    return ("project", ap(base, ans["path"]))


def same(got, exp):
    if exp[0] == "LookupError":
        return got[0] == "LookupError"
    return tuple(got) == tuple(exp)


def relation(got, exp):
    """short class of a disagreement, for signatures"""
    if got[0] == "error":
        return "raises-" + got[1]
    if exp[0] == "LookupError":
        return "answers-instead-of-LookupError"
    if got[0] == "LookupError":
        return "LookupError-instead-of-answer"
    g, e = got[1], exp[1]
    if g != e:
        if e.startswith(g + os.sep) or g == os.path.dirname(e):
            return "project-too-far-up"
        if g.startswith(e + os.sep):
            return "project-too-far-down"
        return "other-project"
    if got[0] == "job" and got[2] != exp[2]:
        return "wrong-job-id"
    return "wrong-job-directory"


def snapshot(base):
    return core.snapshot(base)


def file_meta(root):
    """relpath -> (inode, mtime_ns, size) of every regular file: notices files rewritten with identical bytes"""
    out = {}
    for r, ds, fs in os.walk(root):
        for x in fs:
            st = os.lstat(os.path.join(r, x))
            out[os.path.relpath(os.path.join(r, x), root)] = (st.st_ino, st.st_mtime_ns, st.st_size)
    return out


def snapdiff(a, b):
    """-> (added, removed, changed) relpath lists"""
    return (sorted(k for k in b if k not in a), sorted(k for k in a if k not in b),
            sorted(k for k in a if k in b and a[k] != b[k]))


def classify_paths(paths):
    """reduce changed paths to what kind of thing they are (for signatures)"""
    out = set()
    for p in paths:
        q = p.rstrip("/")
        bn = os.path.basename(q)
        if q.endswith(os.path.join(".signac", "config")):
            out.add("config")
        elif bn in ("signac_project_document.json", "signac_job_document.json"):
            out.add("document")
        elif bn == "statepoint_cache.json.gz":
            out.add("cache")
        elif "workspace" in q.split(os.sep):
            out.add("workspace")
        else:
            out.add("other")
    return "+".join(sorted(out))


def rmtree(p):
    shutil.rmtree(p, ignore_errors=True)

\* C13 thorough: FULL option product (5760 rows) x random project pairs (one shard; the driver runs 16 shards per round, 100000 cases)
\* run: SYNC_OUT=/tmp/cases.ndjson [SYNC_IN=/tmp/recs.ndjson] tlc -workers 1 -seed N -config MC_C13_thorough.cfg Sync.tla   (the drivers generate the same text)
CONSTANTS
  MODE = "gen"
  PROP = "C13"
  NCASE = 6250
  FULLOPT = TRUE
  OFFSET = 0
  \* deviations of the pinned tree (TRUE = as the pinned tree); the drivers probe the real code and set them
  DryCopyRaises = TRUE
  DryCopytreeMkdirs = TRUE
  DryNestedDocWrites = TRUE
  ProjDeepDropped = TRUE
  CopytreeIgnoresExclude = TRUE
  DircmpIgnoreList = TRUE
  DryJobNeedsDstDir = TRUE
  CloneExcludeHitsSpecial = TRUE
  SpecialByPrefix = TRUE
  CliFilterOnCwd = TRUE
INIT Init
NEXT Next
INVARIANT Superset
INVARIANT FilesArrive
INVARIANT DstOnlyUntouched
INVARIANT SrcUntouched
INVARIANT Idempotent
INVARIANT NothingElse
INVARIANT ExcusesOnlyWithDeviation
POSTCONDITION Export
ALIAS DebugAlias
CHECK_DEADLOCK FALSE

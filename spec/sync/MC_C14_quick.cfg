\* C14 quick: pairwise covering option rows x conflict-rich project pairs (one shard)
\* run: SYNC_OUT=/tmp/cases.ndjson [SYNC_IN=/tmp/recs.ndjson] tlc -workers 1 -seed N -config MC_C14_quick.cfg Sync.tla   (the drivers generate the same text)
CONSTANTS
  MODE = "gen"
  PROP = "C14"
  NCASE = 750
  FULLOPT = FALSE
  OFFSET = 0
  \* deviations of the pinned tree (TRUE = as the pinned tree); the drivers probe the real code and set them
  DryCopyRaises = TRUE
  DryCopytreeMkdirs = TRUE
  DryNestedDocWrites = TRUE
  ProjDeepDropped = TRUE
  CopytreeIgnoresExclude = TRUE
  DircmpIgnoreList = TRUE
  DryJobNeedsDstDir = TRUE
  CloneExcludeHitsSpecial = TRUE
  SpecialByPrefix = TRUE
  CliFilterOnCwd = TRUE
INIT Init
NEXT Next
INVARIANT OverwriteIffStrategy
INVARIANT ConflictLeavesFile
INVARIANT DocOverwriteIffKeyStrategy
INVARIANT DocRollbackExact
INVARIANT ExcusesOnlyWithDeviation
POSTCONDITION Export
ALIAS DebugAlias
CHECK_DEADLOCK FALSE

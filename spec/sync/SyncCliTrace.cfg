\* command line trace validation: recorded `signac sync` executions (SYNC_IN: the library record with cmd instead of o, plus exit, skipped, nstat) -> verdicts (SYNC_OUT)
\* run: SYNC_OUT=/tmp/cases.ndjson [SYNC_IN=/tmp/recs.ndjson] tlc -workers 1 -seed N -config SyncTrace.cfg Sync.tla   (the drivers generate the same text)
CONSTANTS
  MODE = "clifile"
  PROP = "C13"
  NCASE = 1
  FULLOPT = FALSE
  OFFSET = 0
  \* deviations of the pinned tree (TRUE = as the pinned tree); the drivers probe the real code and set them
  DryCopyRaises = TRUE
  DryCopytreeMkdirs = TRUE
  DryNestedDocWrites = TRUE
  ProjDeepDropped = TRUE
  CopytreeIgnoresExclude = TRUE
  DircmpIgnoreList = TRUE
  DryJobNeedsDstDir = TRUE
  CloneExcludeHitsSpecial = TRUE
  SpecialByPrefix = TRUE
  CliFilterOnCwd = TRUE
INIT Init
NEXT Next
POSTCONDITION Export

CHECK_DEADLOCK FALSE
